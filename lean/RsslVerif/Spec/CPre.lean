import RsslVerif.Gen.CondTables
/-!
# Reference semantics for C11 (our reading of ISO C 6.10.1 restricted to what rssl supports)

Two independent pieces; neither mentions the stack automaton or the precedence-climbing parser.

## 1. Condition expressions
`Expr` is the abstract syntax of a condition; `evalU64 σ e` is its value over unsigned 64-bit integers:
`|| && == != < <= > >= !`, parentheses, `defined`, macro names replaced by their (literal) value, other
identifiers 0, `true`/`false` 1/0.  `print e` spells it with exactly the parentheses the C grammar needs
(logical-OR < logical-AND < equality < relational < unary, all binary levels left-associative), in the
token vocabulary of the lexer (`<=` is `<` directly followed by `=`).

## 2. Conditional groups
A source file is a *tree* (`Items`): plain lines and `if-section`s (`#if/#ifdef/#ifndef` group, then
`#elif` groups, then at most one `#else` group, then `#endif`) — the C grammar.  `Items.sel` is the
textbook rule: a group is processed iff its if-section is processed, no earlier group of the section was
taken, and its condition holds; lines of unprocessed groups have no effect whatsoever and their
conditions are not evaluated.  Processing a plain line appends its macro-expanded text or updates the
macro table.
-/
namespace RsslVerif.Spec.CPre
open RsslVerif.Gen.CondTables

/-! ### macro environment (object-like macros) -/

abbrev Env := List (String × List CTok)

/-- `#define n body`: any previous definition of `n` is dropped -/
def Env.define (σ : Env) (n : String) (body : List CTok) : Env :=
  σ.filter (fun e => e.1 != n) ++ [(n, body)]

/-- `#undef n` -/
def Env.undef (σ : Env) (n : String) : Env := σ.filter (fun e => e.1 != n)

def Env.lookup (σ : Env) (n : String) : Option (List CTok) :=
  match σ with
  | [] => none
  | e :: r => if e.1 == n then some e.2 else Env.lookup r n

def Env.isDefined (σ : Env) (n : String) : Bool := (σ.lookup n).isSome

/-- object-like macro replacement in ordinary text (bodies are not rescanned: the reference is stated
    for bodies without identifiers) -/
def Env.expand (σ : Env) (toks : List CTok) : List CTok :=
  toks.flatMap (fun t => match t with
    | .Id x => (σ.lookup x).getD [t]
    | t => [t])

/-! ### condition expressions -/

/-- the binary operators; the flag on `<`/`>` only records whether the next token follows without
    whitespace (a spelling detail, irrelevant to the value) -/
inductive Op where
  | lor | land | eq | ne | lt (f : FollowedBy) | le | gt (f : FollowedBy) | ge
  deriving DecidableEq, Repr, Inhabited

/-- C binding level, 1 = tightest binary level (relational) … 4 = loosest (logical OR) -/
def Op.level : Op → Nat
  | .lt _ | .le | .gt _ | .ge => 1
  | .eq | .ne => 2
  | .land => 3
  | .lor => 4

def b2u (b : Bool) : UInt64 := if b then 1 else 0

/-- C semantics on unsigned 64-bit values -/
def Op.sem : Op → UInt64 → UInt64 → UInt64
  | .lor, a, b => b2u (a != 0 || b != 0)
  | .land, a, b => b2u (a != 0 && b != 0)
  | .eq, a, b => b2u (a == b)
  | .ne, a, b => b2u (a != b)
  | .lt _, a, b => b2u (decide (a < b))
  | .le, a, b => b2u (decide (a ≤ b))
  | .gt _, a, b => b2u (decide (b < a))
  | .ge, a, b => b2u (decide (b ≤ a))

/-- spelling -/
def Op.toks : Op → List CTok
  | .lor => [.VerticalBarVerticalBar]
  | .land => [.AmpersandAmpersand]
  | .eq => [.EqualsEquals]
  | .ne => [.ExclamationPointEquals]
  | .lt f => [.LeftAngleBracket f]
  | .le => [.LeftAngleBracket .Token, .Equals]
  | .gt f => [.RightAngleBracket f]
  | .ge => [.RightAngleBracket .Token, .Equals]

inductive Expr where
  /-- integer literal, plain or with the `u` suffix -/
  | lit (v : UInt64) (unsignedSuffix : Bool)
  | tru
  | fls
  /-- an identifier used as an operand: a macro name or an unknown identifier -/
  | name (x : String)
  /-- `defined x` (`paren = false`) or `defined ( x )` -/
  | defined (x : String) (paren : Bool)
  | not (e : Expr)
  | bin (op : Op) (l r : Expr)
  /-- explicit (possibly redundant) parentheses -/
  | paren (e : Expr)
  deriving DecidableEq, Repr, Inhabited

/-- value of a macro used as an operand: its body is one literal token -/
def tokValue : List CTok → Option UInt64
  | [.LiteralInt v] => some v
  | [.LiteralIntUnsigned32 v] => some v
  | [.True] => some 1
  | [.False] => some 0
  | _ => none

/-- the reference evaluation over unsigned 64-bit integers -/
def evalU64 (σ : Env) : Expr → UInt64
  | .lit v _ => v
  | .tru => 1
  | .fls => 0
  | .name x => match σ.lookup x with
    | some body => (tokValue body).getD 0
    | none => 0
  | .defined x _ => b2u (σ.isDefined x)
  | .not e => b2u (evalU64 σ e == 0)
  | .bin op l r => op.sem (evalU64 σ l) (evalU64 σ r)
  | .paren e => evalU64 σ e

/-- `print k e`: tokens of `e` in a context that accepts binary levels `≤ k` (0 = operand of `!`) -/
def print (k : Nat) : Expr → List CTok
  | .lit v false => [.LiteralInt v]
  | .lit v true => [.LiteralIntUnsigned32 v]
  | .tru => [.True]
  | .fls => [.False]
  | .name x => [.Id x]
  | .defined x false => [.Id "defined", .Id x]
  | .defined x true => [.Id "defined", .LeftParen, .Id x, .RightParen]
  | .not e => .ExclamationPoint :: print 0 e
  | .bin op l r =>
    let body := print op.level l ++ op.toks ++ print (op.level - 1) r
    if op.level ≤ k then body else [.LeftParen] ++ body ++ [.RightParen]
  | .paren e => [.LeftParen] ++ print 4 e ++ [.RightParen]

/-- the names a condition uses as operands (not the arguments of `defined`) -/
def Expr.operandNames : Expr → List String
  | .name x => [x]
  | .not e | .paren e => e.operandNames
  | .bin _ l r => l.operandNames ++ r.operandNames
  | _ => []

/-- all identifiers of a condition -/
def Expr.names : Expr → List String
  | .name x => [x]
  | .defined x _ => [x]
  | .not e | .paren e => e.names
  | .bin _ l r => l.names ++ r.names
  | _ => []

/-- a condition is *well-formed in σ* when every operand name is either not a macro or a macro whose
    body is one literal, and no identifier is the operator name `defined` -/
def Expr.WellFormedIn (σ : Env) (e : Expr) : Prop :=
  (∀ x ∈ e.operandNames, σ.lookup x = none ∨ ∃ body v, σ.lookup x = some body ∧ tokValue body = some v) ∧
  (∀ x ∈ e.names, x ≠ "defined")

/-- **The grammar of well-formed conditions on tokens** (ISO C 6.6 restricted to the supported operators,
    after macro replacement): `Gram k ts` = the token sequence `ts` derives from the nonterminal of binding
    level `k` (0 = unary-expression, 1 = relational, 2 = equality, 3 = logical-AND, 4 = logical-OR =
    the whole condition).  Binary levels are left-recursive (`l op r` with `l` at the operator's level and
    `r` one level tighter), i.e. left-associative. -/
inductive Gram : Nat → List CTok → Prop
  | int (v : UInt64) : Gram 0 [.LiteralInt v]
  | uint (v : UInt64) : Gram 0 [.LiteralIntUnsigned32 v]
  | tru : Gram 0 [.True]
  | fls : Gram 0 [.False]
  | name (x : String) : Gram 0 [.Id x]
  | not {ts : List CTok} : Gram 0 ts → Gram 0 (.ExclamationPoint :: ts)
  | paren {ts : List CTok} : Gram 4 ts → Gram 0 (.LeftParen :: ts ++ [.RightParen])
  | up {k : Nat} {ts : List CTok} : Gram k ts → Gram (k + 1) ts
  | bin (op : Op) {l r : List CTok} : Gram op.level l → Gram (op.level - 1) r → Gram op.level (l ++ op.toks ++ r)

/-! ### conditional groups -/

inductive Pragma where | once | warning | unknown
  deriving DecidableEq, Repr, Inhabited

/-- lines that are not part of the conditional skeleton -/
inductive Plain where
  | text (toks : List CTok)
  | define (n : String) (body : List CTok)
  | undef (n : String)
  | pragma (k : Pragma)
  /-- `#include` of a file holding ordinary text lines only, or of a file that does not exist -/
  | incl (file : Option (List (List CTok)))
  /-- a directive name the preprocessor does not know -/
  | unknown
  /-- a directive that does not start with a name at all (`#3`, `# +`): a non-directive of C that the
      preprocessor rejects where it is processed -/
  | nonName
  deriving DecidableEq, Repr, Inhabited

/-- head of an if-section -/
inductive Head where
  | ifc (c : List CTok)
  | ifdef (n : String)
  | ifndef (n : String)
  deriving DecidableEq, Repr, Inhabited

mutual
inductive Item where
  | plain (p : Plain)
  | cond (h : Head) (body : Items) (rest : Chain)
inductive Items where
  | nil
  | cons (i : Item) (is : Items)
/-- what follows the first group of an if-section -/
inductive Chain where
  | endif
  | els (body : Items)
  | elif (c : List CTok) (body : Items) (rest : Chain)
end

/-- why a processed line is rejected -/
inductive Reject (ε : Type) where
  | cond (e : ε)
  | unknownPragma
  | unknownDirective
  | missingInclude
  deriving DecidableEq, Repr

abbrev Out := List (List CTok)

/-- effect of a processed plain line -/
def Plain.apply {ε : Type} (s : Env × Out) : Plain → Except (Reject ε) (Env × Out)
  | .text toks => .ok (s.1, s.2 ++ [s.1.expand toks])
  | .define n b => .ok (s.1.define n b, s.2)
  | .undef n => .ok (s.1.undef n, s.2)
  | .pragma .unknown => .error .unknownPragma
  | .pragma _ => .ok s
  | .incl none => .error .missingInclude
  | .incl (some lines) => .ok (s.1, s.2 ++ lines.map s.1.expand)
  | .unknown => .error .unknownDirective
  | .nonName => .error .unknownDirective

section
variable {ε : Type} (cv : Env → List CTok → Except ε Bool)

/-- value of the head of an if-section in a processed context -/
def Head.value (σ : Env) : Head → Except (Reject ε) Bool
  | .ifc c => match cv σ c with
    | .ok b => .ok b
    | .error e => .error (.cond e)
  | .ifdef n => .ok (σ.isDefined n)
  | .ifndef n => .ok (!σ.isDefined n)

mutual
/-- `act` = the enclosing group is being processed -/
def Item.sel (act : Bool) (s : Env × Out) : Item → Except (Reject ε) (Env × Out)
  | .plain p => if act then p.apply s else .ok s
  | .cond h body rest =>
    if act then
      match h.value cv s.1 with
      | .error e => .error e
      | .ok b =>
        match body.sel b s with
        | .error e => .error e
        | .ok s' => rest.sel true b s'
    else
      -- nothing inside an unprocessed group is looked at
      .ok s
def Items.sel (act : Bool) (s : Env × Out) : Items → Except (Reject ε) (Env × Out)
  | .nil => .ok s
  | .cons i is =>
    match i.sel act s with
    | .error e => .error e
    | .ok s' => is.sel act s'
/-- `act` = the if-section is being processed, `taken` = an earlier group of it was taken -/
def Chain.sel (act : Bool) (taken : Bool) (s : Env × Out) : Chain → Except (Reject ε) (Env × Out)
  | .endif => .ok s
  | .els body => body.sel (act && !taken) s
  | .elif c body rest =>
    if act && !taken then
      match cv s.1 c with
      | .error e => .error (.cond e)
      | .ok b =>
        match body.sel b s with
        | .error e => .error e
        | .ok s' => rest.sel act b s'
    else
      -- the group is skipped; its condition is not evaluated
      rest.sel act taken s
end
end

/-! ### which flat line sequences are rejected for their shape -/

/-- the shape of a line as far as nesting is concerned -/
inductive Shape where
  | opens      -- #if #ifdef #ifndef
  | elif
  | els
  | endif
  | other
  deriving DecidableEq, Repr, Inhabited

inductive ShapeErr where
  | unmatchedElse     -- `#elif`/`#else` with no open if-section
  | unmatchedEndif
  | unterminated
  | elseAfterElse     -- a second `#else` in one if-section
  | elifAfterElse     -- `#elif` after the `#else` of its if-section
  deriving DecidableEq, Repr, Inhabited

/-- the property's rule: "an unterminated chain or an unmatched #else/#endif is rejected";
    `depth` = number of open if-sections -/
def scan (depth : Nat) : List Shape → Except ShapeErr Unit
  | [] => if depth = 0 then .ok () else .error .unterminated
  | .opens :: r => scan (depth + 1) r
  | .elif :: r | .els :: r => if depth = 0 then .error .unmatchedElse else scan depth r
  | .endif :: r => match depth with
    | 0 => .error .unmatchedEndif
    | d + 1 => scan d r
  | .other :: r => scan depth r

/-- the full C grammar also forbids a second `#else` and an `#elif` after `#else` in one if-section;
    the stack records, per open if-section, whether its `#else` was seen -/
def scanStrict (st : List Bool) : List Shape → Bool
  | [] => st.isEmpty
  | .opens :: r => scanStrict (false :: st) r
  | .elif :: r => match st with
    | false :: _ => scanStrict st r
    | _ => false
  | .els :: r => match st with
    | false :: st' => scanStrict (true :: st') r
    | _ => false
  | .endif :: r => match st with
    | _ :: st' => scanStrict st' r
    | [] => false
  | .other :: r => scanStrict st r

/-- the full C grammar of if-sections as a scan that names the first violation: unmatched `#elif/#else/#endif`,
    `#else`/`#elif` after the `#else` of the same if-section, unterminated if-section.  The stack records, per
    open if-section (innermost first), whether its `#else` was seen. -/
def scanC (st : List Bool) : List Shape → Except ShapeErr Unit
  | [] => if st.isEmpty then .ok () else .error .unterminated
  | .opens :: r => scanC (false :: st) r
  | .elif :: r => match st with
    | [] => .error .unmatchedElse
    | true :: _ => .error .elifAfterElse
    | false :: _ => scanC st r
  | .els :: r => match st with
    | [] => .error .unmatchedElse
    | true :: _ => .error .elseAfterElse
    | false :: st' => scanC (true :: st') r
  | .endif :: r => match st with
    | [] => .error .unmatchedEndif
    | _ :: st' => scanC st' r
  | .other :: r => scanC st r

end RsslVerif.Spec.CPre

"""C16 — overload resolution is order-independent and prefers exact matches."""
import itertools

T = "RsslVerif.Thm.C16."


def nontrivial(req, obs):
    f = req.split("\t")
    if f[0] == "C16.conv":
        return True
    if f[0] == "C16.seq":
        # at least two declarations and two call sites that show a verdict
        items = f[1].split("|") if len(f) > 1 else []
        return (sum(1 for i in items if i.startswith("d~")) >= 2
                and sum(1 for o in obs.split(" | ") if o not in ("=", "noname", "-")) >= 2)
    # at least two candidates of which the verdict is not simply "nothing viable": count distinct decisions
    return len(f) in (3, 4) and f[1].count(";") >= 1 and obs != "-"


def _split_cand(c):
    """'<id>:<nd>:<params>[:t<kinds>]' -> (id, nd, [params], suffix)"""
    parts = c.split(":")
    ps = parts[2].split(",") if parts[2] else []
    return parts[0], int(parts[1]), ps, (":" + parts[3] if len(parts) > 3 else "")


def _join_cand(cid, nd, ps, suffix):
    return "%s:%d:%s%s" % (cid, min(nd, len(ps)), ",".join(ps), suffix)


def finding_key(req, obs, detail):
    import re
    m = re.match(r"FAIL:panic ([^:]+):\d+: (.*)$", detail or "")
    if m:
        path = m.group(1)
        for crate in ("typer/src/", "ir/src/", "parser/src/", "preprocess/src/"):
            if crate in path:       # a scratch copy of the repository (VERIF_REPO) has another absolute prefix
                path = path[path.index(crate):]
                break
        msg = re.sub(r"\d+", "N", m.group(2))
        if path.endswith("ir/src/ir_types.rs") and re.search(r"inside (vector|matrix)$", msg):
            # TypeRegistry::register_type: one defect, the message names the offending inner layer
            msg = "<non-scalar layer> inside vector/matrix"
        return "panic %s: %s" % (path, msg)
    if (detail or "").startswith("FAIL:redeclared-defaults:"):
        # one defect (check_existing_functions hands back the first declaration's id and parse_function drops the later
        # signature with its non_default_params); the oracle gives this detail only when the verdict is exactly the one
        # of the first declaration's default arguments and passes every other judgement under that reading
        return "redeclared default arguments: only the first declaration's default values count"
    if (detail or "").startswith("FAIL:redeclared-template:"):
        # one defect (two declarations of one function template whose parameter types mention a template parameter have
        # different param_types - each registers its own TypeId for T - and are not combined); the oracle gives this
        # detail only for an ambiguity that names a redeclared template twice and is right once it is named once
        return "redeclared function template: every declaration is an overload of its own"
    f = req.split("\t")
    if f[0] == "C16.resolve" and len(f) in (3, 4):
        # the finding is about the candidate *set* and the arguments, not about one declaration order
        return "\t".join(["C16.resolve", ";".join(sorted(f[1].split(";"))), f[2]] + f[3:])
    return req


def _shrink_seq(f):
    """drop one item of a sequence (a declaration together with its definition and never a compiler-provided one; a helper
    together with its triggers), then drop one parameter / argument position everywhere"""
    items = f[1].split("|")
    tail = f[2:]

    def line(its):
        return "\t".join([f[0], "|".join(its)] + tail)

    for i, it in enumerate(items):
        p = it.split("~")
        if p[0] == "d":
            cid = p[2].split(":")[0]
            if int(cid) >= 1000:
                continue
            yield line([x for k, x in enumerate(items) if k != i and x != "r~" + cid])
        elif p[0] == "h":
            yield line([x for k, x in enumerate(items) if k != i and not x.startswith("t~%s~" % p[1])])
        else:
            yield line(items[:i] + items[i + 1:])
    # one argument position less everywhere
    arities = set()
    for it in items:
        p = it.split("~")
        if p[0] == "c":
            arities.add(len(p[2].split(",")) if p[2] else 0)
        elif p[0] == "h":
            arities.add(len(p[3].split(",")) if p[3] else 0)
    if len(arities) == 1 and min(arities) > 1 and not any(it.startswith("d~") and int(it.split("~")[2].split(":")[0]) >= 1000
                                                            for it in items):
        n = min(arities)
        for k in range(n):
            new, ok = [], True
            for it in items:
                p = it.split("~")
                if p[0] == "d":
                    cid, nd, ps, suf = _split_cand(p[2])
                    if k >= len(ps):
                        ok = False
                        break
                    new.append("~".join([p[0], p[1], _join_cand(cid, nd, ps[:k] + ps[k + 1:], suf)]))
                elif p[0] == "c":
                    a = p[2].split(",")
                    new.append("~".join([p[0], p[1], ",".join(a[:k] + a[k + 1:]), p[3]]))
                elif p[0] == "h":
                    a = p[3].split(",")
                    new.append("~".join([p[0], p[1], p[2], ",".join(a[:k] + a[k + 1:])]))
                else:
                    new.append(it)
            if ok:
                yield line(new)


def shrink(req):
    f = req.split("\t")
    if f[0] == "C16.seq" and len(f) in (2, 3):
        yield from _shrink_seq(f)
        return
    if f[0] != "C16.resolve" or len(f) not in (3, 4):
        return
    opts = [o for o in (f[3].split(",") if len(f) == 4 and f[3] else [])]

    def line(cands, args, o):
        return "\t".join([f[0], ";".join(cands), ",".join(args)] + ([",".join(o)] if o else []))

    cands = f[1].split(";") if f[1] else []
    args = f[2].split(",") if f[2] else []
    # drop one option (declared-then-defined, the call path, the explicit template arguments); the compiler's own
    # overloads (ids >= 1000) only make sense on their path
    builtin = any(int(_split_cand(c)[0]) >= 1000 for c in cands)
    for i, o in enumerate(opts):
        if o.startswith("P=") and builtin:
            continue
        yield line(cands, args, opts[:i] + opts[i + 1:])
    # drop one (user) candidate
    if len(cands) > 1:
        for i in range(len(cands)):
            if int(_split_cand(cands[i])[0]) < 1000:
                yield line(cands[:i] + cands[i + 1:], args, opts)
    # drop one parameter / argument position everywhere
    if len(args) > 1 and not builtin:
        for k in range(len(args)):
            new = []
            ok = True
            for c in cands:
                cid, nd, ps, suf = _split_cand(c)
                if k >= len(ps):
                    ok = False
                    break
                new.append(_join_cand(cid, nd, ps[:k] + ps[k + 1:], suf))
            if ok and len(set((tuple(_split_cand(c)[2]), _split_cand(c)[3]) for c in new)) == len(new):
                yield line(new, args[:k] + args[k + 1:], opts)
    # drop trailing defaulted parameters
    new = []
    changed = False
    for c in cands:
        cid, nd, ps, suf = _split_cand(c)
        if len(ps) > len(args) and int(cid) < 1000:
            ps = ps[:len(args)]
            changed = True
        new.append(_join_cand(cid, nd, ps, suf))
    if changed and len(set((tuple(_split_cand(c)[2]), _split_cand(c)[3]) for c in new)) == len(new):
        yield line(new, args, opts)


def search(ctx):
    """model-side witness search.  Small candidate sets over the grid are run through `rsslmodel` (which uses the
    tables just re-extracted from the source); sets on which the *model* already violates the decidable form of the
    property - different verdicts for two declaration orders, or a type-exact candidate that is not selected - come
    first, the rest of the enumeration follows; vlib replays them on the implementation with the direct oracle."""
    scal = ["Bool", "Int32", "UInt32", "Float16", "Float32", "Float64"]
    tys = ["s." + s for s in scal] + ["v.%s.%d" % (s, n) for s in scal for n in (2, 3)]
    params = ["in/-/" + t for t in tys] + ["out/-/" + t for t in tys[:6]]
    args = ["L/-/" + t for t in tys] + ["R/-/" + t for t in tys] + ["R/-/s.IntLiteral", "R/-/s.FloatLiteral"]
    groups = []     # (set key, [requests in the different orders])
    for a, b in itertools.combinations(params, 2):
        for x in args:
            groups.append([("C16.resolve\t0:1:%s;1:1:%s\t%s" % (a, b, x)), ("C16.resolve\t1:1:%s;0:1:%s\t%s" % (b, a, x))])
    sp = ["in/-/s." + s for s in scal]
    for a, b, c in itertools.combinations(sp, 3):
        for x in args[:6] + args[-2:]:
            groups.append(["C16.resolve\t" + ";".join("%d:1:%s" % p for p in perm) + "\t" + x
                           for perm in itertools.permutations([(0, a), (1, b), (2, c)])])
    flat = [r for g in groups for r in g]
    try:
        answers = ctx.run_model(flat)
    except Exception:
        answers = [None] * len(flat)
    suspicious, rest = [], []
    i = 0
    for g in groups:
        ans = answers[i:i + len(g)]
        i += len(g)
        bad = len(set(ans)) > 1
        if not bad and ans and ans[0]:
            f = g[0].split("\t")
            arg_layer = f[2].split("/")[2]
            exact = [c.split(":")[0] for c in f[1].split(";") if c.split(":", 2)[2].split("/")[2] == arg_layer]
            if len(exact) == 1 and ans[0].startswith("sel ") and ans[0] != "sel " + exact[0]:
                bad = True
        (suspicious if bad else rest).extend(g)
    ctx.extra["search_model_suspicious"] = len(suspicious)
    # calls interleaved with declarations: declare, call, declare the other, the same call again (and once more as an
    # rvalue / lvalue twin) - the shape a verdict carried over from an earlier call shows up in
    seqs = []
    for a, b in itertools.permutations(params, 2):
        for x in args:
            twin = ("R" if x[0] == "L" else "L") + x[1:] if "Literal" not in x else x
            seqs.append("C16.seq\td~0~0:1:%s|c~0~%s~|d~0~1:1:%s|c~0~%s~|c~0~%s~" % (a, x, b, x, twin))
    step = max(1, len(seqs) // 3000)
    # a symbol of the same name that is not a function between two overloads (and before / after them): every
    # overload above the call has to be a candidate
    syms = []
    n = 0
    for a, b in itertools.permutations(params, 2):
        for x in args:
            n += 1
            k = "setb"[n % 4]
            sc = n % 2
            place = n % 3
            d = ["d~%d~0:1:%s" % (sc, a), "d~%d~1:1:%s" % (sc, b)]
            d.insert(place, "o~%d~%s" % (sc, k))
            syms.append("C16.seq\t%s|c~%d~%s~" % ("|".join(d), sc, x))
    step2 = max(1, len(syms) // 3000)
    # one function declared twice with other default arguments, next to an overload that takes the shorter list
    redecl = []
    n = 0
    for a, b in itertools.permutations(params[:len(tys)], 2):
        for x in args:
            n += 1
            first, later = ((2, 1), (1, 2), (2, 0), (0, 2))[n % 4]
            kind = "pr"[n % 2]
            redecl.append("C16.seq\td~0~0:%d:%s,%s|d~0~1:1:%s|%s~0~%d|c~0~%s~" % (first, a, b, b, kind, later, x))
            redecl.append("C16.seq\td~0~0:%d:%s,%s|%s~0~%d|c~0~%s~|c~0~%s,%s~" % (first, a, b, kind, later, x, x, x))
    step3 = max(1, len(redecl) // 2000)
    return suspicious + redecl[::step3] + syms[::step2] + seqs[::step] + rest[:6000]


SPEC = {
    "id": "C16",
    "gens": ["RankTable", "ResolveShape"],
    "lean_modules": ["RsslVerif.Thm.C16"],
    "theorems": [T + n for n in [
        # facts about the re-extracted tables
        "compare_total", "primaryRank_diag", "primaryRank_ne_exact", "order_agrees", "worstToBest_agrees",
        "needsLvalue_table",
        # the property, for all candidate lists / arities / arguments
        "resolve_perm", "resolve_perm_normalized", "selected_is_viable", "selected_not_dominated", "selected_not_dominated_componentwise",
        "finals_are_the_exact_matches", "unique_exact_selected", "twin_exact_ambiguous",
        # the conversion model and the property as worded on its own quantifier
        "find_total", "findRank_total_off_matrix", "findRank_total", "resolve_no_panic", "exact_rank_iff_same_type_on_grid",
        "exact_type_match_selected_on_grid", "exact_type_twins_ambiguous_on_grid",
        # the model with get_rank evaluated lazily, loop by loop as in the source, computes the same outcome
        "resolveLazy_eq_resolve", "resolveLazy_perm",
        # recorded readings / witnesses (decide on concrete inputs, replayed on the real code by corpus/C16.txt)
        "in_out_twin_is_ambiguous", "default_twin_is_ambiguous", "vec1_twin_is_ambiguous",
        "tournament_without_winner", "scalar_to_matrix_selected",
        # candidates of every kind (GCand: arbitrary deduction relation and arity range; TCand: the generator's templates)
        "resolveG_perm", "resolveG_perm_normalized", "resolveG_of_plain", "plain_wf", "template_wf",
        "selectedG_not_dominated", "selectedG_is_viable", "unique_exact_selectedG", "twin_exact_ambiguousG",
        "resolveGLazy_eq_resolveG", "resolveGLazy_perm", "resolveT_perm", "resolveTLazy_eq_resolveT",
        "template_twin_is_ambiguous", "template_literal_deduces_int", "template_const_vector_argument",
        "explicit_args_exclude_plain_functions", "template_vector_of_vector_not_viable",
        "template_param_matches_exactly", "templates_never_panic", "resolveT_no_panic", "unique_exact_selectedT",
        # the call after the resolution: apply_casts + check_output_arguments on the selected overload
        "output_arguments_checked", "callT_perm", "callT_accepted", "callT_refused", "out_vec1_is_refused",
        # calls interleaved with declarations: the verdict at a site is the resolution on the candidates visible there
        "site_verdict_is_resolution_of_visible", "visible_prefix_independent", "nothing_visible_is_unknown_name",
        "registry_is_transparent", "template_body_site_resolved_at_first_instantiation", "observations_are_at_places",
        # symbols of the same name that are not functions: the gathering loop of find_identifier_in_scope
        "gathering_ignores_non_function_symbols", "non_function_symbol_changes_no_candidate",
        "same_name_symbols_take_no_candidate_away", "inner_type_hides_outer_overloads",
        # a function declared more than once with other default arguments: what the code does (for all units), and the
        # witness that this is order dependent (negation of the property for the declarations of one function)
        "first_declaration_fixes_the_defaults", "redeclared_defaults_are_order_dependent",
        "redeclared_template_is_a_second_overload",
        # the source text of the transcribed routines, re-extracted each run
        "resolve_shape_as_modelled", "resolution_reads_no_call_history", "resolve_source_as_transcribed"]],
    "harness": "c16",
    "nontrivial": nontrivial,
    "finding_key": finding_key,
    "shrink": shrink,
    "search": search,
    "level_text": "Proof: the model of find_function_type (arity guard, the template half of find_overload_casts as an "
                  "arbitrary may-fail/may-panic function of the argument types, ImplicitConversion::find per argument, "
                  "numeric-rank tournament, VectorRank count vector, unique/several/none) is proved, for every candidate list "
                  "of every kind (ordinary functions, default arguments, function templates with any deduction relation), "
                  "arity and argument list, to give the same verdict under every permutation of the declaration order, to "
                  "select a unique exactly-matching candidate, to report several exactly-matching candidates as ambiguous "
                  "and never to select a dominated candidate; the loop-by-loop transcription with lazily evaluated get_rank "
                  "is proved equal to it; for declared overloads (parameters T / vector<T,n> / matrix<T,x,y>, any explicit "
                  "template arguments) no panic site is reachable, and the verdict on the whole call - resolution, then the "
                  "check that an out / inout argument is a mutable lvalue of exactly the parameter's type - is proved order "
                  "independent too. Calls interleaved with declarations: a model of the type checker's walk through a "
                  "translation unit (declarations push onto the symbol vector of their scope, reopened namespaces, a struct "
                  "registers all methods before the first body, the compiler's own overloads lead the root vector, a "
                  "definition of a declared function inserts nothing, a call in a template body is resolved when the first "
                  "call of that instance is checked) is proved to show at every call site the resolution on exactly the "
                  "candidates visible there - declared above the call in the scope the lookup reaches - so the verdict is a "
                  "function of the visible set and the argument types only (visible_prefix_independent: any two sites that "
                  "see the same candidates in any order agree), and the one piece of state the code carries from call to "
                  "call, the function registry's table of template instantiations, is threaded through a second model and "
                  "proved to change no verdict (registry_is_transparent). Symbols that are not functions but carry the name of the "
                  "overload set (struct, enum, typedef, cbuffer, namespace: legal next to functions since 31dddea): the walk's "
                  "state is the symbol vector of each scope, the gathering loop of find_identifier_in_scope is transcribed "
                  "(gatherLoop / findInScope / lookupChain) and proved to hand over exactly the functions of the vector, in "
                  "order, whatever else the vector holds and wherever it stands (gathering_ignores_non_function_symbols, "
                  "non_function_symbol_changes_no_candidate), so the site theorem holds with such declarations at every "
                  "place of the unit (same_name_symbols_take_no_candidate_away); a scope that declares a type of the name "
                  "and no function hides the outer overloads, a cbuffer or namespace of the name does not "
                  "(inner_type_hides_outer_overloads). A function declared more than once (prototype + definition, several prototypes) "
                  "with other default arguments: the walk has an item `redecl` that changes nothing - check_existing_functions hands "
                  "back the first declaration's id and parse_function drops the later signature with its non_default_params - and "
                  "first_declaration_fixes_the_defaults proves for every unit that such an item changes the verdict of no call site; "
                  "that this makes the verdict depend on the order of the declarations of one function is proved as a witness "
                  "(redeclared_defaults_are_order_dependent: the NEGATION of the property on that input class, replayed on the real "
                  "type checker, recorded as a known finding); a function template whose parameter types mention a template parameter "
                  "is not recognised as declared before: every later declaration is one more overload (`elaborate`), a call after "
                  "prototype + definition is ambiguous between the function and itself (redeclared_template_is_a_second_overload: "
                  "second witness and known finding). The rank tables and the text of the transcribed routines are re-extracted from the "
                  "source each run (a reshaped loop stops the theorems from checking), and so are every path through "
                  "`context` in the resolution routines and the field list of the typer's Context "
                  "(resolution_reads_no_call_history: a memo of resolved calls is a new field and a new path); the model is compared with the real "
                  "type checker on generated programs under every declaration order on every call path that reaches "
                  "find_function_type (free functions, methods called from outside and inside, methods of struct templates, "
                  "namespaces qualified / reopened / hiding / absolute, user overloads of intrinsics, intrinsic methods of "
                  "objects, function templates with deduced and explicit template arguments), on programs that declare the "
                  "overloads one by one and call the name after each declaration (C16.seq) and with "
                  "ImplicitConversion::find/get_rank/get_target_type on an exhaustive table of type pairs.",
    "rule": "C16.resolve requests = (candidate list in declaration order, argument types, options) compiled as an RSSL program "
            "whose overloads return distinct structs and whose call is wrapped in assert_type<R>(f(args)); the verdict is read "
            "from the type checker's structured result (Call node of the accepted module / AssertTypeFailed / "
            "FunctionArgumentTypeMismatch ids + ambiguous flag / LvalueRequired, MutableRequired = an overload was selected "
            "and an out / inout argument refused afterwards), for a selected template also the template arguments of the "
            "called instantiation; every permutation of every user-declared candidate set is run (sets of 1-5 overloads, 1-3 "
            "parameters over {bool,int,uint,half,float,double} x {scalar,2,3,4} x in/out/inout, some with a defaulted trailing "
            "parameter, off the grid 1-vectors, matrices, structs, enums, arrays; templates with T / vector<T,n> / "
            "matrix<T,x,y> / T[n] parameters, type and value template parameters; arguments = lvalue, rvalue, const lvalue, "
            "untyped int/float literals, written as locals, struct members, casts, globals). Oracle (independent of get_rank): "
            "same verdict under every order and every argument spelling; hidden outer overloads never selected; a candidate "
            "whose parameter types equal the argument types is selected (several: ambiguous between exactly those); the "
            "selected candidate is viable and not dominated, conversion quality taken from a hand-written copy of the priority "
            "table in casting.rs's header comment; an accepted call converts no out / inout argument, and a call is refused for "
            "an output argument only if an undominated viable candidate needs such a conversion and no candidate matches "
            "exactly. C16.seq requests = one translation unit: declarations of overloads (root scope, `namespace N` "
            "reopened per declaration, methods of one or two structs or of a struct template, user overloads behind the "
            "compiler's own overloads of an intrinsic; templates among them), definitions of functions declared before, "
            "call sites with lookup mode (f / N::f / f inside N / ::f inside N / sibling method / s.f), helper function "
            "templates and struct templates with a call in their body and the calls that instantiate them; the verdict of "
            "every call site is read from the accepted module (Call node of the calling function, for a helper the body of "
            "the instance; a second call of an instance shows `=`) or, for a refused site, from the error of the program "
            "that holds the declarations, the accepted earlier sites and this one. Oracle per site: the C16.resolve oracle on "
            "the candidates visible at the site (declared above it in the scope the lookup reaches; all methods of the "
            "struct), and equality with the verdict of a separate program that declares exactly that set and calls once. "
            "Items `o~<scope>~<s|e|t|b|n>` declare a struct / enum / typedef / cbuffer / namespace with the NAME OF THE OVERLOAD "
            "SET in the root scope or in N, at every place of the declaration sequence (before all overloads, between any two, "
            "after all; also behind the compiler's overloads of an intrinsic); the oracle's visible set is every function "
            "of the name declared above the call in the scope the lookup reaches, whatever stands in between; where the "
            "innermost scope that knows the name declares a type of it and no function, the call has to be taken for a "
            "constructor (`type`: Constructor node / ConstructorWrongArgumentCount / WrongTypeInConstructor / "
            "ExpectedExpressionReceivedType). "
            "Items `p~<id>~<nd>` / `r~<id>~<nd>` declare (prototype) / define the function <id> AGAIN with default values on the "
            "parameters from <nd> on (stream 12: prototype then definition, definition then prototype, two prototypes and a "
            "definition; defaults on the first declaration only, on a later one only, on both, on none; ordinary functions "
            "and function templates with and without a template parameter in their parameter types; next to an overload that "
            "takes the shorter argument list; root scope and reopened namespace; the same calls after every declaration; every "
            "unit also with the two declarations exchanged). Oracle: the candidate is the FUNCTION - a trailing parameter has "
            "a default value if any declaration above the call gives it one - so the verdict may not depend on which "
            "declaration stands first; a verdict that is exactly the one of the first declaration's defaults (and passes every "
            "other judgement under that reading) is reported as `redeclared-defaults`, an ambiguity that names a redeclared "
            "template twice and is right once it is named once as `redeclared-template` (the two known findings); a unit that "
            "defines no function twice and whose declarations alone are refused as a redefinition is a FAIL. "
            "C16.conv requests = one row of the exhaustive find/get_rank/"
            "get_target_type table over 8 scalar kinds x {scalar, vec1-4, 2 matrices} + enums + structs x "
            "{none,const,volatile} x {lvalue,rvalue}. non-trivial = at least two candidates / a table row.",
    "trusted_base": [
        "Lean 4.33 kernel; axioms propext / Classical.choice / Quot.sound only (audited by #print axioms)",
        "tools/gens/c16.py — RankTable (ScalarType, NumericDimension, InputModifier->ValueType, NumericRank + order + "
        "compare, VectorRank + worst_to_best, the (source_scalar,dest_scalar) rank match, get_rank's DimensionCast match) and "
        "ResolveShape (37 regular-expression facts about find_function_type / find_overload_casts / apply_templates / "
        "build_function_template_signature / build_intrinsic_template / write_function / write_method / "
        "ImplicitConversion::apply / Expression::get_type / find_identifier / find_identifier_in_scope / "
        "insert_function_in_scope / get_struct_member_expression / parse_function / parse_struct_internal / "
        "build_function_template_body / ensure_struct_template / FunctionRegistry::find_instantiation, the callers of "
        "find_function_type, every `context...` path in the four resolution routines, every `self...` path in the two "
        "signature-instantiation routines, the fields of struct Context, and the comment- and "
        "whitespace-free text of find_function_type, find_overload_casts, try_infer_template_type, "
        "normalize_template_type, apply_template_type_substitution, check_output_arguments, check_mutable_place, "
        "find_identifier_in_scope; of the latter's gathering loop: no break / continue / guarded or catch-all arm, a function "
        "is pushed, Type / ConstantBuffer / Namespace / EnumScope have empty arms, the overloads are handed over right after "
        "the loop) — re-run "
        "on /repo's working tree every time",
        "hand-written Model/Conv.lean (dimension/primary/modifier cast logic of find), Model/Overload.lean and "
        "Model/OverloadT.lean (find_function_type, the template half of find_overload_casts and the output-argument check "
        "that follows the resolution: `callT` = `resolveTLazy`, the loop-by-loop transcription, then `checkOutputs`, answers "
        "the correspondence requests; `resolveT`/`resolveG` is the form the theorems use, proved equal); Model/OverloadSrc.lean holds the source text they were transcribed from "
        "(resolve_source_as_transcribed) — their *meaning* is tied to the code by the correspondence run only; "
        "Model/OverloadSeq.lean (the walk through a translation unit: which vector find_identifier hands over at a call "
        "site, when a template body is checked, the instantiation registry) and Spec/OverloadSeq.lean (`visibleAt`: our "
        "reading of 'the set of visible candidates' for a call that stands between declarations) are hand-written; the "
        "statements of the code the walk relies on are 8 of the ResolveShape facts, its behaviour is compared on the "
        "C16.seq stream",
        "Spec/Overload.lean: our reading of better/worse conversions, domination and exact match; harness/src/c16.rs: the "
        "oracle's hand-written conversion-quality table, its reading of template argument deduction, and "
        "ImplicitConversion::find(..).is_ok() as the definition of 'viable', its reading of 'an out or inout argument can "
        "not be the result of a conversion' (the argument's type is the parameter's type)",
    ],
    "assumptions": [
        "TypeId equality is structural equality of types (the type registry hash-conses layers)",
        "exactly matching = every passed argument has the type of its parameter, ignoring value category, const and "
        "trailing defaulted parameters; two such candidates (f(int)/f(out int), f(int)/f(int, int = 0), "
        "template<T> f(T)/f(int)) are ambiguous; judged wherever no 1-vector is involved (int -> int1 is ranked exact); a "
        "candidate that meets a 1-vector (outside the property's quantifier) takes no part in the oracle's domination "
        "judgement either (int1 -> half1 is ranked Conversion/Expand by the code: notes/C16.md reading 14)",
        "FunctionIds of the candidates are pairwise distinct; an instantiated signature has as many parameters as the "
        "template (WF, proved for the modelled templates)",
        "which overload list reaches find_function_type (innermost scope that knows the name; all methods of the struct; all "
        "functions of the object; intrinsics + user functions of that name in the root scope) is fingerprinted "
        "(resolve_shape_as_modelled) and exercised by the call-path streams; modelled in Lean for one name in the root "
        "scope + one namespace / two structs (Model/OverloadSeq.lean: scope chain and the gathering loop of "
        "find_identifier_in_scope), the nested-namespace, object-method and struct-member routes are not",
        "template parameters appear in parameter types only as T, vector<T,n>, matrix<T,x,y>, T[n]; the compiler's own "
        "templates (Load<T>, Store(uint,T), DispatchMesh) mention their type parameter in a parameter or the return type "
        "(a constant given for it then fails the substitution, as the kind check does for user templates)",
        "symbols of the same name: only the kinds find_identifier_in_scope's debug_assert allows next to a function (Type, "
        "ConstantBuffer, Namespace, EnumScope) are modelled - a global, cbuffer member, enum value or constant of the "
        "name refuses / is refused by a function of the name at its declaration (checked by the real compiler when the "
        "declarations are compiled: such a unit is skipped); whether a call that became a constructor expression is "
        "accepted is not modelled (a helper template whose body call is taken for a type answers `unsupported`); structs "
        "declare no such symbols (method paths unchanged)",
        "calls interleaved with declarations: overloads of ONE name in at most two scopes (root + one namespace, or two "
        "structs); a call site is a function body of its own (a refused site ends a real compilation, so the verdicts "
        "of a unit are read one site at a time on top of the accepted earlier ones); a call in a template body is "
        "observed for function templates and struct templates with one type parameter instantiated with int / float; a "
        "call refused inside a struct template's method body shows no reason (`rej`: the type checker reports the use of "
        "the template instead); three-level scope chains (N::K) and forward-declared callers are covered by the "
        "one-call paths / by experiment only",
        "a function declared more than once: modelled for ordinary free functions and function templates in the root scope / "
        "one namespace (C16.seq items p~ / r~<id>~<nd>); that a later declaration of a template is a further overload exactly "
        "when its parameter types mention a template parameter is `Model.Overload.elaborate`, a hand-written reading tied to the "
        "code by the correspondence run and the witness theorem only (check_existing_functions' comparison of param_types and "
        "check_similar_template_params are not fingerprinted); methods cannot be redeclared (a prototype and a definition of one "
        "method in a struct body is a redefinition error) and out-of-line definitions `R N::f(..)` / `R S::f(..)` do not parse; "
        "the intrinsic path with redeclared user overloads is accepted by the protocol but not generated",
        "default values on template-typed parameters (`T b = (T)0`, `vector<T,n> b = ..`) are generated since wave 13; the model's "
        "arity guard is independent of the parameter types, no new model code was needed",
        "check_output_arguments beyond the type of the (converted) argument - the walk of check_mutable_place through "
        "member / swizzle / subscript expressions to the variable - depends on the argument expression, not on its type: "
        "not modelled (C03 owns it); the generated programs pass locals, members of a non-const local struct, static "
        "globals, and the verdict is compared across these spellings",
    ],
}

import RsslVerif.Spec.Layout
/-! Helper lemmas for C19 (core Lean only). -/
namespace RsslVerif.Lemmas.Layout
open RsslVerif.Gen.LayoutTables RsslVerif.Model.Layout RsslVerif.Spec.Layout

end RsslVerif.Lemmas.Layout

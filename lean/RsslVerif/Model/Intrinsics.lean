import RsslVerif.Model.IrTypingX
import RsslVerif.Gen.IntrinsicSigs
/-!
# The intrinsic functions as entries of the function registry (ir/src/intrinsic_data.rs `add_intrinsics`)

`Module::create` registers one function per entry of `INTRINSICS` and per multi type before anything else, so
`FunctionId(k)` for `k < Gen.IntrinsicSigs.count` is the k-th signature of the generated table.  They are found by name
like user functions and go through the same overload resolution (`find_function_type`); no intrinsic has default
parameters (`non_default_params = param_types.len()`).

Names: user functions of the correspondence programs are called `f<k>` and have name id `k`; the intrinsic called
`Gen.IntrinsicSigs.names[n]` has name id `intrinsicBase + n`.
-/
namespace RsslVerif.Model.Intrinsics
open RsslVerif.Gen.RankTable RsslVerif.Gen.IntrinsicSigs RsslVerif.Model.Conv RsslVerif.Model.Overload
open RsslVerif.Model.IrTyping (FuncSig)

def intrinsicBase : Nat := 100000

/-- `get_type_id`; `void` and the template argument are opaque layers: `voidId` and `voidId + 1` -/
def toTy (voidId : Nat) : IType → Ty
  | .void => ⟨{}, .other voidId⟩
  | .num s d => ⟨{}, Layer.ofDim s d⟩
  | .template => ⟨{}, .other (voidId + 1)⟩

def toFuncSig (voidId : Nat) (s : ISig) : FuncSig :=
  { name := intrinsicBase + s.name,
    params := s.params.map fun p => ⟨toTy voidId p.ty, p.io⟩,
    nonDefault := s.params.length,
    ret := toTy voidId s.ret }

/-- the function registry right after `Module::create` -/
def intrinsicFuncs (voidId : Nat) : List FuncSig := sigs.map (toFuncSig voidId)

def isTemplate (s : ISig) : Bool := s.ret == .template || s.params.any (fun p => p.ty == .template)

/-- names with a template overload (their `find_overload_casts` infers template arguments: outside the model) -/
def templateNames : List Nat := (sigs.filter isTemplate).map fun s => intrinsicBase + s.name

/-- name id of the intrinsic function called `n` -/
def nameId? (n : String) : Option Nat :=
  match names.idxOf? n with
  | some i => some (intrinsicBase + i)
  | none => none

end RsslVerif.Model.Intrinsics

import RsslVerif.Model.IrTyping
/-!
# Model of expression elaboration (typer/src/typer/expressions.rs, statements.rs, casting.rs `apply`)

Source language (`SExpr`): literals, variables, the unary operators, the binary operators (arithmetic /
comparison / bit / logical family, the assignment family, `,`), `?:`, calls of user functions by name
(overload set = the functions of that name, in declaration order), C-style casts.  Statements (`SStmt`):
expression statement, `return`, a local definition with an initialiser.

Every function follows the Rust code in source order: the order of the checks decides *which* diagnostic is
produced, and `check C03` compares it with the real type checker.  Results:

* `.ok` — the typed expression and the `ExpressionType` the type checker computed for it;
* `.error (.reject kind)` — `Err(TyperError::<kind>(..))`;
* `.error (.panic site)` — a Rust panic (an `assert!`, an `unwrap()` on `Err`, an index out of range);
* `.error (.unsupported what)` — the input leaves the modelled subset (enums inside operators).

Structure: the helpers `elabUn`, `elabArith` (`arithTarget`, `arithBuild`), `elabAssign`, `elabTern` (`ternTargets`,
`ternBuild`), `elabCall` (`castArgs`) mirror the body of the corresponding Rust function *after* its operands
have been elaborated and return the node they build together with the `ExpressionType` the Rust code returns for
it; `elabE` (= `parse_expr_internal`) elaborates the operands in source order, calls the helper and runs the
debug-build type query on the new node (`selfCheck`).

`dbg` is `cfg(debug_assertions)`: in debug builds `parse_expr_internal` re-derives the type of **every** node it
builds with `Expression::get_type` and asserts it equals the computed one (`selfCheck`); in release builds only
`parse_expr` (one per statement / initialiser / return) does.  The harness is a debug build, so the
correspondence runs `dbg = true`; `Thm.C03.elab_debug_check_redundant` proves the two modes coincide on the current code.
-/
namespace RsslVerif.Model.Elab
open RsslVerif.Gen.RankTable RsslVerif.Gen.TypingTables RsslVerif.Model.Conv RsslVerif.Model.Overload
open RsslVerif.Model.IrTyping

mutual
/-- fragment of `ast::Expression` -/
inductive SExpr where
  | lit (k : Scalar)
  | var (i : Nat)
  | un (o : UnOp) (e : SExpr)
  | bin (o : BinOp) (a b : SExpr)
  | tern (c a b : SExpr)
  /-- call of the overload set named `name` -/
  | call (name : Nat) (args : SArgs)
  | cast (t : Ty) (e : SExpr)
  deriving Repr, Inhabited
inductive SArgs where
  | nil
  | cons (e : SExpr) (r : SArgs)
  deriving Repr, Inhabited
end

def SArgs.ofList : List SExpr → SArgs
  | [] => .nil
  | e :: r => .cons e (SArgs.ofList r)

def SArgs.length : SArgs → Nat
  | .nil => 0
  | .cons _ r => r.length + 1

inductive Err where
  | reject (kind : String)
  | panic (site : String)
  | unsupported (what : String)
  deriving DecidableEq, Repr

abbrev Res := Except Err (IExpr × ETy)

/-- `ImplicitConversion::apply`: no node when only the value category changes, a re-tagged literal for untyped
    literals converted to a scalar type (table from casting.rs), otherwise `Cast(target_type.0, expr)` -/
def applyConv (c : Conversion) (e : IExpr) : Except Err IExpr :=
  if c.dimCast = none ∧ c.primary = none ∧ c.modCast = none then .ok e else
  match targetType c with
  | .error s => .error (.panic s)
  | .ok t =>
    -- the literal re-tagging shortcut is only taken for unmodified targets (`target_is_unmodified`, fix 660cfa4)
    if retagRequiresUnmodified && decide (t.ty.mod ≠ {}) then .ok (.cast t.ty e) else
    match e, t.ty.layer with
    | .lit .intLiteral, .scalar k =>
      match retagInt k with
      | some k' => .ok (.lit k')
      | none => .ok (.cast t.ty e)
    | .lit .floatLiteral, .scalar k =>
      match retagFloat k with
      | some k' => .ok (.lit k')
      | none => .ok (.cast t.ty e)
    | _, _ => .ok (.cast t.ty e)

/-- `find` followed by `apply` and `get_target_type`; `.ok none` = no implicit conversion -/
def convert (e : IExpr) (s d : ETy) : Except Err (Option (IExpr × ETy)) :=
  match find s d with
  | .error m => .error (.panic m)
  | .ok none => .ok none
  | .ok (some c) =>
    match applyConv c e with
    | .error m => .error m
    | .ok e' =>
      match targetType c with
      | .error m => .error (.panic m)
      | .ok t => .ok (some (e', t))

/-- the `#[cfg(debug_assertions)]` block of `parse_expr_internal` (and, with `dbg = true` forced, the
    unconditional block of `parse_expr`): `get_type` must succeed and agree with the computed type -/
def selfCheck (dbg : Bool) (Γ : Env) (e : IExpr) (τ : ETy) : Res :=
  if dbg then
    match typeOf Γ e with
    | .error s => .error (.panic s)
    | .ok τ' => if τ' = τ then .ok (e, τ) else .error (.panic "expressions.rs: queried type != computed type")
  else .ok (e, τ)

def boolR : ETy := (scalarTy .bool).r
def intR : ETy := (scalarTy .int32).r

/-- kinds for which `evaluate_constexpr(Minus, [literal])` succeeds (evaluator.rs), so `-literal` is folded -/
def minusFolds : Scalar → Bool
  | .int32 | .intLiteral | .float16 | .floatLiteral | .float32 | .float64 => true
  | _ => false

/-- `check_mutable_place` (fix 4575004) on the old fragment of `ir::Expression`: the type the IR gives the written expression
    (`get_type`, not the type the elaboration computed) must be an lvalue and must not be const (`TypeRegistry::is_const`; the
    old fragment has no array types).  None of the nodes of the old fragment is a projection, so the loop ends after one
    step (`_ => return Ok(())`); `Model.ElabX.checkMutablePlace` is the loop over the extended fragment. -/
def checkMutablePlace (Γ : Env) (e : IExpr) : Except Err Unit :=
  match typeOf Γ e with
  | .error _ => .error (.reject "InternalError")
  | .ok τ =>
    if τ.vt ≠ .lvalue then .error (.reject "LvalueRequired")
    else if τ.ty.mod.isConst then .error (.reject "MutableRequired")
    else .ok ()

/-- `matches!(param_type.input_modifier, InputModifier::Out | InputModifier::InOut)` of `check_output_arguments` -/
def isOutputParam : InputModifier → Bool
  | .out => true
  | .inOut => true
  | _ => false

/-- `check_output_arguments` (fixes b359800, 3758fdd): the arguments given for `out` / `inout` parameters — **after**
    `apply_casts` — must name mutable objects; `zip` stops at the shorter list (default arguments) -/
def checkOutArgs (Γ : Env) : List Param → IArgs → Except Err Unit
  | p :: ps, .cons e r =>
    if isOutputParam p.io then
      match checkMutablePlace Γ e with
      | .error m => .error m
      | .ok _ => checkOutArgs Γ ps r
    else checkOutArgs Γ ps r
  | _, _ => .ok ()

/-- `enforce_increment_type` -/
def enforceIncrement (τ : ETy) : Except Err Unit :=
  if τ.vt = .rvalue then .error (.reject "UnaryOperationWrongTypes")
  else if τ.ty.mod.isConst then .error (.reject "UnaryOperationWrongTypes")
  else
    -- `is_incrementable` (fix 606facd): numeric non-bool types and enums
    match τ.ty.layer with
    | .other _ => .error (.reject "UnaryOperationWrongTypes")
    | .enum _ => .ok ()
    | l => if l.extractScalar = some .bool then .error (.reject "UnaryOperationWrongTypes") else .ok ()

/-- the cast of the operand of `! ~` to the operator's input type: `find(..)` then `apply`.  `~` still unwraps the
    result (`onFail = panic`; it only ever asks for `bool → int`), `!` reports `UnaryOperationWrongTypes` when the
    operand does not convert to `bool` (fix bf0e893) -/
def castOperand (onFail : Err) (e : IExpr) (τ inp : ETy) : Except Err IExpr :=
  if τ = inp then .ok e else
  match find τ inp with
  | .error m => .error (.panic m)
  | .ok none => .error onFail
  | .ok (some c) => applyConv c e

def unwrapPanic : Err := .panic "expressions.rs: called `Result::unwrap()` on an `Err` value"

/-- `parse_expr_unaryop` after the operand has been elaborated -/
def elabUn (Γ : Env) (o : UnOp) (e : IExpr) (τ : ETy) : Res :=
  let unmodR : ETy := τ.ty.unmod.r
  match o with
  | .prefixIncrement =>
    match enforceIncrement τ with
    | .error m => .error m
    | .ok _ =>
      match checkMutablePlace Γ e with
      | .error m => .error m
      | .ok _ => .ok ((.op .prefixIncrement (.cons e .nil)), τ)
  | .prefixDecrement =>
    match enforceIncrement τ with
    | .error m => .error m
    | .ok _ =>
      match checkMutablePlace Γ e with
      | .error m => .error m
      | .ok _ => .ok ((.op .prefixDecrement (.cons e .nil)), τ)
  | .postfixIncrement =>
    match enforceIncrement τ with
    | .error m => .error m
    | .ok _ =>
      match checkMutablePlace Γ e with
      | .error m => .error m
      | .ok _ => .ok ((.op .postfixIncrement (.cons e .nil)), unmodR)
  | .postfixDecrement =>
    match enforceIncrement τ with
    | .error m => .error m
    | .ok _ =>
      match checkMutablePlace Γ e with
      | .error m => .error m
      | .ok _ => .ok ((.op .postfixDecrement (.cons e .nil)), unmodR)
  | .plus =>
    match τ.ty.layer with
    | .enum _ => .error (.unsupported "enum operand")
    | .other _ => .error (.reject "UnaryOperationWrongTypes")
    | _ => .ok ((.op .plus (.cons e .nil)), unmodR)
  | .minus =>
    match τ.ty.layer with
    | .enum _ => .error (.unsupported "enum operand")
    | .other _ => .error (.reject "UnaryOperationWrongTypes")
    | _ =>
      -- `is_trivial`: the operand is a literal and constant evaluation of the negation succeeds
      match e with
      | .lit k => if minusFolds k then .ok ((.lit k), unmodR)
                  else .ok ((.op .minus (.cons e .nil)), unmodR)
      | _ => .ok ((.op .minus (.cons e .nil)), unmodR)
  | .logicalNot =>
    match τ.ty.layer with
    | .enum _ => .error (.unsupported "enum operand")
    | .other _ => .error (.reject "UnaryOperationWrongTypes")
    | l =>
      let (out, inp) := if l.extractScalar = some .bool then (unmodR, τ) else (boolR, boolR)
      match castOperand (.reject "UnaryOperationWrongTypes") e τ inp with
      | .error m => .error m
      | .ok e' => .ok ((.op .logicalNot (.cons e' .nil)), out)
  | .bitwiseNot =>
    match τ.ty.layer with
    | .enum _ => .error (.unsupported "enum operand")
    | .scalar .intLiteral | .scalar .int32 | .scalar .uInt32 =>
      .ok ((.op .bitwiseNot (.cons e .nil)), unmodR)
    | .scalar .bool =>
      match castOperand unwrapPanic e τ intR with
      | .error m => .error m
      | .ok e' => .ok ((.op .bitwiseNot (.cons e' .nil)), intR)
    | _ => .error (.reject "UnaryOperationWrongTypes")
  | .dereference => .error (.reject "PointersNotSupported")
  | .addressOf => .error (.reject "PointersNotSupported")

/-- `get_non_vector_conversion_rank` on a non-vector layer; `none` = `None` (not numeric).  Since fix 80dd7f9
    `most_significant_non_vector` first replaces an enum operand that meets a non-enum operand by its underlying type
    (`Gen.TypingTables.mostSigNonVectorOperands`, body pinned by the translator); the model never ranks such a pair:
    `elabArith` answers `unsupported enum operand` as soon as one operand is an enum, so `arithTarget` is only asked about
    the pass-through arm `_ => (left, right)`. -/
def nvRank : Layer → Option Nat
  | .scalar s => some (nonVectorRank s)
  | .enum _ => some enumRank
  | _ => none

/-- `is_integer_or_bool_or_enum` -/
def nvIsInteger : Layer → Bool
  | .scalar s => isIntegerScalar s
  | .enum _ => true
  | _ => false

/-- `target_nv_id` of `parse_expr_binop`: the scalar type both operands are converted to (before the dimension is
    applied).  Short-circuit operators: `bool`, vectors are refused; otherwise the more significant of the two
    non-vector types, `bool` remapped to `int`. -/
def arithTarget (o : BinOp) (la lb : Layer) : Except Err Layer :=
  if o.shortCircuit then
    if la.isVecOrMat || lb.isVecOrMat then .error (.reject "ShortCircuitingVector") else .ok (.scalar .bool)
  else
    if o.requireInteger && !nvIsInteger la.nonVector then .error (.reject "IntegerTypeExpected")
    else if o.requireInteger && !nvIsInteger lb.nonVector then .error (.reject "IntegerTypeExpected")
    else
      match nvRank la.nonVector with
      | none => .error (.reject "NumericTypeExpected")
      | some lo =>
        match nvRank lb.nonVector with
        | none => .error (.reject "NumericTypeExpected")
        | some ro =>
          let t := if lo > ro then la.nonVector else lb.nonVector
          -- `Remap all bool types to int`
          if t.extractScalar = some .bool then .ok (.scalar .int32) else .ok t

/-- the second `target_nv_id` of `parse_expr_binop` (fix 40c6233): a vector / matrix operation is never done in an untyped
    literal kind — `IntLiteral` becomes `int`, `FloatLiteral` becomes `float` (table `Gen.TypingTables.litVecRemap`) -/
def arithScalar (ts : Scalar) (dim : Dim) : Scalar := if dim ≠ .scalar then litVecRemap ts else ts

/-- the rest of the arithmetic arm once both operands are known to convert to `ety`: the two targets must agree
    (`assert_eq!`), the casts are applied, `get_return_type` gives the result type -/
def arithBuild (o : BinOp) (ca cb : Conversion) (a b : IExpr) : Res :=
  match targetType ca with
  | .error m => .error (.panic m)
  | .ok ta =>
    match targetType cb with
    | .error m => .error (.panic m)
    | .ok tb =>
      if ta ≠ tb then .error (.panic "expressions.rs: assert_eq!(lhs_cast target, rhs_cast target)") else
      match applyConv ca a with
      | .error m => .error m
      | .ok a' =>
        match applyConv cb b with
        | .error m => .error m
        | .ok b' =>
          match o.toIOp with
          | none => .error (.panic "expressions.rs: unreachable!()")
          | some i =>
            match opReturn i [ta, tb] with
            | .error m => .error (.panic m)
            | .ok out => .ok (.op i (.cons a' (.cons b' .nil)), out)

/-- the arithmetic / comparison / bit / logical arm of `parse_expr_binop` -/
def elabArith (o : BinOp) (a : IExpr) (τa : ETy) (b : IExpr) (τb : ETy) : Res :=
  match τa.ty.layer, τb.ty.layer with
  | .enum _, _ => .error (.unsupported "enum operand")
  | _, .enum _ => .error (.unsupported "enum operand")
  | la, lb =>
    match arithTarget o la lb with
    | .error m => .error m
    | .ok (.scalar ts) =>
      match selectVectorRank la lb with
      | none => .error (.reject "BinaryOperationWrongTypes")
      | some dim =>
        match find τa (Ty.mk {} (Layer.ofDim (arithScalar ts dim) dim)).r with
        | .error m => .error (.panic m)
        | .ok none => .error (.reject "BinaryOperationWrongTypes")
        | .ok (some ca) =>
          match find τb (Ty.mk {} (Layer.ofDim (arithScalar ts dim) dim)).r with
          | .error m => .error (.panic m)
          | .ok none => .error (.reject "BinaryOperationWrongTypes")
          | .ok (some cb) => arithBuild o ca cb a b
    | .ok _ => .error (.unsupported "non-scalar operator type")

/-- the assignment arm of `parse_expr_binop` -/
def elabAssign (Γ : Env) (o : BinOp) (a : IExpr) (τa : ETy) (b : IExpr) (τb : ETy) : Res :=
  if τa.ty.mod.isConst then .error (.reject "MutableRequired") else
  if τa.vt ≠ .lvalue then .error (.reject "LvalueRequired") else
  match checkMutablePlace Γ a with
  | .error m => .error m
  | .ok _ =>
  match convert b τb τa.ty.r with
  | .error m => .error m
  | .ok none => .error (.reject "BinaryOperationWrongTypes")
  | .ok (some (b', tb)) =>
    match o.toIOp with
    | none => .error (.panic "expressions.rs: unreachable!()")
    | some i =>
      match opReturn i [τa, tb] with
      | .error m => .error (.panic m)
      | .ok out => .ok ((.op i (.cons a (.cons b' .nil))), out)

/-- `most_sig_scalar` -/
def mostSigScalar (l r : Scalar) : Scalar := if mostSigOrder l > mostSigOrder r then l else r

/-- the second `st` of `parse_expr_ternary` (fix c05bffa): unless both arms are `Scalar` layers (`is_scalar_result`) an
    untyped literal kind is replaced by the concrete one (table `Gen.TypingTables.litTernRemap`) -/
def ternScalar (la lb : Layer) (s : Scalar) : Scalar :=
  match la, lb with
  | .scalar _, .scalar _ => s
  | _, _ => litTernRemap s

/-- the unmodified types both arms of `?:` are compared at (`lhs_target_tyl`, `rhs_target_tyl`) -/
def ternTargets (la lb : Layer) : Except Err (Layer × Layer) :=
  let st : Option Scalar :=
    match la.extractScalar, lb.extractScalar with
    | some l, some r => some (ternScalar la lb (mostSigScalar l r))
    | _, _ => none
  match st, mostSignificantDimension la lb with
  | some s, some d => .ok (Layer.ofDim s d, Layer.ofDim s d)
  | some s, none =>
    match la.transformScalar s, lb.transformScalar s with
    | some x, some y => .ok (x, y)
    | _, _ => .error (.panic "ir_types.rs: non-numeric type in transform_scalar")
  | none, some _ => .error (.panic "expressions.rs: most_sig_scalar failed where most_significant_dimension succeeded")
  | none, none => .ok (la, lb)

/-- the rest of `parse_expr_ternary` once both arms are known to convert to the target -/
def ternBuild (c : IExpr) (τc : ETy) (ca cb : Conversion) (a b : IExpr) : Res :=
  match applyConv ca a with
  | .error m => .error m
  | .ok a' =>
    match applyConv cb b with
    | .error m => .error m
    | .ok b' =>
      match targetType ca with
      | .error m => .error (.panic m)
      | .ok ta =>
        match targetType cb with
        | .error m => .error (.panic m)
        | .ok tb =>
          if ta ≠ tb then .error (.panic "expressions.rs: assert_eq!(left_cast target, right_cast target)") else
          if τc.ty.layer.isVecOrMat then .error (.reject "ShortCircuitingVector") else
          match convert c τc boolR with
          | .error m => .error m
          | .ok none => .error (.reject "TernaryConditionRequiresBoolean")
          | .ok (some (c', _)) => .ok (.tern c' a' b', ta)

/-- `parse_expr_ternary` after the three operands have been elaborated -/
def elabTern (c : IExpr) (τc : ETy) (a : IExpr) (τa : ETy) (b : IExpr) (τb : ETy) : Res :=
  match ternTargets τa.ty.layer τb.ty.layer with
  | .error m => .error m
  | .ok (lt, rt) =>
    if lt ≠ rt then .error (.reject "TernaryArmsMustHaveSameType") else
    -- `target_mod`: only row_major / column_major of the left arm survive
    match find τa (Ty.mk { rest := τa.ty.mod.rest &&& 3 } lt).r with
    | .error m => .error (.panic m)
    | .ok none => .error (.reject "TernaryArmsMustHaveSameType")
    | .ok (some ca) =>
      match find τb (Ty.mk { rest := τa.ty.mod.rest &&& 3 } lt).r with
      | .error m => .error (.panic m)
      | .ok none => .error (.reject "TernaryArmsMustHaveSameType")
      | .ok (some cb) => ternBuild c τc ca cb a b

/-- candidates of a call: the functions named `name`, in declaration order, with their `FunctionId` -/
def candsFrom (name : Nat) : List FuncSig → Nat → List Cand
  | [], _ => []
  | s :: r, i => if s.name = name then ⟨i, s.params, s.nonDefault⟩ :: candsFrom name r (i + 1) else candsFrom name r (i + 1)

def candidates (Γ : Env) (name : Nat) : List Cand := candsFrom name Γ.funcs 0

/-- `apply_casts` with the casts `find_overload_casts` recorded for the selected overload -/
def castArgs : List Param → IArgs → List ETy → Except Err IArgs
  | p :: ps, .cons e r, t :: ts =>
    match convert e t p.ety with
    | .error m => .error m
    | .ok none => .error (.panic "expressions.rs: selected overload has no cast for an argument")
    | .ok (some (e', _)) =>
      match castArgs ps r ts with
      | .error m => .error m
      | .ok r' => .ok (.cons e' r')
  | _, .nil, [] => .ok .nil
  | _, _, _ => .error (.panic "expressions.rs: assert_eq!(casts.len(), values.len())")

/-- `write_function` after the arguments have been elaborated -/
def elabCall (Γ : Env) (name : Nat) (args : IArgs) (ts : List ETy) : Res :=
  match resolve (candidates Γ name) ts with
  | .panic => .error (.panic "casting.rs: invalid vector cast")
  | .unmatched => .error (.reject "FunctionArgumentTypeMismatch")
  | .ambiguous _ => .error (.reject "FunctionArgumentTypeMismatch")
  | .selected id =>
    match Γ.funcs[id]? with
    | none => .error (.panic "ir_functions.rs: function id out of range")
    | some s =>
      match castArgs s.params args ts with
      | .error m => .error m
      | .ok args' =>
        match checkOutArgs Γ s.params args' with
        | .error m => .error m
        | .ok _ => .ok ((.call id args'), s.ret.r)

mutual
/-- `parse_expr_internal` -/
def elabE (dbg : Bool) (Γ : Env) : SExpr → Res
  | .lit k => selfCheck dbg Γ (.lit k) (scalarTy k).r
  | .var i =>
    match Γ.vars[i]? with
    | some t => selfCheck dbg Γ (.var i) t.l
    | none => .error (.reject "UnknownIdentifier")
  | .un o e =>
    match elabE dbg Γ e with
    | .error m => .error m
    | .ok (e', τ) => (match elabUn Γ o e' τ with
      | .error m => .error m
      | .ok (n, τ') => selfCheck dbg Γ n τ')
  | .bin o a b =>
    match elabE dbg Γ a with
    | .error m => .error m
    | .ok (a', τa) =>
      match elabE dbg Γ b with
      | .error m => .error m
      | .ok (b', τb) =>
        match o.cls with
        | .arith =>
          match elabArith o a' τa b' τb with
          | .error m => .error m
          | .ok (n, τ) => selfCheck dbg Γ n τ
        | .assign =>
          match elabAssign Γ o a' τa b' τb with
          | .error m => .error m
          | .ok (n, τ) => selfCheck dbg Γ n τ
        | .sequence => selfCheck dbg Γ (.seq a' b') τb
  | .tern c a b =>
    match elabE dbg Γ c with
    | .error m => .error m
    | .ok (c', τc) =>
      match elabE dbg Γ a with
      | .error m => .error m
      | .ok (a', τa) =>
        match elabE dbg Γ b with
        | .error m => .error m
        | .ok (b', τb) =>
          match elabTern c' τc a' τa b' τb with
          | .error m => .error m
          | .ok (n, τ) => selfCheck dbg Γ n τ
  | .call name args =>
    if (candidates Γ name).isEmpty then .error (.reject "UnknownIdentifier") else
    match elabArgs dbg Γ args with
    | .error m => .error m
    | .ok (args', ts) =>
      match elabCall Γ name args' ts with
      | .error m => .error m
      | .ok (n, τ) => selfCheck dbg Γ n τ
  | .cast t e =>
    match elabE dbg Γ e with
    | .error m => .error m
    | .ok (e', _) => selfCheck dbg Γ (.cast t e') t.r
/-- the argument loop of `parse_expr_call` -/
def elabArgs (dbg : Bool) (Γ : Env) : SArgs → Except Err (IArgs × List ETy)
  | .nil => .ok (.nil, [])
  | .cons e r =>
    match elabE dbg Γ e with
    | .error m => .error m
    | .ok (e', τ) =>
      match elabArgs dbg Γ r with
      | .error m => .error m
      | .ok (r', ts) => .ok (.cons e' r', τ :: ts)
end

/-- `parse_expr`: `parse_expr_value_only` plus the unconditional type query -/
def elabTop (dbg : Bool) (Γ : Env) (e : SExpr) : Res :=
  match elabE dbg Γ e with
  | .error m => .error m
  | .ok (e', τ) => selfCheck true Γ e' τ

inductive SStmt where
  | expr (e : SExpr)
  | ret (e : Option SExpr)
  /-- `T v = e;` -/
  | init (t : Ty) (e : SExpr)
  deriving Repr

inductive IStmt where
  | expr (e : IExpr)
  | ret (e : Option IExpr)
  | init (t : Ty) (e : IExpr)
  deriving Repr

/-- `parse_statement` (expression / return) and `parse_vardef` + `parse_initializer` (single expression) -/
def elabStmt (dbg : Bool) (Γ : Env) : SStmt → Except Err IStmt
  | .expr e =>
    match elabTop dbg Γ e with
    | .error m => .error m
    | .ok (e', _) => .ok (.expr e')
  | .ret none =>
    match Γ.ret with
    | none => .ok (.ret none)
    | some _ => .error (.reject "WrongTypeInReturnStatement")
  | .ret (some e) =>
    match elabTop dbg Γ e with
    | .error m => .error m
    | .ok (e', τ) =>
      match Γ.ret with
      | none => .error (.reject "WrongTypeInReturnStatement")
      | some rt =>
        match convert e' τ rt.r with
        | .error m => .error m
        | .ok none => .error (.reject "WrongTypeInReturnStatement")
        | .ok (some (e'', _)) => .ok (.ret (some e''))
  | .init t e =>
    match elabTop dbg Γ e with
    | .error m => .error m
    | .ok (e', τ) =>
      match convert e' τ t.unmod.r with
      | .error m => .error m
      | .ok none => .error (.reject "InitializerExpressionWrongType")
      | .ok (some (e'', _)) => .ok (.init t e'')

end RsslVerif.Model.Elab

//! C02 (part 1): implicit threading of globals through functions on Metal.
//!
//! request : C02.thread \t <globals> \t <functions> \t <entry index | ->
//!   global   `name:<E|S|G>[c][x][o]@<class>[:<init global indexes>]`            (`;` separated, declaration order)
//!   function `name:<modes i|o|b|d… or ->:<items or ->`                          (`;` separated, declaration order)
//!   item     `<position>.g<k>` (mention of global k)  |  `<position>.c<j>[/<_|g<k>>]…` (call of function j)
//!            positions: see POSITIONS below (= Model.Usage.bodyPositions) and `da` (default argument)
//!           C02.src \t <hex of RSSL source>     free-form source (oracle only; the model answers `unsupported`)
//! observe : defs:<name(params){calls}> …|close:<f>={closure of f, user symbols, sorted};…|entry:locals=…;call=…
//!           taken from the syntax tree the Metal generator hands to the formatter (verif_generate_ast) and from
//!           the public GlobalUsageAnalysis::calculate
//! oracle  : (independent of the model, on the emitted Metal syntax tree)
//!           O1 every identifier used in a function is a parameter, a local in scope or a file-scope constant;
//!              default arguments may only mention file-scope names
//!           O2 every call of an emitted function matches one of its definitions: arity (defaults only at the end),
//!              and at every parameter that carries a threaded global the argument denotes that same global
//!           O3 a function has a parameter for a threaded global iff it needs it; non-object globals are passed by
//!              reference.  Reading of "needs" (fixed with the lead after the fix batch): a function needs a global
//!              when its emitted body mentions it, when one of its *source* default-argument expressions mentions it
//!              (defaults are evaluated at the call sites on Metal, but they belong to the function), when it calls —
//!              in its body or in a default argument — a function that needs it, or when the initialiser of a global
//!              it needs mentions it / calls a function that needs it (the initial value is part of the global).
//!              The default-argument and initialiser dependencies are read off the typed IR by a walker of our own
//!              (`ir_deps`), not taken from the usage analysis under test.
mod sem;
mod text;
mod vec;

use crate::util::*;
use rssl::ast;
use std::collections::{BTreeMap, BTreeSet};

// ------------------------------------------------------------------------------------------ program description

#[derive(Clone, Debug, PartialEq)]
struct GGlobal {
    name: String,
    storage: char,
    is_const: bool,
    sampler: bool,
    object: bool,
    class: String,
    inits: Vec<usize>,
}

#[derive(Clone, Debug, PartialEq)]
enum What {
    Use(usize),
    Call(usize, Vec<Option<usize>>),
}

#[derive(Clone, Debug, PartialEq)]
struct GItem {
    pos: String,
    what: What,
}

#[derive(Clone, Debug, PartialEq)]
struct GFunc {
    name: String,
    modes: Vec<char>,
    items: Vec<GItem>,
}

#[derive(Clone, Debug, PartialEq)]
struct GProg {
    globals: Vec<GGlobal>,
    funcs: Vec<GFunc>,
    entry: Option<usize>,
}

const POSITIONS: &[&str] = &[
    "xs", "vi", "ai", "bl", "ic", "ib", "ec", "et", "ee", "fi", "fd", "fc", "fa", "fb", "wc", "wb", "db", "dc", "sx",
    "sb", "rt", "tc", "tt", "tf", "sq", "sw", "ct", "si", "ia", "cs", "op", "wr",
];

/// (class, flags, declaration template with NAME/INIT, read expression, lvalue expression)
const CLASSES: &[(&str, &str, &str, &str, Option<&str>)] = &[
    ("plain", "S", "static int NAME = INIT;", "NAME", Some("NAME")),
    ("plain", "Sc", "static const int NAME = 3;", "NAME", None),
    ("array", "G", "groupshared int NAME[4];", "NAME[0]", Some("NAME[0]")),
    ("struct", "S", "static St NAME;", "NAME.a", Some("NAME.a")),
    ("cbuffer", "E", "ConstantBuffer<CbS> NAME;", "(int)NAME.v.x", None),
    ("texture", "Eo", "Texture2D<float4> NAME;", "(int)NAME.Load(int3(0, 0, 0)).x", None),
    ("texarray", "E", "Texture2D<float4> NAME[2];", "(int)NAME[0].Load(int3(0, 0, 0)).x", None),
    ("sampler", "Exo", "SamplerState NAME = StaticSampler { Filter = MIN_MAG_MIP_LINEAR; };", "(NAME, 1)", None),
    // exported since fix batch 2 (before: panics of the Metal type generator): a constant buffer of a const type (01558a2),
    // a texture with a unorm element type (4de3e6b) — threaded exactly like their plain counterparts
    ("cbufferc", "E", "ConstantBuffer<const CbS> NAME;", "(int)NAME.v.x", None),
    ("textureu", "Eo", "Texture2D<unorm float4> NAME;", "(int)NAME.Load(int3(0, 0, 0)).x", None),
];

impl GGlobal {
    fn flags(&self) -> String {
        let mut s = String::new();
        s.push(self.storage);
        if self.is_const {
            s.push('c');
        }
        if self.sampler {
            s.push('x');
        }
        if self.object {
            s.push('o');
        }
        s
    }
    fn class_row(&self) -> Option<&'static (&'static str, &'static str, &'static str, &'static str, Option<&'static str>)> {
        let fl = self.flags();
        CLASSES.iter().find(|c| c.0 == self.class && c.1 == fl)
    }
    /// Metal cannot keep it at file scope: it has to be threaded (our reading of the property; the generator's
    /// own classification is GlobalMode, extracted into Gen.UsageTables)
    fn threaded(&self) -> bool {
        !((self.is_const && self.storage == 'S') || self.sampler)
    }
}

fn show_prog(p: &GProg) -> String {
    let gs: Vec<String> = p
        .globals
        .iter()
        .map(|g| {
            let mut s = format!("{}:{}@{}", g.name, g.flags(), g.class);
            if !g.inits.is_empty() {
                s.push(':');
                s.push_str(&g.inits.iter().map(|i| i.to_string()).collect::<Vec<_>>().join(","));
            }
            s
        })
        .collect();
    let fs: Vec<String> = p
        .funcs
        .iter()
        .map(|f| {
            let modes: String = if f.modes.is_empty() { "-".into() } else { f.modes.iter().collect() };
            let items: Vec<String> = f
                .items
                .iter()
                .map(|it| match &it.what {
                    What::Use(g) => format!("{}.g{}", it.pos, g),
                    What::Call(c, args) => {
                        let mut s = format!("{}.c{}", it.pos, c);
                        for a in args {
                            match a {
                                None => s.push_str("/_"),
                                Some(g) => s.push_str(&format!("/g{}", g)),
                            }
                        }
                        s
                    }
                })
                .collect();
            format!("{}:{}:{}", f.name, modes, if items.is_empty() { "-".into() } else { items.join(",") })
        })
        .collect();
    format!(
        "C02.thread\t{}\t{}\t{}",
        if gs.is_empty() { "-".into() } else { gs.join(";") },
        if fs.is_empty() { "-".into() } else { fs.join(";") },
        p.entry.map(|e| e.to_string()).unwrap_or("-".into())
    )
}

fn parse_prog(line: &str) -> Option<GProg> {
    let f: Vec<&str> = line.split('\t').collect();
    if f.len() != 4 || f[0] != "C02.thread" {
        return None;
    }
    let mut globals = Vec::new();
    if !f[1].is_empty() && f[1] != "-" {
        for g in f[1].split(';') {
            let parts: Vec<&str> = g.split(':').collect();
            if parts.len() < 2 || parts.len() > 3 {
                return None;
            }
            let (fl, class) = parts[1].split_once('@')?;
            let storage = fl.chars().next()?;
            if !"ESG".contains(storage) {
                return None;
            }
            let inits = if parts.len() == 3 && !parts[2].is_empty() {
                parts[2].split(',').map(|x| x.parse::<usize>().ok()).collect::<Option<Vec<_>>>()?
            } else {
                Vec::new()
            };
            globals.push(GGlobal {
                name: parts[0].to_string(),
                storage,
                is_const: fl[1..].contains('c'),
                sampler: fl[1..].contains('x'),
                object: fl[1..].contains('o'),
                class: class.to_string(),
                inits,
            });
        }
    }
    let mut funcs = Vec::new();
    if !f[2].is_empty() && f[2] != "-" {
        for fd in f[2].split(';') {
            let parts: Vec<&str> = fd.split(':').collect();
            if parts.len() != 3 {
                return None;
            }
            let modes: Vec<char> = if parts[1] == "-" { Vec::new() } else { parts[1].chars().collect() };
            if modes.iter().any(|c| !"iobd".contains(*c)) {
                return None;
            }
            let mut items = Vec::new();
            if parts[2] != "-" {
                for it in parts[2].split(',') {
                    let (pos, what) = it.split_once('.')?;
                    if pos != "da" && !POSITIONS.contains(&pos) {
                        return None;
                    }
                    let mut w = what.split('/');
                    let head = w.next()?;
                    let what = if let Some(k) = head.strip_prefix('g') {
                        if w.next().is_some() {
                            return None;
                        }
                        What::Use(k.parse().ok()?)
                    } else if let Some(k) = head.strip_prefix('c') {
                        let mut args = Vec::new();
                        for a in w {
                            if a == "_" {
                                args.push(None);
                            } else {
                                args.push(Some(a.strip_prefix('g')?.parse().ok()?));
                            }
                        }
                        What::Call(k.parse().ok()?, args)
                    } else {
                        return None;
                    };
                    items.push(GItem { pos: pos.to_string(), what });
                }
            }
            funcs.push(GFunc { name: parts[0].to_string(), modes, items });
        }
    }
    let entry = if f[3] == "-" { None } else { Some(f[3].parse().ok()?) };
    Some(GProg { globals, funcs, entry })
}

// ------------------------------------------------------------------------------------------ source rendering

/// Why a description cannot be turned into a well-typed program (generator bug or hand-written request)
fn render_src(p: &GProg) -> Result<String, String> {
    let mut s = String::from("struct CbS { float4 v; };\nstruct St { int a; int b; };\n");
    for (gi, g) in p.globals.iter().enumerate() {
        let row = g.class_row().ok_or_else(|| format!("unknown class {}@{}", g.flags(), g.class))?;
        let mut init = String::from("0");
        for i in &g.inits {
            if *i >= gi {
                return Err("initialiser mentions a later global".into());
            }
            let r = p.globals[*i].class_row().ok_or("bad class")?;
            init = format!("{} + {}", init, r.3.replace("NAME", &p.globals[*i].name));
        }
        if !g.inits.is_empty() && !row.2.contains("INIT") {
            return Err("class has no initialiser".into());
        }
        s.push_str(&row.2.replace("NAME", &g.name).replace("INIT", &init));
        s.push('\n');
    }
    for (fi, f) in p.funcs.iter().enumerate() {
        let is_entry = p.entry == Some(fi);
        let mut locals = 0usize;
        let mut body = String::new();
        let mut default_expr: Option<String> = None;
        for (k, m) in f.modes.iter().enumerate() {
            if *m == 'o' {
                body.push_str(&format!("    p_{} = 0;\n", k));
            }
        }
        for it in &f.items {
            let mut pre = String::new();
            let e = match &it.what {
                What::Use(g) => {
                    let gl = p.globals.get(*g).ok_or("bad global index")?;
                    let row = gl.class_row().ok_or("bad class")?;
                    if it.pos == "wr" {
                        let lv = row.4.ok_or("wr on a read-only class")?.replace("NAME", &gl.name);
                        format!("{} = {} + 1", lv, lv)
                    } else {
                        row.3.replace("NAME", &gl.name)
                    }
                }
                What::Call(c, args) => {
                    if *c >= fi {
                        return Err("call of a later function".into());
                    }
                    let callee = &p.funcs[*c];
                    if p.entry == Some(*c) {
                        return Err("call of the entry point".into());
                    }
                    if args.len() > callee.modes.len() {
                        return Err("too many arguments".into());
                    }
                    if callee.modes[args.len()..].iter().any(|m| *m != 'd') {
                        return Err("missing argument without default".into());
                    }
                    let mut parts = Vec::new();
                    for (k, a) in args.iter().enumerate() {
                        let out = matches!(callee.modes[k], 'o' | 'b');
                        match a {
                            None => {
                                if out {
                                    pre.push_str(&format!("    int l_{} = 0;\n", locals));
                                    parts.push(format!("l_{}", locals));
                                    locals += 1;
                                } else {
                                    parts.push("1".to_string());
                                }
                            }
                            Some(g) => {
                                let gl = p.globals.get(*g).ok_or("bad global index")?;
                                let row = gl.class_row().ok_or("bad class")?;
                                if out {
                                    parts.push(row.4.ok_or("read-only global as out argument")?.replace("NAME", &gl.name));
                                } else {
                                    parts.push(row.3.replace("NAME", &gl.name));
                                }
                            }
                        }
                    }
                    format!("{}({})", callee.name, parts.join(", "))
                }
            };
            if it.pos == "da" {
                if default_expr.is_some() || !f.modes.contains(&'d') {
                    return Err("default-argument item without a (single) defaulted parameter".into());
                }
                if !pre.is_empty() {
                    return Err("out argument inside a default argument".into());
                }
                default_expr = Some(e);
                continue;
            }
            body.push_str(&pre);
            let l = locals;
            let stmt = match it.pos.as_str() {
                "xs" | "wr" => format!("{};", e),
                "vi" => {
                    locals += 1;
                    format!("int l_{} = {};", l, e)
                }
                "ai" => {
                    locals += 1;
                    format!("int l_{}[2] = {{ {}, 1 }};", l, e)
                }
                "bl" => format!("{{ {}; }}", e),
                "ic" => format!("if ({} != 12345) {{ }}", e),
                "ib" => format!("if (true) {{ {}; }}", e),
                "ec" => format!("if ({} != 12345) {{ }} else {{ }}", e),
                "et" => format!("if (true) {{ {}; }} else {{ }}", e),
                "ee" => format!("if (true) {{ }} else {{ {}; }}", e),
                "fi" => format!("for ({}; false; ) {{ }}", e),
                "fd" => {
                    locals += 1;
                    format!("for (int l_{} = {}; false; ) {{ }}", l, e)
                }
                "fc" => format!("for (; {} == 12345; ) {{ }}", e),
                "fa" => format!("for (; false; {}) {{ }}", e),
                "fb" => format!("for (; false; ) {{ {}; }}", e),
                "wc" => format!("while ({} == 12345) {{ }}", e),
                "wb" => format!("while (false) {{ {}; }}", e),
                "db" => format!("do {{ {}; }} while (false);", e),
                "dc" => format!("do {{ }} while ({} == 12345);", e),
                "sx" => format!("switch ({}) {{ default: break; }}", e),
                "sb" => format!("switch (1) {{ case 1: {}; break; }}", e),
                "rt" => {
                    if is_entry {
                        return Err("return value in the entry point".into());
                    }
                    format!("return {};", e)
                }
                "tc" => format!("({} != 12345) ? 1 : 2;", e),
                "tt" => format!("true ? {} : 2;", e),
                "tf" => format!("true ? 1 : {};", e),
                "sq" => format!("({}, 1);", e),
                "sw" => format!("int2({}, 1).x;", e),
                "ct" => format!("int2({}, 1);", e),
                "si" => {
                    locals += 1;
                    format!("int l_{}[2]; l_{}[{}];", l, l, e)
                }
                "ia" => format!("max({}, 1);", e),
                "cs" => format!("(float){};", e),
                "op" => format!("{} + 1;", e),
                other => return Err(format!("unknown position {}", other)),
            };
            body.push_str("    ");
            body.push_str(&stmt);
            body.push('\n');
        }
        if is_entry {
            if f.modes != ['i'] {
                return Err("entry point must have exactly one in parameter".into());
            }
            s.push_str(&format!(
                "[numthreads(8, 1, 1)]\nvoid {}(uint3 p_0 : SV_DispatchThreadID) {{\n{}}}\n",
                f.name, body
            ));
        } else {
            let last_d = f.modes.iter().rposition(|m| *m == 'd');
            let mut seen_d = false;
            let mut params = Vec::new();
            for (k, m) in f.modes.iter().enumerate() {
                if seen_d && *m != 'd' {
                    return Err("parameter without default after a defaulted one".into());
                }
                params.push(match m {
                    'i' => format!("int p_{}", k),
                    'o' => format!("out int p_{}", k),
                    'b' => format!("inout int p_{}", k),
                    _ => {
                        seen_d = true;
                        let d = if Some(k) == last_d { default_expr.clone().unwrap_or("1".into()) } else { "1".into() };
                        format!("int p_{} = {}", k, d)
                    }
                });
            }
            s.push_str(&format!("int {}({}) {{\n{}    return 0;\n}}\n", f.name, params.join(", "), body));
        }
    }
    if let Some(e) = p.entry {
        let f = p.funcs.get(e).ok_or("bad entry index")?;
        s.push_str(&format!("Pipeline P {{ ComputeShader = {}; }}\n", f.name));
    }
    Ok(s)
}

// ------------------------------------------------------------------------------------------ walking the Metal syntax tree

#[derive(Clone, Debug)]
struct PInfo {
    name: String,
    by_ref: bool,
    is_tt: bool,
    has_default: bool,
    default_idents: Vec<String>,
}

#[derive(Clone, Debug)]
struct CallInfo {
    callee: String,
    /// rendered arguments
    args: Vec<String>,
    /// for each argument: the set of plain identifiers it mentions, and whether it *is* a plain identifier
    arg_idents: Vec<(Vec<String>, bool)>,
    in_default: bool,
}

#[derive(Clone, Debug, Default)]
struct DefInfo {
    name: String,
    params: Vec<PInfo>,
    calls: Vec<CallInfo>,
    /// identifiers used in the body that are not in scope (params, locals, file scope)
    unscoped: Vec<String>,
    /// identifiers mentioned anywhere in the body or default arguments (not callee names)
    mentioned: BTreeSet<String>,
    locals: Vec<String>,
    has_body: bool,
    in_helper_ns: bool,
}

fn decl_name(d: &ast::Declarator) -> (Option<String>, bool) {
    match d {
        ast::Declarator::Empty => (None, false),
        ast::Declarator::Identifier(id, _) => (id.identifiers.last().map(|l| l.node.clone()), false),
        ast::Declarator::Pointer(p) => decl_name(&p.inner),
        ast::Declarator::Reference(r) => (decl_name(&r.inner).0, true),
        ast::Declarator::Array(a) => decl_name(&a.inner),
    }
}

fn trivial(id: &ast::ScopedIdentifier) -> Option<&str> {
    id.try_trivial().map(|l| l.node.as_str())
}

fn is_true_type(id: &ast::ScopedIdentifier) -> bool {
    id.identifiers.last().map(|l| l.node == "true_type").unwrap_or(false)
}

struct Walker<'a> {
    /// names of the generated program's functions (calls to them are recorded)
    funcs: &'a BTreeSet<String>,
    globals: &'a BTreeSet<String>,
    file_scope: &'a BTreeSet<String>,
    scopes: Vec<Vec<String>>,
    cur: DefInfo,
    in_default: bool,
}

impl<'a> Walker<'a> {
    fn in_scope(&self, n: &str) -> bool {
        self.file_scope.contains(n) || self.scopes.iter().any(|s| s.iter().any(|x| x == n))
    }
    fn idents_of(&self, e: &ast::Expression, out: &mut Vec<String>) {
        match e {
            ast::Expression::Literal(_) => {}
            ast::Expression::Identifier(id) => {
                if let Some(n) = trivial(id) {
                    out.push(n.to_string());
                }
            }
            ast::Expression::UnaryOperation(_, a) => self.idents_of(&a.node, out),
            ast::Expression::BinaryOperation(_, a, b) => {
                self.idents_of(&a.node, out);
                self.idents_of(&b.node, out);
            }
            ast::Expression::TernaryConditional(a, b, c) => {
                self.idents_of(&a.node, out);
                self.idents_of(&b.node, out);
                self.idents_of(&c.node, out);
            }
            ast::Expression::ArraySubscript(a, b) => {
                self.idents_of(&a.node, out);
                self.idents_of(&b.node, out);
            }
            ast::Expression::Member(a, _) => self.idents_of(&a.node, out),
            ast::Expression::Call(f, _, args) => {
                if !matches!(f.node, ast::Expression::Identifier(_)) {
                    self.idents_of(&f.node, out);
                }
                for a in args {
                    self.idents_of(&a.node, out);
                }
            }
            ast::Expression::Cast(_, a) => self.idents_of(&a.node, out),
            ast::Expression::BracedInit(_, inits) => {
                for i in inits {
                    self.idents_of_init(i, out);
                }
            }
            ast::Expression::SizeOf(_) => {}
            ast::Expression::AmbiguousParseBranch(_) => {}
        }
    }
    fn idents_of_init(&self, i: &ast::Initializer, out: &mut Vec<String>) {
        match i {
            ast::Initializer::Expression(e) => self.idents_of(&e.node, out),
            ast::Initializer::Aggregate(v) => {
                for x in v {
                    self.idents_of_init(x, out);
                }
            }
            ast::Initializer::StaticSampler(_) => {}
        }
    }
    fn render_arg(&self, e: &ast::Expression) -> String {
        if let ast::Expression::Call(f, _, args) = e {
            if let ast::Expression::Identifier(id) = &f.node {
                if is_true_type(id) && args.is_empty() {
                    return "#tt".into();
                }
            }
        }
        if let ast::Expression::Member(obj, member) = e {
            if let ast::Expression::Identifier(id) = &obj.node {
                if let (Some(o), Some(m)) = (trivial(id), trivial(member)) {
                    if o.starts_with("set") && o[3..].chars().all(|c| c.is_ascii_digit()) && o.len() > 3 {
                        return format!("set.{}", m);
                    }
                }
            }
        }
        let mut ids = Vec::new();
        self.idents_of(e, &mut ids);
        let gs: BTreeSet<&String> = ids.iter().filter(|n| self.globals.contains(*n)).collect();
        if gs.len() == 1 {
            return (*gs.iter().next().unwrap()).clone();
        }
        if let ast::Expression::Identifier(id) = e {
            if let Some(n) = trivial(id) {
                if !(n.starts_with("l_") || n.starts_with("p_") || n.starts_with("__")) {
                    return n.to_string();
                }
            }
        }
        "_".into()
    }
    fn expr(&mut self, e: &ast::Expression) {
        match e {
            ast::Expression::Literal(_) => {}
            ast::Expression::Identifier(id) => {
                if let Some(n) = trivial(id) {
                    self.cur.mentioned.insert(n.to_string());
                    let ok = if self.in_default { self.file_scope.contains(n) } else { self.in_scope(n) };
                    if !ok {
                        self.cur.unscoped.push(if self.in_default { format!("{} (default argument)", n) } else { n.to_string() });
                    }
                }
            }
            ast::Expression::UnaryOperation(_, a) => self.expr(&a.node),
            ast::Expression::BinaryOperation(_, a, b) => {
                self.expr(&a.node);
                self.expr(&b.node);
            }
            ast::Expression::TernaryConditional(a, b, c) => {
                self.expr(&a.node);
                self.expr(&b.node);
                self.expr(&c.node);
            }
            ast::Expression::ArraySubscript(a, b) => {
                self.expr(&a.node);
                self.expr(&b.node);
            }
            ast::Expression::Member(a, _) => self.expr(&a.node),
            ast::Expression::Call(f, targs, args) => {
                let mut callee_is_name = false;
                if let ast::Expression::Identifier(id) = &f.node {
                    callee_is_name = true;
                    if let Some(n) = trivial(id) {
                        if self.funcs.contains(n) {
                            let rendered: Vec<String> = args.iter().map(|a| self.render_arg(&a.node)).collect();
                            let arg_idents = args
                                .iter()
                                .map(|a| {
                                    let mut v = Vec::new();
                                    self.idents_of(&a.node, &mut v);
                                    (v, matches!(&a.node, ast::Expression::Identifier(i) if trivial(i).is_some()))
                                })
                                .collect();
                            self.cur.calls.push(CallInfo {
                                callee: n.to_string(),
                                args: rendered,
                                arg_idents,
                                in_default: self.in_default,
                            });
                        }
                    }
                }
                if !callee_is_name {
                    self.expr(&f.node);
                }
                for t in targs {
                    if let ast::ExpressionOrType::Expression(e) = t {
                        self.expr(&e.node);
                    }
                }
                for a in args {
                    self.expr(&a.node);
                }
            }
            ast::Expression::Cast(_, a) => self.expr(&a.node),
            ast::Expression::BracedInit(_, inits) => {
                for i in inits {
                    self.init(i);
                }
            }
            ast::Expression::SizeOf(_) => {}
            ast::Expression::AmbiguousParseBranch(_) => {}
        }
    }
    fn init(&mut self, i: &ast::Initializer) {
        match i {
            ast::Initializer::Expression(e) => self.expr(&e.node),
            ast::Initializer::Aggregate(v) => {
                for x in v {
                    self.init(x);
                }
            }
            ast::Initializer::StaticSampler(_) => {}
        }
    }
    fn declarator_exprs(&mut self, d: &ast::Declarator) {
        match d {
            ast::Declarator::Array(a) => {
                if let Some(sz) = &a.array_size {
                    self.expr(&sz.node);
                }
                self.declarator_exprs(&a.inner);
            }
            ast::Declarator::Pointer(p) => self.declarator_exprs(&p.inner),
            ast::Declarator::Reference(r) => self.declarator_exprs(&r.inner),
            _ => {}
        }
    }
    fn vardef(&mut self, vd: &ast::VarDef) {
        for d in &vd.defs {
            self.declarator_exprs(&d.declarator);
            if let Some(i) = &d.init {
                self.init(i);
            }
            if let (Some(n), _) = decl_name(&d.declarator) {
                self.cur.locals.push(n.clone());
                self.scopes.last_mut().unwrap().push(n);
            }
        }
    }
    fn block(&mut self, stmts: &[ast::Statement]) {
        self.scopes.push(Vec::new());
        for s in stmts {
            self.stmt(s);
        }
        self.scopes.pop();
    }
    fn scoped(&mut self, s: &ast::Statement) {
        self.scopes.push(Vec::new());
        self.stmt(s);
        self.scopes.pop();
    }
    fn stmt(&mut self, s: &ast::Statement) {
        match &s.kind {
            ast::StatementKind::Empty => {}
            ast::StatementKind::Expression(e) => self.expr(e),
            ast::StatementKind::Var(vd) => self.vardef(vd),
            ast::StatementKind::AmbiguousDeclarationOrExpression(vd, _) => self.vardef(vd),
            ast::StatementKind::Block(b) => self.block(b),
            ast::StatementKind::If(c, t) => {
                self.expr(&c.node);
                self.scoped(t);
            }
            ast::StatementKind::IfElse(c, t, e) => {
                self.expr(&c.node);
                self.scoped(t);
                self.scoped(e);
            }
            ast::StatementKind::For(init, c, inc, body) => {
                self.scopes.push(Vec::new());
                match init {
                    ast::InitStatement::Empty => {}
                    ast::InitStatement::Expression(e) => self.expr(&e.node),
                    ast::InitStatement::Declaration(vd) => self.vardef(vd),
                }
                if let Some(c) = c {
                    self.expr(&c.node);
                }
                if let Some(i) = inc {
                    self.expr(&i.node);
                }
                self.scoped(body);
                self.scopes.pop();
            }
            ast::StatementKind::While(c, b) => {
                self.expr(&c.node);
                self.scoped(b);
            }
            ast::StatementKind::DoWhile(b, c) => {
                self.scoped(b);
                self.expr(&c.node);
            }
            ast::StatementKind::Switch(c, b) => {
                self.expr(&c.node);
                self.scoped(b);
            }
            ast::StatementKind::Break | ast::StatementKind::Continue | ast::StatementKind::Discard => {}
            ast::StatementKind::Return(e) => {
                if let Some(e) = e {
                    self.expr(&e.node);
                }
            }
            ast::StatementKind::CaseLabel(e, s) => {
                self.expr(&e.node);
                self.stmt(s);
            }
            ast::StatementKind::DefaultLabel(s) => self.stmt(s),
        }
    }
}

fn walk_function(
    fd: &ast::FunctionDefinition,
    funcs: &BTreeSet<String>,
    globals: &BTreeSet<String>,
    file_scope: &BTreeSet<String>,
    members: &[String],
    in_helper_ns: bool,
) -> DefInfo {
    let mut w = Walker { funcs, globals, file_scope, scopes: vec![members.to_vec()], cur: DefInfo::default(), in_default: false };
    w.cur.name = fd.name.node.clone();
    w.cur.has_body = fd.body.is_some();
    w.cur.in_helper_ns = in_helper_ns;
    let mut pscope = Vec::new();
    for p in &fd.params {
        let (n, by_ref) = decl_name(&p.declarator);
        let is_tt = n.is_none()
            && matches!(&p.param_type.layout, ast::TypeLayout(id, _) if is_true_type(id));
        let mut default_idents = Vec::new();
        if let Some(d) = &p.default_expr {
            w.in_default = true;
            w.expr(d);
            w.in_default = false;
            w.idents_of(d, &mut default_idents);
        }
        if let Some(n) = &n {
            pscope.push(n.clone());
        }
        w.cur.params.push(PInfo {
            name: n.unwrap_or_else(|| if is_tt { "#tt".into() } else { "#anon".into() }),
            by_ref,
            is_tt,
            has_default: p.default_expr.is_some(),
            default_idents,
        });
    }
    w.scopes.push(pscope);
    if let Some(b) = &fd.body {
        w.block(b);
    }
    w.cur
}

fn collect_defs(
    defs: &[ast::RootDefinition],
    funcs: &BTreeSet<String>,
    globals: &BTreeSet<String>,
    file_scope: &BTreeSet<String>,
    in_helper: bool,
    out: &mut Vec<DefInfo>,
) {
    for d in defs {
        match d {
            ast::RootDefinition::Function(fd) => out.push(walk_function(fd, funcs, globals, file_scope, &[], in_helper)),
            ast::RootDefinition::Namespace(n, inner) => {
                collect_defs(inner, funcs, globals, file_scope, in_helper || n.node == "helper", out)
            }
            ast::RootDefinition::Struct(sd) => {
                let mut members = Vec::new();
                for m in &sd.members {
                    match m {
                        ast::StructEntry::Variable(v) => {
                            for d in &v.defs {
                                if let (Some(n), _) = decl_name(&d.declarator) {
                                    members.push(n);
                                }
                            }
                        }
                        ast::StructEntry::Method(m) => members.push(m.name.node.clone()),
                    }
                }
                for m in &sd.members {
                    if let ast::StructEntry::Method(fd) = m {
                        out.push(walk_function(fd, funcs, globals, file_scope, &members, in_helper));
                    }
                }
            }
            _ => {}
        }
    }
}

fn file_scope_names(defs: &[ast::RootDefinition], out: &mut BTreeSet<String>) {
    for d in defs {
        match d {
            ast::RootDefinition::GlobalVariable(gv) => {
                for d in &gv.defs {
                    if let (Some(n), _) = decl_name(&d.declarator) {
                        out.insert(n);
                    }
                }
            }
            ast::RootDefinition::Enum(e) => {
                for v in &e.values {
                    out.insert(v.name.node.clone());
                }
            }
            ast::RootDefinition::Namespace(_, inner) => file_scope_names(inner, out),
            _ => {}
        }
    }
}

// ------------------------------------------------------------------------------------------ oracle

const ENTRY_NAMES: &[&str] = &["ComputeShaderEntry", "VertexShaderEntry", "PixelShaderEntry", "MeshShaderEntry", "TaskShaderEntry"];

/// `threaded`: names of globals Metal cannot keep at file scope (None: every name that some function receives as
/// a by-reference parameter or that is a local of the entry wrapper — used for free-form source)
/// Source-level dependencies that do not show in the emitted function bodies: per function the globals and
/// functions its default-argument expressions mention, per global those its initialiser mentions
#[derive(Default)]
struct SrcDeps {
    defaults: BTreeMap<String, (BTreeSet<String>, BTreeSet<String>)>,
    inits: BTreeMap<String, (BTreeSet<String>, BTreeSet<String>)>,
}

fn ir_deps_init(i: &rssl::ir::Initializer, gs: &mut Vec<rssl::ir::GlobalId>, fs: &mut Vec<rssl::ir::FunctionId>) {
    match i {
        rssl::ir::Initializer::Expression(e) => ir_deps(e, gs, fs),
        rssl::ir::Initializer::Aggregate(v) => {
            for x in v {
                ir_deps_init(x, gs, fs);
            }
        }
    }
}

/// every global and function an IR expression mentions (our own walker: independent of usage_analysis.rs)
fn ir_deps(e: &rssl::ir::Expression, gs: &mut Vec<rssl::ir::GlobalId>, fs: &mut Vec<rssl::ir::FunctionId>) {
    use rssl::ir::Expression as X;
    match e {
        X::Literal(_) | X::Variable(_) | X::MemberVariable(_, _) | X::ConstantVariable(_) | X::EnumValue(_) | X::SizeOf(_) => {}
        X::Global(id) => gs.push(*id),
        X::TernaryConditional(a, b, c) => {
            ir_deps(a, gs, fs);
            ir_deps(b, gs, fs);
            ir_deps(c, gs, fs);
        }
        X::Sequence(v) => {
            for x in v {
                ir_deps(x, gs, fs);
            }
        }
        X::Swizzle(a, _) | X::MatrixSwizzle(a, _) | X::StructMember(a, _, _) | X::ObjectMember(a, _) | X::Cast(_, a) => {
            ir_deps(a, gs, fs)
        }
        X::ArraySubscript(a, b) => {
            ir_deps(a, gs, fs);
            ir_deps(b, gs, fs);
        }
        X::Call(id, _, args) => {
            fs.push(*id);
            for x in args {
                ir_deps(x, gs, fs);
            }
        }
        X::Constructor(_, slots) => {
            for sl in slots {
                ir_deps(&sl.expr, gs, fs);
            }
        }
        X::IntrinsicOp(_, args) => {
            for x in args {
                ir_deps(x, gs, fs);
            }
        }
    }
}

fn src_deps(ir: &rssl::ir::Module) -> SrcDeps {
    let mut d = SrcDeps::default();
    let names = |gs: &[rssl::ir::GlobalId], fs: &[rssl::ir::FunctionId]| {
        let g: BTreeSet<String> = gs
            .iter()
            .filter(|g| !ir.global_registry[g.0 as usize].is_intrinsic)
            .map(|g| ir.global_registry[g.0 as usize].name.node.clone())
            .collect();
        let f: BTreeSet<String> = fs
            .iter()
            .filter(|f| ir.function_registry.get_intrinsic_data(**f).is_none())
            .map(|f| ir.function_registry.get_function_name(*f).to_string())
            .collect();
        (g, f)
    };
    for id in ir.function_registry.iter() {
        if ir.function_registry.get_intrinsic_data(id).is_some() {
            continue;
        }
        if let Some(imp) = ir.function_registry.get_function_implementation(id) {
            let (mut gs, mut fs) = (Vec::new(), Vec::new());
            for p in &imp.params {
                if let Some(e) = &p.default_expr {
                    ir_deps(e, &mut gs, &mut fs);
                }
            }
            if !gs.is_empty() || !fs.is_empty() {
                let (g, f) = names(&gs, &fs);
                let e = d.defaults.entry(ir.function_registry.get_function_name(id).to_string()).or_default();
                e.0.extend(g);
                e.1.extend(f);
            }
        }
    }
    for g in ir.global_registry.iter().filter(|g| !g.is_intrinsic) {
        if let Some(i) = &g.init {
            let (mut gs, mut fs) = (Vec::new(), Vec::new());
            ir_deps_init(i, &mut gs, &mut fs);
            if !gs.is_empty() || !fs.is_empty() {
                d.inits.insert(g.name.node.clone(), names(&gs, &fs));
            }
        }
    }
    d
}

fn oracle(defs: &[DefInfo], threaded: &BTreeSet<String>, by_value_ok: &BTreeSet<String>, deps: &SrcDeps) -> Vec<String> {
    let mut fails = Vec::new();
    let user: Vec<&DefInfo> = defs.iter().filter(|d| !d.in_helper_ns).collect();
    // O1
    for d in &user {
        for u in &d.unscoped {
            fails.push(format!("O1 {} uses {} which is not in scope", d.name, u));
        }
    }
    let mut by_name: BTreeMap<&str, Vec<&DefInfo>> = BTreeMap::new();
    for d in &user {
        by_name.entry(d.name.as_str()).or_default().push(d);
    }
    // O2
    for d in &user {
        for c in &d.calls {
            let Some(cands) = by_name.get(c.callee.as_str()) else { continue };
            let mut reasons = Vec::new();
            let mut matched = false;
            for cand in cands {
                let ps = &cand.params;
                if c.args.len() > ps.len() {
                    reasons.push(format!("{} arguments for {} parameters", c.args.len(), ps.len()));
                    continue;
                }
                if ps[c.args.len()..].iter().any(|p| !p.has_default) {
                    reasons.push(format!("{} arguments for {} parameters", c.args.len(), ps.len()));
                    continue;
                }
                let tt_ok = ps.iter().zip(&c.args).all(|(p, a)| p.is_tt == (a == "#tt"));
                if !tt_ok {
                    reasons.push("tag parameter mismatch".into());
                    continue;
                }
                let mut ok = true;
                for (k, (p, a)) in ps.iter().zip(&c.arg_idents).enumerate() {
                    if threaded.contains(&p.name) {
                        let denotes = (a.1 && a.0 == [p.name.clone()])
                            || (ENTRY_NAMES.contains(&d.name.as_str()) && c.args[k] == format!("set.{}", p.name));
                        if !denotes {
                            ok = false;
                            reasons.push(format!("parameter {} ({}) receives {}", k, p.name, c.args[k]));
                        }
                    }
                }
                if ok {
                    matched = true;
                    break;
                }
            }
            if !matched {
                fails.push(format!("O2 call {}({}) in {}: {}", c.callee, c.args.join(","), d.name, reasons.join("; ")));
            }
        }
    }
    // well-formed declarations: defaults only at the end
    for d in &user {
        let mut seen = false;
        for p in &d.params {
            if p.has_default {
                seen = true;
            } else if seen {
                fails.push(format!("O2 {}: parameter {} without default follows a defaulted parameter", d.name, p.name));
                break;
            }
        }
    }
    // O3 needs: least fixpoint over definitions by name
    let mut needs: BTreeMap<&str, BTreeSet<String>> = BTreeMap::new();
    for d in &user {
        let e = needs.entry(d.name.as_str()).or_default();
        for m in &d.mentioned {
            if threaded.contains(m) && !d.locals.contains(m) {
                e.insert(m.clone());
            }
        }
        // source default arguments belong to the function
        if let Some((gs, _)) = deps.defaults.get(&d.name) {
            for g in gs {
                if threaded.contains(g) {
                    e.insert(g.clone());
                }
            }
        }
    }
    loop {
        let mut changed = false;
        for d in &user {
            let mut callees: Vec<String> = d.calls.iter().map(|c| c.callee.clone()).collect();
            if let Some((_, fs)) = deps.defaults.get(&d.name) {
                callees.extend(fs.iter().cloned());
            }
            // initialisers of the globals the function needs
            let cur: Vec<String> = needs.get(d.name.as_str()).map(|s| s.iter().cloned().collect()).unwrap_or_default();
            let mut add: Vec<String> = Vec::new();
            for g in &cur {
                if let Some((gs, fs)) = deps.inits.get(g) {
                    add.extend(gs.iter().filter(|g| threaded.contains(*g)).cloned());
                    callees.extend(fs.iter().cloned());
                }
            }
            for c in &callees {
                if *c == d.name {
                    continue;
                }
                add.extend(needs.get(c.as_str()).map(|s| s.iter().cloned().collect::<Vec<_>>()).unwrap_or_default());
            }
            let e = needs.entry(d.name.as_str()).or_default();
            for a in add {
                if !d.locals.contains(&a) && e.insert(a) {
                    changed = true;
                }
            }
        }
        if !changed {
            break;
        }
    }
    for d in &user {
        if ENTRY_NAMES.contains(&d.name.as_str()) {
            continue;
        }
        let has: BTreeSet<String> = d.params.iter().filter(|p| threaded.contains(&p.name)).map(|p| p.name.clone()).collect();
        let want = needs.get(d.name.as_str()).cloned().unwrap_or_default();
        for m in want.difference(&has) {
            fails.push(format!("O3 {} needs {} but has no parameter for it", d.name, m));
        }
        for m in has.difference(&want) {
            fails.push(format!("O3 {} receives {} but never needs it", d.name, m));
        }
        for p in &d.params {
            if threaded.contains(&p.name) && !p.by_ref && !by_value_ok.contains(&p.name) {
                fails.push(format!("O3 {} receives {} by value", d.name, p.name));
            }
        }
    }
    fails.sort();
    fails.dedup();
    fails
}

// ------------------------------------------------------------------------------------------ running the real code

fn msl_params() -> rssl::ir::AssignBindingsParams {
    rssl::ir::AssignBindingsParams {
        require_slot_type: false,
        support_buffer_address: false,
        metal_slot_layout: true,
        static_samplers_have_slots: false,
    }
}

enum Real {
    FrontError(String),
    GenError(String),
    Panic(String),
    Ok(rssl::ir::Module, ast::Module),
}

fn run_real(src: &str) -> Real {
    let ir = match guard(|| front_end_src(src)) {
        Ok(Ok(ir)) => ir,
        Ok(Err(e)) => return Real::FrontError(format!("{}: {}", e.stage(), one_line(e.text()))),
        Err(p) => return Real::Panic(p),
    };
    let r = guard(|| {
        let selected = if let Some(p) = ir.pipelines.first() {
            let n = p.name.node.clone();
            ir.clone().select_pipeline(&n).unwrap()
        } else {
            ir.clone()
        };
        let bound = selected.assign_api_bindings(&msl_params());
        rssl_msl::verif_generate_ast(&bound).map_err(|e| match e {
            rssl_msl::ExportError::GenerateError(g) => format!("{:?}", g),
            rssl_msl::ExportError::FormatError(f) => format!("{:?}", f),
        })
    });
    match r {
        Ok(Ok(m)) => Real::Ok(ir, m),
        Ok(Err(e)) => Real::GenError(e),
        Err(p) => Real::Panic(p),
    }
}

/// `file:line: message` -> `file: message` (line numbers move with unrelated edits)
fn panic_site(p: &str) -> String {
    let mut parts = p.splitn(3, ':');
    match (parts.next(), parts.next(), parts.next()) {
        (Some(f), Some(l), Some(m)) if l.chars().all(|c| c.is_ascii_digit()) => format!("{}:{}", f, m),
        _ => p.to_string(),
    }
}

fn show_def(d: &DefInfo) -> String {
    let ps: Vec<String> = d
        .params
        .iter()
        .map(|p| format!("{}{}", if p.by_ref { "&" } else { "" }, p.name))
        .collect();
    let cs: Vec<String> = d.calls.iter().map(|c| format!("{}({})", c.callee, c.args.join(","))).collect();
    format!("{}({}){{{}}}", d.name, ps.join(","), cs.join(";"))
}

fn closure_text(ir: &rssl::ir::Module, funcs: &[String], globals: &BTreeSet<String>) -> String {
    use rssl::ir::usage_analysis::{GlobalUsageAnalysis, UsageSymbol};
    let fset: BTreeSet<&String> = funcs.iter().collect();
    let usage = GlobalUsageAnalysis::calculate(ir);
    let mut ids = BTreeMap::new();
    for id in ir.function_registry.iter() {
        if ir.function_registry.get_intrinsic_data(id).is_none() {
            ids.insert(ir.function_registry.get_function_name(id).to_string(), id);
        }
    }
    let mut parts = Vec::new();
    for f in funcs {
        let Some(id) = ids.get(f) else {
            parts.push(format!("{}=?", f));
            continue;
        };
        let mut names = Vec::new();
        for s in usage.get_usage_for_function(*id) {
            match s {
                UsageSymbol::Function(fid) => {
                    let n = ir.function_registry.get_function_name(*fid).to_string();
                    if ir.function_registry.get_intrinsic_data(*fid).is_none() && fset.contains(&n) {
                        names.push(n);
                    }
                }
                UsageSymbol::GlobalVariable(gid) => {
                    let n = ir.global_registry[gid.0 as usize].name.node.clone();
                    if globals.contains(&n) {
                        names.push(n);
                    }
                }
                UsageSymbol::ConstantBuffer(c) => names.push(format!("cb{}", c.0)),
            }
        }
        names.sort();
        parts.push(format!("{}={{{}}}", f, names.join(",")));
    }
    parts.join(";")
}

struct Outcome {
    obs: String,
    oracle: String,
}

fn analyse(
    ir: &rssl::ir::Module,
    m: &ast::Module,
    funcs: &[String],
    globals: &BTreeSet<String>,
    threaded: Option<&BTreeSet<String>>,
    by_value_ok: &BTreeSet<String>,
    entry: Option<&str>,
    hist: &mut Hist,
) -> Outcome {
    let fset: BTreeSet<String> = funcs.iter().cloned().collect();
    let mut file_scope = BTreeSet::new();
    file_scope_names(&m.root_definitions, &mut file_scope);
    let mut defs = Vec::new();
    collect_defs(&m.root_definitions, &fset, globals, &file_scope, false, &mut defs);
    // free-form source: threaded names = everything passed by reference under a non-`p_`/`__` name, plus entry locals
    let inferred: BTreeSet<String>;
    let threaded = match threaded {
        Some(t) => t,
        None => {
            let mut s = BTreeSet::new();
            for d in &defs {
                if d.in_helper_ns {
                    continue;
                }
                if ENTRY_NAMES.contains(&d.name.as_str()) {
                    for l in &d.locals {
                        s.insert(l.clone());
                    }
                }
            }
            // parameters that carry the same name in two different functions and are references
            let mut seen: BTreeMap<String, usize> = BTreeMap::new();
            for d in &defs {
                for p in &d.params {
                    if p.by_ref && !p.is_tt {
                        *seen.entry(p.name.clone()).or_insert(0) += 1;
                    }
                }
            }
            for d in &defs {
                for u in &d.unscoped {
                    s.insert(u.split(' ').next().unwrap_or("").to_string());
                }
            }
            let _ = seen;
            inferred = s;
            &inferred
        }
    };
    let fails = oracle(&defs, threaded, by_value_ok, &src_deps(ir));
    let shown: Vec<String> = defs
        .iter()
        .filter(|d| !d.in_helper_ns && d.has_body && fset.contains(&d.name))
        .map(show_def)
        .collect();
    let entry_text = match entry {
        None => "-".to_string(),
        Some(e) => {
            let w = defs.iter().find(|d| ENTRY_NAMES.contains(&d.name.as_str()));
            match w {
                None => "missing".into(),
                Some(w) => {
                    let locals: Vec<String> = w.locals.iter().filter(|l| globals.contains(*l)).cloned().collect();
                    let call = w.calls.iter().find(|c| c.callee == e);
                    format!(
                        "locals={};call={}",
                        locals.join(","),
                        call.map(|c| format!("{}({})", c.callee, c.args.join(","))).unwrap_or("?".into())
                    )
                }
            }
        }
    };
    let n_tramp = shown.iter().filter(|s| s.contains("#tt,") || s.contains("#tt)")).count() / 2;
    hist.add(&format!("trampolines={}", n_tramp.min(3)));
    let max_implicit = defs
        .iter()
        .map(|d| d.params.iter().filter(|p| threaded.contains(&p.name)).count())
        .max()
        .unwrap_or(0);
    hist.add(&format!("max_implicit_params={}", max_implicit.min(6)));
    Outcome {
        obs: format!("defs:{}|close:{}|entry:{}", shown.join(" "), closure_text(ir, funcs, globals), entry_text),
        oracle: if fails.is_empty() { "ok".into() } else { format!("FAIL:{}", fails.join(" ## ")) },
    }
}

fn run_thread(line: &str, out: &mut Out, hist: &mut Hist) {
    let Some(p) = parse_prog(line) else {
        out.case(line, "bad-request", "SKIP:unparsable request");
        return;
    };
    let src = match render_src(&p) {
        Ok(s) => s,
        Err(e) => {
            out.case(line, "unrenderable", &format!("SKIP:{}", e));
            return;
        }
    };
    for f in &p.funcs {
        for it in &f.items {
            hist.add(&format!("pos={}", it.pos));
            match &it.what {
                What::Use(g) => hist.add(&format!("use={}", p.globals.get(*g).map(|g| g.class.as_str()).unwrap_or("?"))),
                What::Call(_, a) => hist.add(&format!("call_args={}", a.len())),
            }
        }
    }
    hist.add(&format!("funcs={}", p.funcs.len()));
    hist.add(&format!("globals={}", p.globals.len()));
    hist.add(&format!("depth={}", call_depth(&p)));
    match run_real(&src) {
        Real::FrontError(e) => {
            hist.add("front-error");
            out.case(line, &format!("front-error:{}", e), "SKIP:generated program rejected by the front end");
        }
        Real::GenError(e) => {
            hist.add("generate-error");
            out.case(line, &format!("generate-error:{}", e), "ok");
        }
        Real::Panic(pn) => {
            hist.add("panic");
            out.case(line, &format!("panic:{}", panic_site(&pn)), &format!("FAIL:panic {}", pn));
        }
        Real::Ok(ir, m) => {
            let funcs: Vec<String> = p.funcs.iter().map(|f| f.name.clone()).collect();
            let globals: BTreeSet<String> = p.globals.iter().map(|g| g.name.clone()).collect();
            let threaded: BTreeSet<String> = p.globals.iter().filter(|g| g.threaded()).map(|g| g.name.clone()).collect();
            let by_value_ok: BTreeSet<String> =
                p.globals.iter().filter(|g| g.storage == 'E' && g.object).map(|g| g.name.clone()).collect();
            let entry = p.entry.and_then(|e| p.funcs.get(e)).map(|f| f.name.clone());
            let o = analyse(&ir, &m, &funcs, &globals, Some(&threaded), &by_value_ok, entry.as_deref(), hist);
            hist.add(if o.oracle == "ok" { "oracle-ok" } else { "oracle-fail" });
            out.case(line, &o.obs, &o.oracle);
        }
    }
}

fn run_src(line: &str, out: &mut Out, hist: &mut Hist) {
    let f: Vec<&str> = line.split('\t').collect();
    let Some(src) = f.get(1).and_then(|h| unhex(h)).and_then(|b| String::from_utf8(b).ok()) else {
        out.case(line, "bad-request", "SKIP:unparsable request");
        return;
    };
    match run_real(&src) {
        Real::FrontError(e) => out.case(line, &format!("front-error:{}", e), "SKIP:rejected by the front end"),
        Real::GenError(e) => out.case(line, &format!("generate-error:{}", e), "ok"),
        Real::Panic(pn) => out.case(line, &format!("panic:{}", panic_site(&pn)), &format!("FAIL:panic {}", pn)),
        Real::Ok(ir, m) => {
            // every non-intrinsic function and every global of the module
            let mut funcs = Vec::new();
            for id in ir.function_registry.iter() {
                if ir.function_registry.get_intrinsic_data(id).is_none() {
                    let n = ir.function_registry.get_function_name(id).to_string();
                    if !funcs.contains(&n) {
                        funcs.push(n);
                    }
                }
            }
            let globals: BTreeSet<String> =
                ir.global_registry.iter().filter(|g| !g.is_intrinsic).map(|g| g.name.node.clone()).collect();
            let mut threaded = BTreeSet::new();
            let mut by_value_ok = BTreeSet::new();
            for g in ir.global_registry.iter().filter(|g| !g.is_intrinsic) {
                let is_const = ir.type_registry.is_const(g.type_id);
                let constant = (is_const && g.storage_class == rssl::ir::GlobalStorage::Static) || g.static_sampler.is_some();
                if !constant {
                    threaded.insert(g.name.node.clone());
                }
                if g.storage_class == rssl::ir::GlobalStorage::Extern {
                    by_value_ok.insert(g.name.node.clone());
                }
            }
            let entry = ir
                .pipelines
                .first()
                .and_then(|p| p.stages.first())
                .map(|s| ir.function_registry.get_function_name(s.entry_point).to_string());
            let o = analyse(&ir, &m, &funcs, &globals, Some(&threaded), &by_value_ok, entry.as_deref(), hist);
            out.case(line, &o.obs, &o.oracle);
        }
    }
}

// ------------------------------------------------------------------------------------------ generator

fn call_depth(p: &GProg) -> usize {
    let mut depth = vec![0usize; p.funcs.len()];
    for (i, f) in p.funcs.iter().enumerate() {
        for it in &f.items {
            if let What::Call(c, _) = &it.what {
                if *c < i {
                    depth[i] = depth[i].max(depth[*c] + 1);
                }
            }
        }
    }
    depth.into_iter().max().unwrap_or(0)
}

/// Random call graph over statics/groupshared/externs, with defaulted parameters (literal, a mention of any global,
/// or a call), calls that omit defaulted arguments, and static initialisers that mention earlier statics.
fn gen_prog(rng: &mut Rng, big: bool) -> GProg {
    let ng = rng.below(if big { 9 } else { 6 }) as usize;
    let mut globals: Vec<GGlobal> = Vec::new();
    for i in 0..ng {
        let row = match rng.below(14) {
            0..=3 => &CLASSES[0],
            4 => &CLASSES[1],
            5 | 6 => &CLASSES[2],
            7 => &CLASSES[3],
            8 => &CLASSES[4],
            9 => &CLASSES[5],
            10 => &CLASSES[6],
            11 => &CLASSES[7],
            12 => &CLASSES[8],
            _ => &CLASSES[9],
        };
        let fl = row.1;
        let mut inits = Vec::new();
        if row.0 == "plain" && fl == "S" {
            // initialisers mention earlier statics (constant or threaded); extern resources in an initialiser are a
            // listed finding (the kernel has them only as `setN.name`)
            for (k, g) in globals.iter().enumerate() {
                if (g.class == "plain" || g.class == "struct") && rng.chance(1, 3) {
                    inits.push(k);
                }
            }
        }
        globals.push(GGlobal {
            name: format!("g_{}", i),
            storage: fl.chars().next().unwrap(),
            is_const: fl.contains('c'),
            sampler: fl.contains('x'),
            object: fl.contains('o'),
            class: row.0.to_string(),
            inits,
        });
    }
    let nf = 1 + rng.below(if big { 9 } else { 6 }) as usize;
    let mut funcs: Vec<GFunc> = Vec::new();
    // does function i (transitively) mention a threaded global?  (to keep defaulted functions clean)
    let mut dirty: Vec<bool> = Vec::new();
    for i in 0..nf {
        let nparams = rng.below(4) as usize;
        let mut modes: Vec<char> = (0..nparams).map(|_| *rng.pick(&['i', 'i', 'o', 'b'])).collect();
        let defaulted = rng.chance(1, 6);
        if defaulted {
            modes.push('d');
            if rng.chance(1, 3) {
                modes.push('d');
            }
        }
        let mut items = Vec::new();
        let nitems = rng.below(if big { 8 } else { 6 }) as usize;
        let mut is_dirty = false;
        for _ in 0..nitems {
            let pos = loop {
                let p = *rng.pick(POSITIONS);
                if p != "rt" || rng.chance(1, 3) {
                    break p;
                }
            };
            let want_call = i > 0 && rng.chance(1, 2);
            if want_call {
                let c = rng.below(i as u64) as usize;
                let callee = &funcs[c];
                // number of arguments: all, or drop some trailing defaulted ones
                let nd = callee.modes.iter().rev().take_while(|m| **m == 'd').count();
                let n_args = callee.modes.len() - rng.below(nd as u64 + 1) as usize;
                let mut args = Vec::new();
                for k in 0..n_args {
                    let out = matches!(callee.modes[k], 'o' | 'b');
                    let cands: Vec<usize> = globals
                        .iter()
                        .enumerate()
                        .filter(|(_, g)| {
                            let row = g.class_row().unwrap();
                            if out { row.4.is_some() } else { g.class != "sampler" }
                        })
                        .map(|(k, _)| k)
                        .collect();
                    if !cands.is_empty() && rng.chance(1, 3) {
                        let g = *rng.pick(&cands);
                        if globals[g].threaded() {
                            is_dirty = true;
                        }
                        args.push(Some(g));
                    } else {
                        args.push(None);
                    }
                }
                if dirty[c] {
                    is_dirty = true;
                }
                let pos = if pos == "wr" { "xs" } else { pos };
                items.push(GItem { pos: pos.to_string(), what: What::Call(c, args) });
            } else if !globals.is_empty() {
                let g = rng.below(globals.len() as u64) as usize;
                let gl = &globals[g];
                let row = gl.class_row().unwrap();
                let pos = if gl.class == "sampler" {
                    *rng.pick(&["xs", "sq", "bl"])
                } else if pos == "wr" && row.4.is_none() {
                    "op"
                } else {
                    pos
                };
                if gl.threaded() {
                    is_dirty = true;
                }
                items.push(GItem { pos: pos.to_string(), what: What::Use(g) });
            }
        }
        // a default argument that mentions a global (threaded or constant) or calls an earlier function passing
        // all of its arguments (functions with in/defaulted parameters only: a default cannot bind an out argument)
        if defaulted && rng.chance(2, 3) {
            let mentionable: Vec<usize> =
                globals.iter().enumerate().filter(|(_, g)| g.class != "sampler").map(|(k, _)| k).collect();
            let callable: Vec<usize> = (0..i).filter(|c| funcs[*c].modes.iter().all(|m| *m == 'i' || *m == 'd')).collect();
            if !mentionable.is_empty() && (callable.is_empty() || rng.chance(1, 2)) {
                let g = *rng.pick(&mentionable);
                if globals[g].threaded() {
                    is_dirty = true;
                }
                items.insert(0, GItem { pos: "da".into(), what: What::Use(g) });
            } else if !callable.is_empty() {
                let c = *rng.pick(&callable);
                let n = funcs[c].modes.len();
                if dirty[c] {
                    is_dirty = true;
                }
                items.insert(0, GItem { pos: "da".into(), what: What::Call(c, vec![None; n]) });
            }
        }
        dirty.push(is_dirty);
        funcs.push(GFunc { name: format!("f_{}", i), modes, items });
    }
    // entry point: calls a few functions, mentions a few globals
    let entry = if rng.chance(5, 6) {
        let mut items = Vec::new();
        for c in 0..nf {
            if rng.chance(1, 2) {
                let callee = &funcs[c];
                let args = callee.modes.iter().map(|_| None).collect();
                items.push(GItem { pos: (*rng.pick(&["xs", "vi", "ib", "fb"])).to_string(), what: What::Call(c, args) });
            }
        }
        for g in 0..globals.len() {
            if rng.chance(1, 4) {
                let pos = if globals[g].class == "sampler" { "xs" } else { *rng.pick(&["xs", "vi", "op", "ic"]) };
                items.push(GItem { pos: pos.to_string(), what: What::Use(g) });
            }
        }
        funcs.push(GFunc { name: "cs_main".into(), modes: vec!['i'], items });
        Some(nf)
    } else {
        None
    };
    GProg { globals, funcs, entry }
}

pub fn run(args: &Args, out: &mut Out) {
    let mut hist = Hist::default();
    if args.extra.first().map(|s| s.as_str()) == Some("semdump") {
        // debugging aid: harness c02 semdump FILE
        sem::dump(&args.extra[1]);
        return;
    }
    if args.extra.first().map(|s| s.as_str()) == Some("vdump") {
        // debugging aid: harness c02 vdump FILE
        vec::dump(&args.extra[1]);
        return;
    }
    if args.extra.first().map(|s| s.as_str()) == Some("vgen") {
        // debugging aid: harness c02 vgen K -> the K-th program of the vector stream
        let k: u64 = args.extra.get(1).and_then(|s| s.parse().ok()).unwrap_or(0);
        println!("{}", vec::vprogram(args.seed, k));
        return;
    }
    if let Some(lines) = args.request_lines() {
        for line in lines {
            if line.starts_with("C02.thread\t") {
                run_thread(&line, out, &mut hist);
            } else if line.starts_with("C02.src\t") {
                run_src(&line, out, &mut hist);
            } else if line.starts_with("C02.gen\t") {
                sem::run_request(&line, out, &mut hist);
            } else if line.starts_with("C02.vfn\t") {
                vec::run_request(&line, out, &mut hist);
            } else if line.starts_with("C02.vex\t") {
                vec::run_vex_request(&line, out, &mut hist);
            } else if line.starts_with("C02.dup\t") {
                vec::dupcast::run_request(&line, out, &mut hist);
            } else if line.starts_with("C02.call\t") {
                vec::callargs::run_request(&line, out, &mut hist);
            }
        }
        out.stat(&format!("{{\"mode\":\"replay\",\"hist\":{}}}", hist.json()));
        return;
    }
    let n = args.n.unwrap_or(if args.thorough() { 20000 } else { 400 });
    let mut rng = Rng::new(args.seed);
    // every position once with every class, in a two-level call chain
    for pos in POSITIONS {
        for (ci, row) in CLASSES.iter().enumerate() {
            if (row.0 == "sampler" && !["xs", "sq", "bl"].contains(pos)) || (*pos == "wr" && row.4.is_none()) {
                continue;
            }
            let g = GGlobal {
                name: format!("g_{}", ci),
                storage: row.1.chars().next().unwrap(),
                is_const: row.1.contains('c'),
                sampler: row.1.contains('x'),
                object: row.1.contains('o'),
                class: row.0.to_string(),
                inits: vec![],
            };
            let p = GProg {
                globals: vec![g],
                funcs: vec![
                    GFunc { name: "f_0".into(), modes: vec![], items: vec![GItem { pos: pos.to_string(), what: What::Use(0) }] },
                    GFunc { name: "f_1".into(), modes: vec![], items: vec![GItem { pos: pos.to_string(), what: What::Call(0, vec![]) }] },
                    GFunc { name: "cs_main".into(), modes: vec!['i'], items: vec![GItem { pos: "xs".into(), what: What::Call(1, vec![]) }] },
                ],
                entry: Some(2),
            };
            run_thread(&show_prog(&p), out, &mut hist);
        }
    }
    for k in 0..n {
        let p = gen_prog(&mut rng, k % 4 == 3);
        run_thread(&show_prog(&p), out, &mut hist);
    }
    // semantic half: scalar-subset programs through the real exporter (tree + oracle on the emitted tree)
    sem::run_stream(args, out, &mut hist);
    // vector / matrix / struct / array / enum programs through the real exporter (C02.vfn)
    vec::run_stream(args, out, &mut hist);
    // expression functions of the Lean vector layer (C02.vex): model tree / values compared, oracle as above
    vec::run_vex_stream(args, out, &mut hist);
    out.stat(&format!("{{\"programs\":{},\"hist\":{}}}", n, hist.json()));
}

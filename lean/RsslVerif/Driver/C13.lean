import RsslVerif.Model.ConstEvalWf
import RsslVerif.Driver.Util
/-! Line-protocol front end of the C13 model: `C13.eval <ir s-expression> [src:...]`. -/
namespace RsslVerif.Driver.C13
open RsslVerif.Gen.EvalTable RsslVerif.Model.ConstEval RsslVerif.Driver

def tokens (s : String) : List String :=
  let rec go (cs : List Char) (cur : List Char) (acc : List String) : List String :=
    let flush := if cur.isEmpty then acc else String.ofList cur.reverse :: acc
    match cs with
    | [] => flush.reverse
    | '(' :: r => go r [] ("(" :: flush)
    | ')' :: r => go r [] (")" :: flush)
    | ' ' :: r => go r [] flush
    | c :: r => go r (c :: cur) acc
  go s.toList [] []

def hexNat? (s : String) : Option Nat :=
  if s.isEmpty then none else
  s.toList.foldl (fun acc c => do let a ← acc; let d ← hexDigit? c; pure (a * 16 + d)) (some 0)

def int? (s : String) : Option Int :=
  if s.startsWith "-" then (s.drop 1).toString.toNat?.map (fun n => -(n : Int)) else s.toNat?.map (fun n => (n : Int))

def parseConst (fuel : Nat) (s : String) : Option Constant :=
  match fuel with
  | 0 => none
  | fuel + 1 =>
    if s.startsWith "fl" then (hexNat? (s.drop 2).toString).map .floatLit else
    let r := (s.drop 1).toString
    match s.toList.head? with
    | some 'b' => if r == "1" then some (.bool true) else if r == "0" then some (.bool false) else none
    | some 'L' => (int? r).map .intLit
    | some 'i' => (int? r).map .int32
    | some 'u' => (int? r).map .uint32
    | some 'I' => (int? r).map .int64
    | some 'U' => (int? r).map .uint64
    | some 'h' => (hexNat? r).map .float16
    | some 'f' => (hexNat? r).map .float32
    | some 'd' => (hexNat? r).map .float64
    | some 's' => if r.isEmpty then some .string else none
    | some 'E' =>
      match r.splitOn ":" with
      | id :: rest@(_ :: _) => do
        let id ← id.toNat?
        let inner ← parseConst fuel (":".intercalate rest)
        pure (.enum id inner)
      | _ => none
    | _ => none

def scalar? : String → Option Scalar
  | "bool" => some .Bool
  | "lit" => some .IntLiteral
  | "int" => some .Int32
  | "uint" => some .UInt32
  | "flit" => some .FloatLiteral
  | "half" => some .Float16
  | "float" => some .Float32
  | "double" => some .Float64
  | _ => none

def enumTy? (s : String) : Option (Nat × Scalar) :=
  if s.startsWith "enum" then
    match (s.drop 4).toString.splitOn ":" with
    | [id, u] => do pure (← id.toNat?, ← scalar? u)
    | _ => none
  else none

def ty? (s : String) : Option Ty :=
  if s == "other" then some .other else
  match scalar? s with
  | some sc => some (.scalar sc)
  | none => (enumTy? s).map fun (id, u) => .enum id u

def sizeTy? (s : String) : Option SizeTy :=
  if s == "other" then some .other else
  match scalar? s with
  | some sc => some (.scalar sc)
  | none => (enumTy? s).map fun (_, u) => .enum u

def op? (s : String) : Option Op := Op.all.find? (fun o => o.name == s)

def optConst? (s : String) : Option (Option Constant) :=
  if s == "-" then some none else (parseConst 8 s).map some

mutual
def parseExpr (fuel : Nat) (ts : List String) : Option (Expr × List String) :=
  match fuel with
  | 0 => none
  | fuel + 1 =>
    match ts with
    | "(" :: "lit" :: c :: ")" :: r => (parseConst 8 c).map fun c => (.lit c, r)
    | "(" :: "var" :: c :: ")" :: r => (optConst? c).map fun c => (.var c, r)
    | "(" :: "gl" :: c :: ")" :: r => (optConst? c).map fun c => (.global c, r)
    | "(" :: "ev" :: id :: c :: ")" :: r => do
      let id ← id.toNat?
      let c ← parseConst 8 c
      pure (.enumValue id c, r)
    | "(" :: "sizeof" :: t :: ")" :: r => (sizeTy? t).map fun t => (.sizeOf t, r)
    | "(" :: "other" :: ")" :: r => some (.other, r)
    | "(" :: "cast" :: t :: r => do
      let t ← ty? t
      let (e, r) ← parseExpr fuel r
      match r with
      | ")" :: r => pure (.cast t e, r)
      | _ => none
    | "(" :: "op" :: o :: r => do
      let o ← op? o
      let (args, r) ← parseArgs fuel r
      pure (.op o args, r)
    | _ => none
def parseArgs (fuel : Nat) (ts : List String) : Option (Args × List String) :=
  match fuel with
  | 0 => none
  | fuel + 1 =>
    match ts with
    | ")" :: r => some (.nil, r)
    | _ => do
      let (e, r) ← parseExpr fuel ts
      let (rest, r) ← parseArgs fuel r
      pure (.cons e rest, r)
end

def parseTree (s : String) : Option Expr :=
  let ts := tokens s
  match parseExpr (ts.length + 1) ts with
  | some (e, []) => some e
  | _ => none

def hexPad (width n : Nat) : String :=
  let rec digits (fuel n : Nat) (acc : List Char) : List Char :=
    match fuel with
    | 0 => acc
    | fuel + 1 => digits fuel (n / 16) (hexNibble (n % 16) :: acc)
  String.ofList (digits width n [])

def showConst : Constant → String
  | .bool b => if b then "b1" else "b0"
  | .intLit v => "L" ++ toString v
  | .int32 v => "i" ++ toString v
  | .uint32 v => "u" ++ toString v
  | .int64 v => "I" ++ toString v
  | .uint64 v => "U" ++ toString v
  | .floatLit b => "fl" ++ hexPad 16 b
  | .float16 b => "h" ++ hexPad 8 b
  | .float32 b => "f" ++ hexPad 8 b
  | .float64 b => "d" ++ hexPad 16 b
  | .string => "s"
  | .enum id c => "E" ++ toString id ++ ":" ++ showConst c

def showRes : Res → String
  | .ok c => showConst c
  | .error .notConst => "notconst"
  | .error (.panic m) => "panic:" ++ m
  | .error .stuck => "unsupported: table entry the model cannot interpret"

def handle (op : String) (args : List String) : String :=
  match op, args with
  | "C13.eval", tree :: _ =>
    match parseTree tree with
    | some e => showRes (eval e)
    | none => "bad-request"
  | "C13.hyp", tree :: _ =>
    -- the hypotheses of `consteval_agrees` / `consteval_no_panic`, evaluated on a tree the type checker emitted
    match parseTree tree with
    | some e => "wf=" ++ (if wfE e then "1" else "0") ++ " kinds=" ++ (if kindsOk e then "1" else "0")
    | none => "bad-request"
  | "C13.pos", _ => "unsupported: positions are judged by the reference evaluator only"
  | "C13.src", _ => "unsupported: front-end outcome, outside the evaluator model"
  | _, _ => "unsupported-op"

end RsslVerif.Driver.C13

//! C17: pipelines are selected and compiled independently.
//!
//! request : C17.select \t <dx|vk|vkba|msl> \t <all|name=X|nopipeline> \t <pipes> \t <program seed> \t bare=<ok|err>
//!   pipes : `P0:Compute=cs_0;P1!:Vertex=vs_1,Pixel=ps_2` (what the generated file defines, in order; `!` = this
//!           pipeline fails to build when it is the only one in the file; bare = no-pipeline build of the bare file)
//! observe : ok:[Stage(entry),...][...] | err:none | err:unknown:X | err:build | panic:<site>
//! oracle  : (independent of the model) metamorphic comparison on the real compile():
//!           whole-file result i == result of compiling pipeline i by name == result of compiling a
//!           file in which the other Pipeline definitions were deleted; unknown name / no pipeline are
//!           clean errors; no-pipeline mode returns exactly one result.
use crate::compile_util::*;
use crate::progen::*;
use crate::util::*;

fn show_outcome(o: &CompileOutcome) -> String {
    match o {
        CompileOutcome::Ok(ps) => {
            let mut s = String::from("ok:");
            for p in ps {
                let st: Vec<String> = p.stages.iter().map(|(st, e, _)| format!("{}({})", st, e)).collect();
                s.push_str(&format!("[{}]", st.join(",")));
            }
            s
        }
        CompileOutcome::Err(e) => {
            if e == "Shader does not contain a single pipeline" {
                "err:none".into()
            } else if let Some(n) = e.strip_prefix("Shader does not contain the pipeline: ") {
                format!("err:unknown:{}", n)
            } else {
                "err:build".into()
            }
        }
        CompileOutcome::Panic(p) => format!("panic:{}", p),
    }
}

fn describe(o: &CompileOutcome) -> String {
    match o {
        CompileOutcome::Ok(ps) => format!("Ok({} pipelines, {})", ps.len(), o.digest()),
        CompileOutcome::Err(e) => format!("Err({})", one_line(&e.chars().take(80).collect::<String>())),
        CompileOutcome::Panic(p) => format!("Panic({})", p),
    }
}

/// Results of compiling each pipeline alone in the file (the other Pipeline definitions deleted), and
/// of no-pipeline mode on the file without any Pipeline definition: the `build` parameter of the model.
struct Alone {
    each: Vec<CompileOutcome>,
    bare: CompileOutcome,
}

fn alone_results(prog: &Program, tgt: Tgt) -> Alone {
    let each = (0..prog.pipes.len())
        .map(|i| compile_src(&render(prog, &|k| k == i), tgt, Mode::All))
        .collect();
    let bare = compile_src(&render(prog, &|_| false), tgt, Mode::NoPipeline);
    Alone { each, bare }
}

fn run_one(seed: u64, tgt: Tgt, mode: &Mode, out: &mut Out, hist: &mut Hist) {
    let mut rng = Rng::new(seed);
    let prog = gen_program(&mut rng, &GenOpts::default());
    let src = render(&prog, &|_| true);
    let alone = alone_results(&prog, tgt);
    // pipelines whose own build fails are flagged with `!` (input of the model: which builds fail)
    let pipes: Vec<String> = describe_pipes(&prog, &|_| true)
        .split(';')
        .filter(|s| !s.is_empty())
        .enumerate()
        .map(|(i, d)| {
            if matches!(alone.each[i], CompileOutcome::Ok(_)) { d.to_string() } else { d.replacen(':', "!:", 1) }
        })
        .collect();
    let bare_flag = if matches!(alone.bare, CompileOutcome::Ok(_)) { "bare=ok" } else { "bare=err" };
    let req = format!(
        "C17.select\t{}\t{}\t{}\t{}\t{}",
        tgt.name(),
        mode.show(),
        pipes.join(";"),
        seed,
        bare_flag
    );
    let result = compile_src(&src, tgt, mode.clone());
    let obs = show_outcome(&result);
    hist.add(&format!("pipes={}", prog.pipes.len()));
    hist.add(&format!("mode={}", match mode { Mode::All => "all", Mode::Named(_) => "named", Mode::NoPipeline => "nopipeline" }));
    hist.add(&format!("outcome={}", obs.split(':').take(2).collect::<Vec<_>>().join(":").split('[').next().unwrap_or("")));
    let mut fails: Vec<String> = Vec::new();
    if let CompileOutcome::Panic(p) = &result {
        fails.push(format!("panic {}", p));
    }
    match mode {
        Mode::All => {
            if prog.pipes.is_empty() {
                if result != CompileOutcome::Err("Shader does not contain a single pipeline".into()) {
                    fails.push(format!("file without pipelines: {}", describe(&result)));
                }
            }
            // every pipeline: by name == alone in the file == position i of the whole-file result
            for (i, pipe) in prog.pipes.iter().enumerate() {
                let named = compile_src(&src, tgt, Mode::Named(pipe.name.clone()));
                let alone = alone.each[i].clone();
                if named != alone {
                    fails.push(format!(
                        "pipeline {} by name {} but alone in the file {}",
                        pipe.name,
                        describe(&named),
                        describe(&alone)
                    ));
                }
                if let CompileOutcome::Ok(all) = &result {
                    if all.len() != prog.pipes.len() {
                        fails.push(format!("{} results for {} pipelines", all.len(), prog.pipes.len()));
                        break;
                    }
                    if named != CompileOutcome::Ok(vec![all[i].clone()]) {
                        fails.push(format!(
                            "pipeline {} differs between whole-file result and by-name result {}",
                            pipe.name,
                            describe(&named)
                        ));
                    }
                } else if let CompileOutcome::Err(_) = &result {
                    // the whole file fails only if some pipeline fails on its own
                    hist.add("whole-file-error");
                }
            }
            if let CompileOutcome::Err(e) = &result {
                if !prog.pipes.is_empty() {
                    let any_alone_fails = prog.pipes.iter().any(|p| {
                        !matches!(compile_src(&src, tgt, Mode::Named(p.name.clone())), CompileOutcome::Ok(_))
                    });
                    if !any_alone_fails {
                        fails.push(format!("whole file fails ({}) but every pipeline compiles by name", one_line(e)));
                    }
                }
            }
        }
        Mode::Named(n) => {
            let exists = prog.pipes.iter().any(|p| &p.name == n);
            if !exists {
                let want = CompileOutcome::Err(format!("Shader does not contain the pipeline: {}", n));
                if result != want {
                    fails.push(format!("unknown name {}: {}", n, describe(&result)));
                }
            } else if let CompileOutcome::Ok(v) = &result {
                if v.len() != 1 {
                    fails.push(format!("{} results for one name", v.len()));
                }
            }
        }
        Mode::NoPipeline => match &result {
            CompileOutcome::Ok(v) if v.len() == 1 && v[0].stages.is_empty() => {
                // same output when the file defines no pipelines at all
                if alone.bare != result {
                    fails.push("no-pipeline output depends on the pipeline definitions in the file".into());
                }
            }
            CompileOutcome::Ok(v) => fails.push(format!("no-pipeline mode returned {} results", v.len())),
            CompileOutcome::Err(_) => hist.add("nopipeline-error"),
            CompileOutcome::Panic(_) => {}
        },
    }
    let oracle = if fails.is_empty() { "ok".to_string() } else { format!("FAIL:{}", fails[0]) };
    out.case(&req, &obs, &oracle);
}

fn parse_mode(s: &str) -> Option<Mode> {
    if s == "all" {
        Some(Mode::All)
    } else if s == "nopipeline" {
        Some(Mode::NoPipeline)
    } else {
        s.strip_prefix("name=").map(|n| Mode::Named(n.to_string()))
    }
}

pub fn run(args: &Args, out: &mut Out) {
    let mut hist = Hist::default();
    if let Some(lines) = args.request_lines() {
        for line in lines {
            let f: Vec<&str> = line.split('\t').collect();
            if f.len() != 6 || f[0] != "C17.select" {
                continue;
            }
            let (Some(t), Some(m), Ok(seed)) = (Tgt::parse(f[1]), parse_mode(f[2]), f[4].parse::<u64>()) else {
                continue;
            };
            run_one(seed, t, &m, out, &mut hist);
        }
        out.stat(&format!("{{\"mode\":\"replay\",\"hist\":{}}}", hist.json()));
        return;
    }
    let n = args.n.unwrap_or(if args.thorough() { 5000 } else { 300 });
    let mut rng = Rng::new(args.seed);
    for _ in 0..n {
        let seed = rng.next() >> 16;
        let probe = gen_program(&mut Rng::new(seed), &GenOpts::default());
        for tgt in ALL_TARGETS {
            run_one(seed, tgt, &Mode::All, out, &mut hist);
            // one existing name, one unknown name, no-pipeline mode
            if !probe.pipes.is_empty() {
                let k = rng.below(probe.pipes.len() as u64) as usize;
                run_one(seed, tgt, &Mode::Named(probe.pipes[k].name.clone()), out, &mut hist);
            }
            if tgt == Tgt::Dx || rng.chance(1, 4) {
                run_one(seed, tgt, &Mode::Named("Nope".into()), out, &mut hist);
                run_one(seed, tgt, &Mode::NoPipeline, out, &mut hist);
            }
        }
    }
    out.stat(&format!("{{\"programs\":{},\"hist\":{}}}", n, hist.json()));
}

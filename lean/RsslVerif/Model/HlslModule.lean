import RsslVerif.Model.Targets
/-!
# Where the HLSL exporter lets the compile target show, for a whole module (hlsl/src/ast_generate.rs)

`generate_module(module, for_spirv)` reads `for_spirv` once - to decide whether `analyse_per_primitive_attributes` runs -
and otherwise sees the target only through the module flags `requires_vk_binding` / `requires_buffer_address` (set by
`assign_api_bindings`) and through the two context fields that analysis fills (`per_primitive_semantics`,
`pixel_entry_for_mesh`).  The readers of those are inventoried by `Gen.TargetTables.flagUses`; here each of them is a place
of the generated module:

* extern global / cbuffer block: `[[vk::binding]]` attribute or `: register(..)` annotation (`declText`), and the spelling
  of the two buffer-address kinds;
* struct member with a user semantic that is per-primitive: `[[vk::ext_decorate(5271)]]`;
* parameter of the pixel entry point of a mesh pipeline with such a semantic: the same attribute;
* the pixel entry point of a mesh pipeline: `[[vk::ext_extension(..)]] [[vk::ext_capability(..)]]`;
* everything else of a function - name, types, parameters, **body** - is produced by a generator that receives neither
  `for_spirv`, nor `requires_vk_binding`, nor the two context fields; of the target it sees `requires_buffer_address` only
  (`generate_intrinsic_function` lowers `BufferAddress::Load/Store`, `build_single_param` spells the address types):
  `genFn rba code`, a parameter here; C01's `Model.GenHlsl.genFunc` (scalar subset, no address methods) ignores even that.

Core Lean only.
-/
namespace RsslVerif.Model.HlslModule
open RsslVerif.Gen.SlotTables RsslVerif.Gen.CompileTables RsslVerif.Model.Targets

/-- a struct member or a function parameter, as far as the annotations look at it -/
structure Field where
  name : String
  /-- `Some(Semantic::User(s))` -/
  userSemantic : Option String
  deriving DecidableEq, Repr

structure StructDef where
  name : String
  members : List Field
  deriving DecidableEq, Repr

/-- an extern global (`kind = some k`) or a cbuffer block (`none`); `slot` = its api slot, if it got one -/
structure GlobalDef (σ : Type) where
  name : String
  kind : Option ObjKind
  arr : Arr
  slot : Option σ

/-- a function: `φ` is whatever the body generator needs (C01: `Ir.Func`) -/
structure FuncDef (φ : Type) where
  id : Nat
  params : List Field
  /-- the user semantics this function declares per-primitive when it is a mesh entry point: parameters marked
      `primitives`, and the members of their struct types -/
  primitives : List String
  code : φ

inductive Root (σ φ : Type) where
  | struct (s : StructDef)
  | global (g : GlobalDef σ)
  | func (f : FuncDef φ)

structure Module (σ φ : Type) where
  roots : List (Root σ φ)
  /-- stages of the selected pipeline: (stage, entry function id) -/
  pipeline : Option (List (Stage × Nat))

/-- the two context fields `analyse_per_primitive_attributes` fills -/
structure PerPrim where
  semantics : List String
  pixelEntry : Option Nat
  deriving DecidableEq, Repr

def noPerPrim : PerPrim := ⟨[], none⟩

def funcsOf {σ φ : Type} : List (Root σ φ) → List (FuncDef φ)
  | [] => []
  | .func f :: r => f :: funcsOf r
  | _ :: r => funcsOf r

/-- `if for_spirv { analyse_per_primitive_attributes(..) }` -/
def analyse {σ φ : Type} (forSpirv : Bool) (m : Module σ φ) : PerPrim :=
  if !forSpirv then noPerPrim
  else
    match m.pipeline with
    | none => noPerPrim
    | some stages =>
      let meshEntries := (stages.filter fun s => s.1 == Stage.Mesh).map (·.2)
      let sems := meshEntries.flatMap fun id =>
        ((funcsOf m.roots).filter fun f => f.id == id).flatMap (·.primitives)
      { semantics := sems
        pixelEntry := if meshEntries.isEmpty then none
                      else ((stages.filter fun s => s.1 == Stage.Pixel).head?).map (·.2) }

structure FieldText where
  name : String
  userSemantic : Option String
  /-- `[[vk::ext_decorate(5271)]]` -/
  decorated : Bool
  deriving DecidableEq, Repr

/-- one generated root definition; `τ` = what the function generator returns -/
inductive RootText (σ τ : Type) where
  | struct (name : String) (members : List FieldText)
  | decl (d : DeclText σ)
  /-- `extAttrs` = the `[[vk::ext_extension]] [[vk::ext_capability]]` pair is present -/
  | func (extAttrs : Bool) (params : List FieldText) (code : τ)

def isPerPrim (pp : PerPrim) (f : Field) : Bool :=
  match f.userSemantic with
  | some s => pp.semantics.contains s
  | none => false

/-- `generate_global_variable` / `generate_constant_buffer`: a declaration without api slot carries no annotation -/
def declTextOpt {σ : Type} (f : Flags) (spell : ObjKind → String) (g : GlobalDef σ) : DeclText σ :=
  match g.slot with
  | some s => declText f spell s g.name g.kind g.arr
  | none =>
    { (declText f spell () g.name g.kind g.arr) with vkBinding := none, register := none }

def genRoot {σ φ τ ε : Type} (f : Flags) (pp : PerPrim) (spell : ObjKind → String) (genFn : Bool → φ → Except ε τ) :
    Root σ φ → Except ε (RootText σ τ)
  | .struct s => .ok (.struct s.name (s.members.map fun m => ⟨m.name, m.userSemantic, isPerPrim pp m⟩))
  | .global g => .ok (.decl (declTextOpt f spell g))
  | .func fd =>
    match genFn f.requiresBufferAddress fd.code with
    | .error e => .error e
    | .ok code =>
      let forPixelEntry := pp.pixelEntry == some fd.id
      .ok (.func forPixelEntry
        (fd.params.map fun p => ⟨p.name, p.userSemantic, forPixelEntry && isPerPrim pp p⟩) code)

def genRoots {σ φ τ ε : Type} (f : Flags) (pp : PerPrim) (spell : ObjKind → String) (genFn : Bool → φ → Except ε τ) :
    List (Root σ φ) → Except ε (List (RootText σ τ))
  | [] => .ok []
  | r :: rs =>
    match genRoot f pp spell genFn r with
    | .error e => .error e
    | .ok t =>
      match genRoots f pp spell genFn rs with
      | .error e => .error e
      | .ok ts => .ok (t :: ts)

/-- `generate_module(module, for_spirv)` for a module bound with parameters `p` -/
def genModule {σ φ τ ε : Type} (forSpirv : Bool) (p : Params) (spell : ObjKind → String) (genFn : Bool → φ → Except ε τ)
    (m : Module σ φ) : Except ε (List (RootText σ τ)) :=
  genRoots (flagsOf p) (analyse forSpirv m) spell genFn m.roots

/-- the same module with other api slots (which declarations have one is unchanged) -/
def GlobalDef.reslot {σ σ' : Type} (h : σ → σ') (g : GlobalDef σ) : GlobalDef σ' :=
  { name := g.name, kind := g.kind, arr := g.arr, slot := g.slot.map h }

def Root.reslot {σ σ' φ : Type} (h : σ → σ') : Root σ φ → Root σ' φ
  | .struct s => .struct s
  | .global g => .global (g.reslot h)
  | .func f => .func f

def Module.reslot {σ σ' φ : Type} (h : σ → σ') (m : Module σ φ) : Module σ' φ :=
  { roots := m.roots.map (Root.reslot h), pipeline := m.pipeline }

/-- the buffer-address flag can not show in this declaration -/
def GlobalDef.addressFree {σ : Type} (g : GlobalDef σ) : Bool :=
  match g.kind with
  | some k => !isBufferAddress k
  | none => true

/-- erase binding annotations and `[[vk::..]]` attributes -/
def RootText.erase {σ τ : Type} : RootText σ τ → RootText Unit τ
  | .struct n ms => .struct n (ms.map fun m => { m with decorated := false })
  | .decl d => .decl d.erase
  | .func _ ps code => .func false (ps.map fun p => { p with decorated := false }) code

/-- how many annotations of each kind a generated module carries:
    (`: register(`, `[[vk::binding(`, `[[vk::ext_decorate(`, `[[vk::ext_extension(`) -/
def counts {σ τ : Type} : List (RootText σ τ) → Nat × Nat × Nat × Nat
  | [] => (0, 0, 0, 0)
  | r :: rs =>
    let (a, b, c, d) := counts rs
    match r with
    | .struct _ ms => (a, b, c + (ms.filter (·.decorated)).length, d)
    | .decl t => (a + (if t.register.isSome then 1 else 0), b + (if t.vkBinding.isSome then 1 else 0), c, d)
    | .func ext ps _ => (a, b, c + (ps.filter (·.decorated)).length, d + (if ext then 1 else 0))

end RsslVerif.Model.HlslModule

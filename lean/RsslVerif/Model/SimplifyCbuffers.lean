import RsslVerif.Model.Targets
/-!
# `simplify_cbuffers` (ir/src/simplify_cbuffers.rs) as far as binding reflection can see it

Only the Metal exporter runs this pass (first thing in `export_to_msl`, on its own copy of the module, *after*
`assign_api_bindings` has given every cbuffer block an index slot).  Every `cbuffer Name { members }` of the module -
whatever its members, none included - becomes a struct `NameType` with those members followed by an extern global
`ConstantBuffer<NameType> Name` that inherits the block's language binding and api slot; every other root definition stays.
Metal's `analyse_bindings` then sees no cbuffer block at all.  `Gen.CbufferTables.simplifyEveryCbuffer` is the exact text of
that half of the pass.  Core Lean only.
-/
namespace RsslVerif.Model.SimplifyCbuffers
open RsslVerif.Gen.SlotTables RsslVerif.Gen.TargetTables RsslVerif.Model.Targets

/-- an extern global that is not a cbuffer block -/
inductive GShape where
  | object (k : ObjKind) (arr : Arr) (ss : Bool)
  | plain (arr : Arr)
  deriving DecidableEq, Repr

def GShape.toShape : GShape → Shape
  | .object k arr ss => .object k arr ss
  | .plain arr => .plain arr

/-- a root definition before the pass -/
inductive Root where
  | cbuffer (name : String) (members : List String)
  | global (name : String) (g : GShape)
  /-- struct, enum, function, ... -/
  | other
  deriving DecidableEq, Repr

/-- a root definition after the pass; `fromCbuffer` = the global was made from a cbuffer block and carries its api slot -/
inductive Root' where
  | struct (name : String) (members : List String)
  | global (name : String) (g : GShape) (fromCbuffer : Bool)
  | other
  deriving DecidableEq, Repr

/-- the rewrite of `module.root_definitions` -/
def simplify : List Root → List Root'
  | [] => []
  | .cbuffer n ms :: r =>
    .struct (n ++ "Type") ms :: .global n (.object .ConstantBuffer .single false) true :: simplify r
  | .global n g :: r => .global n g false :: simplify r
  | .other :: r => .other :: simplify r

/-- the declaration the HLSL back end (which does not run the pass) reflects -/
def toDecl : Root → Option Decl
  | .cbuffer n _ => some ⟨n, .cbuffer⟩
  | .global n g => some ⟨n, g.toShape⟩
  | .other => none

def decls (rs : List Root) : List Decl := rs.filterMap toDecl

/-- Metal's `analyse_bindings` on one root definition of the rewritten module -/
def mslReport (rn : NameMaps) (p : Params) : Root' → Except ReportErr (Option Binding)
  | .struct _ _ => .ok none
  | .other => .ok none
  | .global n g fromCb =>
    if fromCb then
      -- `api_slot: cbuffer.api_binding`, and assign_api_bindings gave every cbuffer block a slot
      match g with
      | .object k arr ss =>
        match kindTable .msl k with
        | none => .error .unsupportedObjectType
        | some dk => .ok (some ⟨nameFor rn .msl n, dk, countOf arr, ss⟩)
      | .plain _ => .ok none
    else report rn .msl p ⟨n, g.toShape⟩

def mslReports (rn : NameMaps) (p : Params) : List Root' → Except ReportErr (List Binding)
  | [] => .ok []
  | d :: ds =>
    match mslReport rn p d with
    | .error e => .error e
    | .ok r =>
      match mslReports rn p ds with
      | .error e => .error e
      | .ok rs => .ok (r.toList ++ rs)

/-- the reflection of the Metal target: bind, rewrite, analyse -/
def mslBindings (rn : NameMaps) (rs : List Root) : Except ReportErr (List Binding) :=
  mslReports rn (paramsFor .Msl false) (simplify rs)

/-- the reflection of an HLSL flavour: bind, analyse (cbuffer blocks are still there) -/
def hlslBindings (rn : NameMaps) (t : Target) (sba : Bool) (rs : List Root) : Except ReportErr (List Binding) :=
  reports rn .hlsl (paramsFor t sba) (decls rs)

end RsslVerif.Model.SimplifyCbuffers

//! Evaluator of re-parsed emitted HLSL text for the vector / struct / array / enum stream (`vconv.rs` text forms),
//! by HLSL's C-like rules: names, static types, literal kinds from suffixes, usual arithmetic conversions extended to
//! vectors (a scalar operand is replicated, the longer vector is truncated), implicit conversion on assignment /
//! argument passing / return / initialisation, constructors flatten their arguments, `{…}` initialisers flatten and fill,
//! swizzles and subscripts are places, a C-style cast converts per HLSL (scalar → vector replicates, vector → scalar takes
//! the first component, vector → shorter vector truncates, same shape converts component-wise).
#![allow(dead_code)]
use super::eval::{DEPTH, FUEL};
use super::sx::*;
use super::virev::{vnote, VFlow};
use super::vval::*;
use std::collections::HashMap;

pub struct TxV<'a> {
    /// name → overloads
    pub funcs: HashMap<String, Vec<&'a Sx>>,
    pub types: Types,
    /// name, type, initialiser (declaration order)
    pub globals: Vec<(String, Ty, Option<&'a Sx>)>,
    /// `E::A` and `A` → (enum, value)
    pub enum_consts: HashMap<String, (String, V)>,
    /// struct → method name → overloads
    pub methods: HashMap<String, HashMap<String, Vec<&'a Sx>>>,
}

struct Frame {
    vals: HashMap<String, VV>,
    types: HashMap<String, Ty>,
    ret: Ty,
    /// inside a method: the struct and the current value of the object
    this: Option<(String, VV)>,
}

struct Place {
    name: String,
    path: Vec<Acc>,
}

fn dir_of(s: &str) -> u8 {
    match s {
        "out" => 1,
        "inout" => 2,
        _ => 0,
    }
}

/// scalar kind of an operation on operands of kinds x and y (usual arithmetic conversions; a literal adapts)
fn common_scalar(x: T, y: T) -> Option<T> {
    use T::*;
    if x == y {
        return Some(x);
    }
    Some(match (x, y) {
        (Lit, Int) | (Int, Lit) => Int,
        (Lit, Uint) | (Uint, Lit) => Uint,
        (Lit, Float) | (Float, Lit) | (Flit, Float) | (Float, Flit) => Float,
        (Lit, Flit) | (Flit, Lit) => Flit,
        (Int, Uint) | (Uint, Int) => Uint,
        (Int, Float) | (Float, Int) | (Uint, Float) | (Float, Uint) => Float,
        (Int, Flit) | (Flit, Int) | (Uint, Flit) | (Flit, Uint) | (Bool, Flit) | (Flit, Bool) => Float,
        (Bool, Int) | (Int, Bool) | (Bool, Lit) | (Lit, Bool) => Int,
        (Bool, Uint) | (Uint, Bool) => Uint,
        (Bool, Float) | (Float, Bool) => Float,
        _ => return None,
    })
}

impl<'a> TxV<'a> {
    pub fn new(prog: &'a [Sx]) -> Option<Self> {
        let mut me = TxV { funcs: HashMap::new(), types: Types::default(), globals: Vec::new(), enum_consts: HashMap::new(), methods: HashMap::new() };
        // names of the declared types first (a struct member may name another struct)
        for d in prog {
            match d.head() {
                "struct" => {
                    me.types.structs.insert(d.args()[0].atom().to_string(), Vec::new());
                }
                "enum" => {
                    me.types.enums.insert(d.args()[0].atom().to_string(), (T::Int, Vec::new()));
                }
                _ => {}
            }
        }
        for d in prog {
            let x = d.args();
            match d.head() {
                "struct" => {
                    let mut members = Vec::new();
                    for m in &x[1..] {
                        if m.head() == "method" {
                            let f = &m.args()[0];
                            me.methods.entry(x[0].atom().to_string()).or_default().entry(f.args()[0].atom().to_string()).or_default().push(f);
                        } else {
                            members.push((m.args()[0].atom().to_string(), me.ty(&m.args()[1])?));
                        }
                    }
                    me.types.structs.insert(x[0].atom().to_string(), members);
                }
                "enum" => {
                    // enumerators: explicit constant expressions, or previous + 1; underlying type int unless a value
                    // does not fit (then uint), as for an unscoped C++ enumeration
                    let ename = x[0].atom().to_string();
                    let mut vals: Vec<(String, i128)> = Vec::new();
                    let mut next: i128 = 0;
                    for v in &x[1..] {
                        let n = v.args()[0].atom().to_string();
                        let val = match v.args().get(1) {
                            Some(e) => me.const_int(e)?,
                            None => next,
                        };
                        next = val + 1;
                        vals.push((n, val));
                    }
                    let under = if vals.iter().all(|(_, v)| *v >= i32::MIN as i128 && *v <= i32::MAX as i128) { T::Int } else { T::Uint };
                    let mut out = Vec::new();
                    for (n, v) in vals {
                        let val = cast_val(under, V::L(v))?;
                        me.enum_consts.insert(format!("{}::{}", ename, n), (ename.clone(), val));
                        me.enum_consts.insert(n.clone(), (ename.clone(), val));
                        out.push((n, val));
                    }
                    me.types.enums.insert(ename, (under, out));
                }
                "global" => {
                    me.globals.push((x[0].atom().to_string(), me.ty(&x[1])?, x.get(3)));
                }
                "fn" => me.funcs.entry(x[0].atom().to_string()).or_default().push(d),
                _ => {}
            }
        }
        Some(me)
    }

    /// integer constant expression of an enumerator (literals, unary minus, earlier enumerators)
    fn const_int(&self, e: &Sx) -> Option<i128> {
        let x = e.args();
        match e.head() {
            "lit" => match x[0].atom() {
                "int" | "uint" => x[1].atom().parse().ok(),
                "bool" => Some((x[1].atom() == "1") as i128),
                _ => None,
            },
            "un" if x[0].atom() == "Minus" => Some(-self.const_int(&x[1])?),
            "un" if x[0].atom() == "Plus" => self.const_int(&x[1]),
            "id" => match self.enum_consts.get(x[0].atom())?.1 {
                V::I(v) => Some(v as i32 as i128),
                V::U(v) => Some(v as i128),
                _ => None,
            },
            "cast" => self.const_int(&x[1]),
            _ => None,
        }
    }

    pub fn ty(&self, sx: &Sx) -> Option<Ty> {
        let user = |n: &str| -> Option<Ty> {
            if self.types.structs.contains_key(n) {
                Some(Ty::Struct(n.to_string()))
            } else if self.types.enums.contains_key(n) {
                Some(Ty::Enum(n.to_string()))
            } else {
                None
            }
        };
        Ty::parse(sx, &user)
    }

    // ---------------------------------------------------------------------------------------- static types
    /// index and type of a data member of the object the frame's method runs on
    fn this_member(&self, name: &str, fr: &Frame) -> Option<(usize, Ty)> {
        let (k, _) = fr.this.as_ref()?;
        let members = self.types.structs.get(k)?;
        let i = members.iter().position(|m| m.0 == name)?;
        Some((i, members[i].1.clone()))
    }

    /// a name denotes a local, else a member of `this`, else a global (C++ scoping)
    fn var_type(&self, name: &str, fr: &Frame) -> Option<Ty> {
        fr.types
            .get(name)
            .cloned()
            .or_else(|| self.this_member(name, fr).map(|m| m.1))
            .or_else(|| self.globals.iter().find(|g| g.0 == name).map(|g| g.1.clone()))
    }

    /// numeric view of a type: enums act as their underlying scalar in arithmetic
    fn arith(&self, t: &Ty) -> Option<Ty> {
        match t {
            Ty::Enum(k) => Some(Ty::S(self.types.enums.get(k)?.0)),
            t if t.is_numeric() => Some(t.clone()),
            _ => None,
        }
    }

    /// type in which a component-wise binary operation on `a` and `b` is carried out
    fn common(&self, a: &Ty, b: &Ty) -> Option<Ty> {
        let (a, b) = (self.arith(a)?, self.arith(b)?);
        let s = common_scalar(a.scalar()?, b.scalar()?)?;
        Some(match (&a, &b) {
            (Ty::S(_), Ty::S(_)) => Ty::S(s),
            (Ty::S(_), Ty::V(_, n)) | (Ty::V(_, n), Ty::S(_)) => Ty::V(s, *n),
            (Ty::V(_, 1), Ty::V(_, n)) | (Ty::V(_, n), Ty::V(_, 1)) => Ty::V(s, *n),
            (Ty::V(_, n), Ty::V(_, m)) => Ty::V(s, *n.min(m)),
            (Ty::S(_), Ty::M(_, r, c)) | (Ty::M(_, r, c), Ty::S(_)) => Ty::M(s, *r, *c),
            (Ty::M(_, r, c), Ty::M(_, r2, c2)) if r == r2 && c == c2 => Ty::M(s, *r, *c),
            _ => return None,
        })
    }

    fn member_type(&self, obj: &Ty, name: &str) -> Option<(Ty, Acc)> {
        match obj {
            Ty::Struct(k) => {
                let members = self.types.structs.get(k)?;
                let i = members.iter().position(|m| m.0 == name)?;
                Some((members[i].1.clone(), Acc::Field(i)))
            }
            Ty::V(t, n) => {
                let sl = swizzle_slots(name)?;
                if sl.is_empty() || sl.len() > 4 || sl.iter().any(|i| i >= n) {
                    return None;
                }
                Some((if sl.len() == 1 { Ty::S(*t) } else { Ty::V(*t, sl.len()) }, Acc::Swz(sl)))
            }
            Ty::S(t) => {
                let sl = swizzle_slots(name)?;
                if sl.is_empty() || sl.len() > 4 || sl.iter().any(|i| *i != 0) {
                    return None;
                }
                Some((if sl.len() == 1 { Ty::S(*t) } else { Ty::V(*t, sl.len()) }, Acc::Swz(sl)))
            }
            Ty::M(t, r, c) => {
                let sl = matrix_swizzle_slots(name)?;
                if sl.len() > 4 || sl.iter().any(|(i, j)| i >= r || j >= c) {
                    return None;
                }
                Some((if sl.len() == 1 { Ty::S(*t) } else { Ty::V(*t, sl.len()) }, Acc::MSwz(sl)))
            }
            _ => None,
        }
    }

    fn element_type(&self, obj: &Ty) -> Option<Ty> {
        match obj {
            Ty::Arr(e, _) => Some((**e).clone()),
            Ty::V(t, _) => Some(Ty::S(*t)),
            Ty::M(t, _, c) => Some(Ty::V(*t, *c)),
            _ => None,
        }
    }

    fn type_of(&self, e: &Sx, fr: &Frame) -> Option<Ty> {
        let r = self.type_of_inner(e, fr);
        if r.is_none() {
            vnote(format!("text: no static type for {}", e.show()));
        }
        r
    }

    fn type_of_inner(&self, e: &Sx, fr: &Frame) -> Option<Ty> {
        let x = e.args();
        match e.head() {
            "lit" => Some(Ty::S(match x[0].atom() {
                "bool" => T::Bool,
                "int" => T::Lit,
                "uint" => T::Uint,
                "f32" => T::Float,
                "flt" => T::Flit,
                _ => return None,
            })),
            "id" => match self.var_type(x[0].atom(), fr) {
                Some(t) => Some(t),
                None => self.enum_consts.get(x[0].atom()).map(|(en, _)| Ty::Enum(en.clone())),
            },
            "un" => {
                let t = self.arith(&self.type_of(&x[1], fr)?)?;
                match op_sem(x[0].atom()) {
                    OpSem::Un(MUn::Lnot) => Some(t.with_scalar(T::Bool)),
                    OpSem::Un(_) => Some(if t.scalar() == Some(T::Bool) { t.with_scalar(T::Int) } else { t }),
                    OpSem::IncDec(_, _) => self.type_of(&x[1], fr),
                    _ => None,
                }
            }
            "bin" => {
                let ta = self.type_of(&x[1], fr)?;
                let tb = self.type_of(&x[2], fr)?;
                match op_sem(x[0].atom()) {
                    OpSem::Bin(m) => {
                        let t = self.op_type(m, &ta, &tb)?;
                        Some(if m.is_cmp() { t.with_scalar(T::Bool) } else { t })
                    }
                    OpSem::Land | OpSem::Lor => Some(Ty::S(T::Bool)),
                    OpSem::Assign | OpSem::Compound(_) => Some(ta),
                    OpSem::Comma => Some(tb),
                    _ => None,
                }
            }
            "tern" => {
                self.type_of(&x[0], fr)?;
                let (t1, t2) = (self.type_of(&x[1], fr)?, self.type_of(&x[2], fr)?);
                if t1 == t2 { Some(t1) } else { self.common(&t1, &t2) }
            }
            "cast" => {
                self.type_of(&x[1], fr)?;
                self.ty(&x[0])
            }
            "mem" => Some(self.member_type(&self.type_of(&x[0], fr)?, x[1].atom())?.0),
            "idx" => {
                self.type_of(&x[1], fr)?;
                self.element_type(&self.type_of(&x[0], fr)?)
            }
            "call" => {
                if let Some(t) = numeric_type_of_name(x[0].atom()) {
                    for arg in &x[1..] {
                        self.type_of(arg, fr)?;
                    }
                    return Some(t);
                }
                if !self.is_user_function(x[0].atom(), fr) {
                    if let Some((_, rule)) = vbuiltin_of_name(x[0].atom()) {
                        return ret_by_rule(rule, &self.builtin_arg_types(&x[1..], fr)?);
                    }
                }
                let (f, _) = self.resolve(x[0].atom(), &x[1..], fr)?;
                self.ty(&f.args()[1])
            }
            "mcall" => {
                let ot = self.type_of(&x[0], fr)?;
                let f = self.resolve_method(&ot, x[1].atom(), &x[2..], fr)?;
                self.ty(&f.args()[1])
            }
            _ => None,
        }
    }

    /// operand type of a binary operator: the common type; bool operands of arithmetic / bitwise / shift operators are ints
    fn op_type(&self, m: MBin, ta: &Ty, tb: &Ty) -> Option<Ty> {
        let t = self.common(ta, tb)?;
        Some(if t.scalar() == Some(T::Bool) && !matches!(m, MBin::Eq | MBin::Ne) { t.with_scalar(T::Int) } else { t })
    }

    // ---------------------------------------------------------------------------------------- conversions
    /// implicit / explicit conversion of a value of static type `from` to `to`
    fn convert(&self, from: &Ty, to: &Ty, v: VV) -> Option<VV> {
        if from == to {
            return Some(v);
        }
        if let Ty::Enum(k) = to {
            // only a cast gets here (numeric → enumeration)
            let under = self.types.enums.get(k)?.0;
            let src = self.arith(from)?;
            return match src {
                Ty::S(_) => Some(VV::S(cast_val(under, v.scalar()?)?)),
                _ => None,
            };
        }
        let src = self.arith(from)?;
        let ts = to.scalar()?;
        let conv = |xs: Vec<V>| xs.into_iter().map(|c| cast_val(ts, c)).collect::<Option<Vec<V>>>();
        match (&src, to) {
            (Ty::S(_), Ty::S(_)) => Some(VV::S(cast_val(ts, v.scalar()?)?)),
            (Ty::S(_), Ty::V(_, n)) => Some(VV::V(conv(vec![v.scalar()?; *n])?)),
            (Ty::S(_), Ty::M(_, r, c)) => Some(VV::M(*r, *c, conv(vec![v.scalar()?; r * c])?)),
            (Ty::V(_, _), Ty::S(_)) => Some(VV::S(cast_val(ts, *v.comps()?.first()?)?)),
            (Ty::V(_, 1), Ty::V(_, n)) => Some(VV::V(conv(vec![v.comps()?[0]; *n])?)),
            (Ty::V(_, n), Ty::V(_, m)) if m <= n => Some(VV::V(conv(v.comps()?[..*m].to_vec())?)),
            (Ty::M(_, r, c), Ty::M(_, r2, c2)) if r == r2 && c == c2 => Some(VV::M(*r, *c, conv(v.comps()?)?)),
            _ => None,
        }
    }

    fn eval_as(&self, to: &Ty, e: &Sx, fr: &mut Frame, gl: &mut HashMap<String, VV>, depth: u32) -> Option<VV> {
        let from = self.type_of(e, fr)?;
        let v = self.eval(e, fr, gl, depth)?;
        let r = self.convert(&from, to, v.clone());
        if r.is_none() {
            vnote(format!("text: no conversion {} -> {} of {}", from.show(), to.show(), v.show()));
        }
        r
    }

    // ---------------------------------------------------------------------------------------- places
    fn read_name(&self, name: &str, fr: &Frame, gl: &HashMap<String, VV>) -> Option<VV> {
        if fr.types.contains_key(name) {
            Some(fr.vals.get(name).cloned().unwrap_or(VV::S(V::Void)))
        } else if let Some((i, _)) = self.this_member(name, fr) {
            get_acc(&fr.this.as_ref()?.1, &Acc::Field(i))
        } else if self.globals.iter().any(|g| g.0 == name) {
            Some(gl.get(name).cloned().unwrap_or(VV::S(V::Void)))
        } else {
            None
        }
    }

    fn write_name(&self, name: &str, v: VV, fr: &mut Frame, gl: &mut HashMap<String, VV>) -> Option<()> {
        if fr.types.contains_key(name) {
            fr.vals.insert(name.to_string(), v);
            Some(())
        } else if let Some((i, _)) = self.this_member(name, fr) {
            put_acc(&mut fr.this.as_mut()?.1, &Acc::Field(i), v)
        } else if self.globals.iter().any(|g| g.0 == name) {
            gl.insert(name.to_string(), v);
            Some(())
        } else {
            None
        }
    }

    fn read_place(&self, p: &Place, fr: &Frame, gl: &HashMap<String, VV>) -> Option<VV> {
        get_path(&self.read_name(&p.name, fr, gl)?, &p.path)
    }

    fn write_place(&self, p: &Place, v: VV, fr: &mut Frame, gl: &mut HashMap<String, VV>) -> Option<()> {
        let mut whole = self.read_name(&p.name, fr, gl)?;
        set_path(&mut whole, &p.path, v)?;
        self.write_name(&p.name, whole, fr, gl)
    }

    fn index(&self, e: &Sx, fr: &mut Frame, gl: &mut HashMap<String, VV>, depth: u32) -> Option<usize> {
        match self.eval_as(&Ty::S(T::Int), e, fr, gl, depth)?.scalar()? {
            V::I(i) if (i as i32) >= 0 => Some(i as usize),
            _ => None,
        }
    }

    fn place(&self, e: &Sx, fr: &mut Frame, gl: &mut HashMap<String, VV>, depth: u32) -> Option<Place> {
        let x = e.args();
        match e.head() {
            "id" => {
                self.var_type(x[0].atom(), fr)?;
                Some(Place { name: x[0].atom().to_string(), path: vec![] })
            }
            "mem" => {
                let ot = self.type_of(&x[0], fr)?;
                let mut p = self.place(&x[0], fr, gl, depth)?;
                p.path.push(self.member_type(&ot, x[1].atom())?.1);
                Some(p)
            }
            "idx" => {
                self.element_type(&self.type_of(&x[0], fr)?)?;
                let mut p = self.place(&x[0], fr, gl, depth)?;
                let i = self.index(&x[1], fr, gl, depth)?;
                p.path.push(Acc::Idx(i));
                Some(p)
            }
            _ => None,
        }
    }

    // ---------------------------------------------------------------------------------------- calls
    /// cost of passing an argument of static type `from` to a parameter of type `to` (None: not convertible)
    fn arg_cost(&self, from: &Ty, to: &Ty) -> Option<u32> {
        if from == to {
            return Some(0);
        }
        let (f, t) = (self.arith(from)?, to.clone());
        if !t.is_numeric() {
            return None;
        }
        let shape = match (&f, &t) {
            (Ty::S(_), Ty::S(_)) => 0,
            (Ty::V(_, n), Ty::V(_, m)) if n == m => 0,
            (Ty::M(_, r, c), Ty::M(_, r2, c2)) if r == r2 && c == c2 => 0,
            (Ty::S(_), Ty::V(..)) | (Ty::S(_), Ty::M(..)) => 100,
            (Ty::V(..), Ty::S(_)) => 200,
            (Ty::V(_, n), Ty::V(_, m)) if m < n => 200,
            _ => return None,
        };
        let (fs, ts) = (f.scalar()?, t.scalar()?);
        let kind = if fs == ts {
            0
        } else {
            match (fs, ts) {
                (T::Lit, T::Int) => 0,
                (T::Lit, T::Uint) => 1,
                (T::Flit, T::Float) => 0,
                (T::Int, T::Uint) | (T::Uint, T::Int) => 2,
                (_, T::Bool) => 5,
                _ => 8,
            }
        };
        Some(shape + kind + if matches!(from, Ty::Enum(_)) { 10 } else { 0 })
    }

    fn is_user_function(&self, name: &str, fr: &Frame) -> bool {
        self.funcs.contains_key(name) || fr.this.as_ref().map(|(k, _)| self.methods.get(k).map(|m| m.contains_key(name)).unwrap_or(false)).unwrap_or(false)
    }

    /// static types of the arguments of a built-in; an all-literal argument is an int / float
    fn builtin_arg_types(&self, args: &[Sx], fr: &Frame) -> Option<Vec<Ty>> {
        let mut out = Vec::new();
        for a in args {
            let t = self.arith(&self.type_of(a, fr)?)?;
            out.push(match t.scalar()? {
                T::Lit => t.with_scalar(T::Int),
                T::Flit => t.with_scalar(T::Float),
                _ => t,
            });
        }
        Some(out)
    }

    /// a called name inside a method denotes a method of the same struct first, then a free function
    fn resolve(&self, name: &str, args: &[Sx], fr: &Frame) -> Option<(&'a Sx, bool)> {
        if let Some((k, _)) = &fr.this {
            if let Some(cands) = self.methods.get(k).and_then(|m| m.get(name)) {
                return self.resolve_among(name, cands, args, fr).map(|f| (f, true));
            }
        }
        // a local variable of that name hides the function (C scoping): the call does not denote the function any more
        if fr.types.contains_key(name) {
            vnote(format!("the call of `{}` names a local variable", name));
            return None;
        }
        self.resolve_among(name, self.funcs.get(name)?, args, fr).map(|f| (f, false))
    }

    fn resolve_method(&self, obj_ty: &Ty, name: &str, args: &[Sx], fr: &Frame) -> Option<&'a Sx> {
        match obj_ty {
            Ty::Struct(k) => self.resolve_among(name, self.methods.get(k)?.get(name)?, args, fr),
            _ => None,
        }
    }

    fn resolve_among(&self, name: &str, cands: &Vec<&'a Sx>, args: &[Sx], fr: &Frame) -> Option<&'a Sx> {
        let mut arg_types = Vec::new();
        for arg in args {
            arg_types.push(self.type_of(arg, fr)?);
        }
        let mut best: Option<(u32, &'a Sx)> = None;
        let mut tie = false;
        for f in cands {
            let params = f.args()[2].args();
            if args.len() > params.len() || params[args.len()..].iter().any(|p| p.args().len() < 4) {
                continue;
            }
            let mut cost = 0;
            let mut ok = true;
            for (p, at) in params.iter().zip(&arg_types) {
                match self.ty(&p.args()[2]).and_then(|pt| self.arg_cost(at, &pt)) {
                    Some(c) => cost += c,
                    None => {
                        ok = false;
                        break;
                    }
                }
            }
            if !ok {
                continue;
            }
            match best {
                Some((c, _)) if c == cost => tie = true,
                Some((c, _)) if c < cost => {}
                _ => {
                    best = Some((cost, *f));
                    tie = false;
                }
            }
        }
        if tie {
            vnote(format!("text: ambiguous call of {}", name));
            return None;
        }
        best.map(|b| b.1)
    }

    /// `this`: the struct and object value the callee runs on (a method); returns the value and the object's final value
    fn call_user(&self, f: &'a Sx, args: &[Sx], this: Option<(String, VV)>, fr: &mut Frame, gl: &mut HashMap<String, VV>, depth: u32) -> Option<(VV, Option<VV>)> {
        let params = f.args()[2].args();
        let mut vals = Vec::new();
        let mut places: Vec<Option<(Place, Ty, Ty)>> = Vec::new();
        for (i, p) in params.iter().enumerate() {
            let pt = self.ty(&p.args()[2])?;
            match args.get(i) {
                Some(arg) if dir_of(p.args()[1].atom()) == 0 => {
                    vals.push(self.eval_as(&pt, arg, fr, gl, depth)?);
                    places.push(None);
                }
                Some(arg) => {
                    let at = self.type_of(arg, fr)?;
                    let pl = self.place(arg, fr, gl, depth)?;
                    let cur = self.read_place(&pl, fr, gl)?;
                    // copy-in (the value the argument holds, also for `out`: it stays what it was if never written)
                    vals.push(if at == pt { cur } else { self.convert(&at, &pt, cur).unwrap_or(self.types.undef(&pt)?) });
                    places.push(Some((pl, at, pt)));
                }
                None => {
                    // default argument: evaluated in the callee's declaration context (globals only), converted to the parameter type
                    let d = p.args().get(3)?;
                    let mut dfr = Frame { vals: HashMap::new(), types: HashMap::new(), ret: Ty::Void, this: None };
                    // C++ / HLSL: the parameters declared so far (this one included) are in scope in a default argument and hide
                    // globals of their name; they have no value there (using one is ill-formed): a mention reads nothing
                    for q in &params[..=i] {
                        dfr.types.insert(q.args()[0].atom().to_string(), self.ty(&q.args()[2])?);
                    }
                    vals.push(self.eval_as(&pt, d, &mut dfr, gl, depth)?);
                    places.push(None);
                }
            }
        }
        let (ret, finals, final_this) = self.call(f, &vals, this, gl, depth)?;
        for (pl, v) in places.iter().zip(finals) {
            if let Some((pl, at, pt)) = pl {
                let back = self.convert(pt, at, v)?;
                self.write_place(pl, back, fr, gl)?;
            }
        }
        Some((ret.unwrap_or(VV::S(V::Void)), final_this))
    }

    /// `T(a, b, …)`: every argument converted to T's scalar kind in its own shape, flattened; the count must fit
    fn construct(&self, t: &Ty, args: &[Sx], fr: &mut Frame, gl: &mut HashMap<String, VV>, depth: u32) -> Option<VV> {
        let ts = t.scalar()?;
        let mut comps = Vec::new();
        for arg in args {
            let at = self.arith(&self.type_of(arg, fr)?)?;
            let v = self.eval(arg, fr, gl, depth)?;
            let from_enum_or_same = self.convert(&self.type_of(arg, fr)?, &at.with_scalar(ts), v)?;
            comps.extend(from_enum_or_same.comps()?);
        }
        if comps.len() != t.count() {
            // a single scalar argument is a conversion (`float3(x)` is a cast in HLSL)
            if comps.len() == 1 && args.len() == 1 {
                return self.convert(&Ty::S(ts), t, VV::S(comps[0]));
            }
            return None;
        }
        Some(match t {
            Ty::S(_) => VV::S(comps[0]),
            Ty::V(..) => VV::V(comps),
            Ty::M(_, r, c) => VV::M(*r, *c, comps),
            _ => return None,
        })
    }

    // ---------------------------------------------------------------------------------------- expressions
    pub fn eval(&self, e: &Sx, fr: &mut Frame, gl: &mut HashMap<String, VV>, depth: u32) -> Option<VV> {
        let r = self.eval_inner(e, fr, gl, depth);
        if r.is_none() {
            vnote(format!("text: {}", e.show()));
        }
        r
    }

    fn eval_inner(&self, e: &Sx, fr: &mut Frame, gl: &mut HashMap<String, VV>, depth: u32) -> Option<VV> {
        let x = e.args();
        match e.head() {
            "lit" => {
                let v = x[1].atom();
                Some(VV::S(match x[0].atom() {
                    "bool" => V::B(v == "1"),
                    "int" => V::L(v.parse().ok()?),
                    "uint" => V::U(v.parse::<u64>().ok()? as u32),
                    "f32" => V::F(u32::from_str_radix(v, 16).ok()?),
                    "flt" => V::D(u64::from_str_radix(v, 16).ok()?),
                    _ => return None,
                }))
            }
            "id" => match self.read_name(x[0].atom(), fr, gl) {
                Some(v) => Some(v),
                None => self.enum_consts.get(x[0].atom()).map(|(_, v)| VV::S(*v)),
            },
            "cast" => {
                let t = self.ty(&x[0])?;
                self.eval_as(&t, &x[1], fr, gl, depth)
            }
            "tern" => {
                let t = self.type_of(e, fr)?;
                match self.eval_as(&Ty::S(T::Bool), &x[0], fr, gl, depth)? {
                    VV::S(V::B(true)) => self.eval_as(&t, &x[1], fr, gl, depth),
                    VV::S(V::B(false)) => self.eval_as(&t, &x[2], fr, gl, depth),
                    _ => None,
                }
            }
            "mem" => {
                let ot = self.type_of(&x[0], fr)?;
                let acc = self.member_type(&ot, x[1].atom())?.1;
                let o = self.eval(&x[0], fr, gl, depth)?;
                get_acc(&o, &acc)
            }
            "idx" => {
                self.element_type(&self.type_of(&x[0], fr)?)?;
                let o = self.eval(&x[0], fr, gl, depth)?;
                let i = self.index(&x[1], fr, gl, depth)?;
                get_acc(&o, &Acc::Idx(i))
            }
            "call" => {
                if let Some(t) = numeric_type_of_name(x[0].atom()) {
                    return self.construct(&t, &x[1..], fr, gl, depth);
                }
                if !self.is_user_function(x[0].atom(), fr) {
                    if let Some((variant, rule)) = vbuiltin_of_name(x[0].atom()) {
                        // a built-in: every argument at its own (promoted) static type, left to right
                        let tys = self.builtin_arg_types(&x[1..], fr)?;
                        let ret = ret_by_rule(rule, &tys)?;
                        let mut vals = Vec::new();
                        for (a, t) in x[1..].iter().zip(&tys) {
                            vals.push(self.eval_as(t, a, fr, gl, depth)?);
                        }
                        let names: Vec<String> = tys.iter().map(|t| t.show()).collect();
                        return vintr(variant, &names, &vals, &ret);
                    }
                }
                let (f, is_method) = self.resolve(x[0].atom(), &x[1..], fr)?;
                if is_method {
                    // another method of the object this method runs on
                    let this = fr.this.clone();
                    let (v, final_this) = self.call_user(f, &x[1..], this, fr, gl, depth)?;
                    fr.this.as_mut()?.1 = final_this?;
                    Some(v)
                } else {
                    Some(self.call_user(f, &x[1..], None, fr, gl, depth)?.0)
                }
            }
            "mcall" => {
                let ot = self.type_of(&x[0], fr)?;
                let k = match &ot {
                    Ty::Struct(k) => k.clone(),
                    _ => return None,
                };
                let f = self.resolve_method(&ot, x[1].atom(), &x[2..], fr)?;
                // the object first (a place when it is one), then the arguments
                let (pl, obj) = match self.place(&x[0], fr, gl, depth) {
                    Some(pl) => {
                        let v = self.read_place(&pl, fr, gl)?;
                        (Some(pl), v)
                    }
                    None => (None, self.eval(&x[0], fr, gl, depth)?),
                };
                let (v, final_this) = self.call_user(f, &x[2..], Some((k, obj)), fr, gl, depth)?;
                if let Some(pl) = pl {
                    self.write_place(&pl, final_this?, fr, gl)?;
                }
                Some(v)
            }
            "un" => match op_sem(x[0].atom()) {
                OpSem::Un(m) => {
                    let te = self.arith(&self.type_of(&x[1], fr)?)?;
                    let at = match m {
                        MUn::Lnot => te.with_scalar(T::Bool),
                        _ if te.scalar() == Some(T::Bool) => te.with_scalar(T::Int),
                        _ => te,
                    };
                    let v = self.eval_as(&at, &x[1], fr, gl, depth)?;
                    lift1(&|p| unop(m, p), &v)
                }
                OpSem::IncDec(pre, inc) => {
                    let pl = self.place(&x[1], fr, gl, depth)?;
                    let old = self.read_place(&pl, fr, gl)?;
                    let new = lift1(&|p| step(inc, p), &old)?;
                    self.write_place(&pl, new.clone(), fr, gl)?;
                    Some(if pre { new } else { old })
                }
                _ => None,
            },
            "bin" => {
                let (l, r) = (&x[1], &x[2]);
                match op_sem(x[0].atom()) {
                    OpSem::Bin(m) => {
                        let t = self.op_type(m, &self.type_of(l, fr)?, &self.type_of(r, fr)?)?;
                        let p = self.eval_as(&t, l, fr, gl, depth)?;
                        let q = self.eval_as(&t, r, fr, gl, depth)?;
                        lift2(&|a, b| binop(m, a, b), &p, &q)
                    }
                    OpSem::Land | OpSem::Lor => {
                        let is_and = op_sem(x[0].atom()) == OpSem::Land;
                        // scalars only (HLSL 2021: short-circuit)
                        if !matches!(self.arith(&self.type_of(l, fr)?)?, Ty::S(_)) || !matches!(self.arith(&self.type_of(r, fr)?)?, Ty::S(_)) {
                            return None;
                        }
                        match self.eval_as(&Ty::S(T::Bool), l, fr, gl, depth)? {
                            VV::S(V::B(p)) if p != is_and => Some(VV::S(V::B(p))),
                            VV::S(V::B(_)) => self.eval_as(&Ty::S(T::Bool), r, fr, gl, depth),
                            _ => None,
                        }
                    }
                    OpSem::Assign => {
                        let t = self.type_of(l, fr)?;
                        let pl = self.place(l, fr, gl, depth)?;
                        let v = self.eval_as(&t, r, fr, gl, depth)?;
                        self.write_place(&pl, v.clone(), fr, gl)?;
                        Some(v)
                    }
                    OpSem::Compound(m) => {
                        let t = self.type_of(l, fr)?;
                        let c = self.op_type(m, &t, &self.type_of(r, fr)?)?;
                        // the result is converted back to the left type: a truncating common type would lose components
                        if c.count() != self.arith(&t)?.count() {
                            return None;
                        }
                        let pl = self.place(l, fr, gl, depth)?;
                        let q = self.eval_as(&c, r, fr, gl, depth)?;
                        let cur = self.convert(&t, &c, self.read_place(&pl, fr, gl)?)?;
                        let res = self.convert(&c, &t, lift2(&|a, b| binop(m, a, b), &cur, &q)?)?;
                        self.write_place(&pl, res.clone(), fr, gl)?;
                        Some(res)
                    }
                    OpSem::Comma => {
                        self.type_of(l, fr)?;
                        self.eval(l, fr, gl, depth)?;
                        self.eval(r, fr, gl, depth)
                    }
                    _ => None,
                }
            }
            _ => None,
        }
    }

    // ---------------------------------------------------------------------------------------- initialisers
    /// scalar slots of a type in declaration order
    fn slots(&self, t: &Ty, out: &mut Vec<T>) -> Option<()> {
        match t {
            Ty::S(s) => out.push(*s),
            Ty::Enum(k) => out.push(self.types.enums.get(k)?.0),
            Ty::V(s, n) => out.extend(std::iter::repeat(*s).take(*n)),
            Ty::M(s, r, c) => out.extend(std::iter::repeat(*s).take(r * c)),
            Ty::Struct(k) => {
                for (_, mt) in self.types.structs.get(k)?.clone() {
                    self.slots(&mt, out)?;
                }
            }
            Ty::Arr(e, n) => {
                for _ in 0..*n {
                    self.slots(e, out)?;
                }
            }
            Ty::Void => return None,
        }
        Some(())
    }

    fn flatten_value(v: &VV, out: &mut Vec<V>) {
        match v {
            VV::S(x) => out.push(*x),
            VV::V(xs) | VV::M(_, _, xs) => out.extend(xs.iter().copied()),
            VV::St(xs) | VV::Ar(xs) => xs.iter().for_each(|x| Self::flatten_value(x, out)),
        }
    }

    /// leaves of a `{…}` initialiser, each with the scalar kinds of its own components
    fn flatten_init(&self, i: &Sx, fr: &mut Frame, gl: &mut HashMap<String, VV>, depth: u32, out: &mut Vec<(T, V)>) -> Option<()> {
        if i.head() == "agg" {
            for it in i.args() {
                self.flatten_init(it, fr, gl, depth, out)?;
            }
            return Some(());
        }
        let t = self.type_of(i, fr)?;
        let v = self.eval(i, fr, gl, depth)?;
        let mut kinds = Vec::new();
        self.slots(&t, &mut kinds)?;
        let mut vals = Vec::new();
        Self::flatten_value(&v, &mut vals);
        if kinds.len() != vals.len() {
            return None;
        }
        out.extend(kinds.into_iter().zip(vals));
        Some(())
    }

    fn fill(&self, t: &Ty, src: &mut std::vec::IntoIter<(T, V)>) -> Option<VV> {
        let mut one = |to: T| -> Option<V> {
            let (from, v) = src.next()?;
            if from == to { Some(v) } else { cast_val(to, v) }
        };
        Some(match t {
            Ty::S(s) => VV::S(one(*s)?),
            Ty::Enum(k) => VV::S(one(self.types.enums.get(k)?.0)?),
            Ty::V(s, n) => VV::V((0..*n).map(|_| one(*s)).collect::<Option<Vec<V>>>()?),
            Ty::M(s, r, c) => VV::M(*r, *c, (0..r * c).map(|_| one(*s)).collect::<Option<Vec<V>>>()?),
            Ty::Struct(k) => {
                let members = self.types.structs.get(k)?.clone();
                let mut xs = Vec::new();
                for (_, mt) in members {
                    xs.push(self.fill(&mt, src)?);
                }
                VV::St(xs)
            }
            Ty::Arr(e, n) => {
                let mut xs = Vec::new();
                for _ in 0..*n {
                    xs.push(self.fill(e, src)?);
                }
                VV::Ar(xs)
            }
            Ty::Void => return None,
        })
    }

    fn init_value(&self, t: &Ty, i: &Sx, fr: &mut Frame, gl: &mut HashMap<String, VV>, depth: u32) -> Option<VV> {
        if i.head() != "agg" {
            return self.eval_as(t, i, fr, gl, depth);
        }
        let mut leaves = Vec::new();
        self.flatten_init(i, fr, gl, depth, &mut leaves)?;
        let mut it = leaves.into_iter();
        let v = self.fill(t, &mut it)?;
        if it.next().is_some() {
            return None;
        }
        Some(v)
    }

    // ---------------------------------------------------------------------------------------- statements
    fn cond(&self, e: &Sx, fr: &mut Frame, gl: &mut HashMap<String, VV>, depth: u32) -> Option<bool> {
        if e.head() == "none" {
            return Some(true);
        }
        match self.arith(&self.type_of(e, fr)?)? {
            Ty::S(_) => {}
            _ => return None,
        }
        match self.eval_as(&Ty::S(T::Bool), e, fr, gl, depth)? {
            VV::S(V::B(x)) => Some(x),
            _ => None,
        }
    }

    fn decls(&self, items: &[Sx], fr: &mut Frame, gl: &mut HashMap<String, VV>, depth: u32) -> Option<()> {
        for d in items {
            let n = d.args()[0].atom();
            let t = self.ty(&d.args()[1])?;
            let v = match d.args().get(2) {
                Some(i) => self.init_value(&t, i, fr, gl, depth)?,
                None => self.types.undef(&t)?,
            };
            fr.vals.insert(n.to_string(), v);
        }
        Some(())
    }

    fn collect_decls(&self, s: &Sx, out: &mut HashMap<String, Ty>) -> Option<()> {
        if let Sx::L(items) = s {
            if s.head() == "var" || s.head() == "decl" {
                for d in s.args() {
                    if d.head() == "d" {
                        out.insert(d.args()[0].atom().to_string(), self.ty(&d.args()[1])?);
                    }
                }
            }
            for i in items {
                self.collect_decls(i, out)?;
            }
        }
        Some(())
    }

    pub fn exec(&self, s: &Sx, fr: &mut Frame, gl: &mut HashMap<String, VV>, depth: u32) -> Option<VFlow> {
        let r = self.exec_inner(s, fr, gl, depth);
        if r.is_none() {
            vnote(format!("text stmt: {}", s.show()));
        }
        r
    }

    fn exec_inner(&self, s: &Sx, fr: &mut Frame, gl: &mut HashMap<String, VV>, depth: u32) -> Option<VFlow> {
        let x = s.args();
        match s.head() {
            "expr" => {
                self.type_of(&x[0], fr)?;
                self.eval(&x[0], fr, gl, depth)?;
                Some(VFlow::Normal)
            }
            "var" => {
                self.decls(x, fr, gl, depth)?;
                Some(VFlow::Normal)
            }
            "block" => {
                for st in x {
                    match self.exec(st, fr, gl, depth)? {
                        VFlow::Normal => {}
                        other => return Some(other),
                    }
                }
                Some(VFlow::Normal)
            }
            "if" => {
                if self.cond(&x[0], fr, gl, depth)? { self.exec(&x[1], fr, gl, depth) } else { Some(VFlow::Normal) }
            }
            "ifelse" => {
                if self.cond(&x[0], fr, gl, depth)? { self.exec(&x[1], fr, gl, depth) } else { self.exec(&x[2], fr, gl, depth) }
            }
            "for" | "while" => {
                let (cond, inc, body) = if s.head() == "for" {
                    match x[0].head() {
                        "none" => {}
                        "e" => {
                            self.eval(&x[0].args()[0], fr, gl, depth)?;
                        }
                        "decl" => self.decls(x[0].args(), fr, gl, depth)?,
                        _ => return None,
                    }
                    (&x[1], Some(&x[2]), &x[3])
                } else {
                    (&x[0], None, &x[1])
                };
                for _ in 0..FUEL {
                    if !self.cond(cond, fr, gl, depth)? {
                        return Some(VFlow::Normal);
                    }
                    match self.exec(body, fr, gl, depth)? {
                        VFlow::Break => return Some(VFlow::Normal),
                        VFlow::Ret(v) => return Some(VFlow::Ret(v)),
                        _ => {}
                    }
                    if let Some(i) = inc {
                        if i.head() != "none" {
                            self.eval(i, fr, gl, depth)?;
                        }
                    }
                }
                None
            }
            "dowhile" => {
                for _ in 0..FUEL {
                    match self.exec(&x[0], fr, gl, depth)? {
                        VFlow::Break => return Some(VFlow::Normal),
                        VFlow::Ret(v) => return Some(VFlow::Ret(v)),
                        _ => {}
                    }
                    if !self.cond(&x[1], fr, gl, depth)? {
                        return Some(VFlow::Normal);
                    }
                }
                None
            }
            "break" => Some(VFlow::Break),
            "continue" => Some(VFlow::Continue),
            "ret" => {
                if x.is_empty() {
                    Some(VFlow::Ret(None))
                } else {
                    let rt = fr.ret.clone();
                    let v = self.eval_as(&rt, &x[0], fr, gl, depth)?;
                    Some(VFlow::Ret(Some(v)))
                }
            }
            "empty" => Some(VFlow::Normal),
            "case" => self.exec(&x[1], fr, gl, depth),
            "default" => self.exec(&x[0], fr, gl, depth),
            "switch" => {
                if x[1].head() != "block" {
                    return None;
                }
                let tc = self.type_of(&x[0], fr)?;
                let t = match self.arith(&tc)? {
                    Ty::S(T::Lit) | Ty::S(T::Bool) => Ty::S(T::Int),
                    Ty::S(k) => Ty::S(k),
                    _ => return None,
                };
                let v = self.eval_as(&t, &x[0], fr, gl, depth)?;
                enum Item<'s> {
                    Case(&'s Sx),
                    Default,
                    Stmt(&'s Sx),
                }
                fn flat<'s>(s: &'s Sx, out: &mut Vec<Item<'s>>) {
                    match s.head() {
                        "case" => {
                            out.push(Item::Case(&s.args()[0]));
                            flat(&s.args()[1], out)
                        }
                        "default" => {
                            out.push(Item::Default);
                            flat(&s.args()[0], out)
                        }
                        "empty" => {}
                        _ => out.push(Item::Stmt(s)),
                    }
                }
                let mut items = Vec::new();
                for s in x[1].args() {
                    flat(s, &mut items);
                }
                let mut start = None;
                for (i, it) in items.iter().enumerate() {
                    if let Item::Case(e) = it {
                        if self.eval_as(&t, e, fr, gl, depth)? == v {
                            start = Some(i);
                            break;
                        }
                    }
                }
                if start.is_none() {
                    start = items.iter().position(|it| matches!(it, Item::Default));
                }
                if let Some(i) = start {
                    for it in &items[i..] {
                        if let Item::Stmt(s) = it {
                            match self.exec(s, fr, gl, depth)? {
                                VFlow::Normal => {}
                                VFlow::Break => return Some(VFlow::Normal),
                                other => return Some(other),
                            }
                        }
                    }
                }
                Some(VFlow::Normal)
            }
            _ => None,
        }
    }

    fn call(&self, f: &'a Sx, vals: &[VV], this: Option<(String, VV)>, gl: &mut HashMap<String, VV>, depth: u32) -> Option<(Option<VV>, Vec<VV>, Option<VV>)> {
        if depth == 0 {
            return None;
        }
        let params = f.args()[2].args();
        if params.len() != vals.len() {
            return None;
        }
        let mut fr = Frame { vals: HashMap::new(), types: HashMap::new(), ret: self.ty(&f.args()[1])?, this };
        self.collect_decls(&f.args()[3], &mut fr.types)?;
        let mut names = Vec::new();
        for (p, v) in params.iter().zip(vals) {
            let n = p.args()[0].atom().to_string();
            let pt = self.ty(&p.args()[2])?;
            // HLSL: an `out` parameter is uninitialised on entry
            let v0 = if dir_of(p.args()[1].atom()) == 1 { self.types.undef(&pt)? } else { v.clone() };
            fr.types.insert(n.clone(), pt);
            fr.vals.insert(n.clone(), v0);
            names.push(n);
        }
        let fl = self.exec(&f.args()[3], &mut fr, gl, depth - 1)?;
        let ret = match fl {
            VFlow::Ret(Some(v)) => Some(v),
            _ => None,
        };
        Some((ret, names.iter().map(|n| fr.vals.get(n).cloned().unwrap_or(VV::S(V::Void))).collect(), fr.this.map(|t| t.1)))
    }

    pub fn init_globals(&self) -> Option<HashMap<String, VV>> {
        let mut gl = HashMap::new();
        for (n, t, init) in &self.globals {
            let v = match init {
                Some(i) => {
                    let mut fr = Frame { vals: HashMap::new(), types: HashMap::new(), ret: Ty::Void, this: None };
                    let mut scratch = gl.clone();
                    self.init_value(t, i, &mut fr, &mut scratch, 1)?
                }
                None => self.types.undef(t)?,
            };
            gl.insert(n.clone(), v);
        }
        Some(gl)
    }

    /// `order`: names of the globals to report, in the caller's order; the function must have exactly one overload by that name
    pub fn run(&self, name: &str, vals: &[VV], order: &[String]) -> Option<VOutcome> {
        let mut gl = self.init_globals()?;
        let cands = self.funcs.get(name)?;
        if cands.len() != 1 {
            vnote(format!("text: {} definitions of {}", cands.len(), name));
            return None;
        }
        let (ret, params, _) = self.call(cands[0], vals, None, &mut gl, DEPTH)?;
        Some(VOutcome { ret, params, globals: order.iter().map(|n| gl.get(n).cloned().unwrap_or(VV::S(V::Void))).collect() })
    }
}

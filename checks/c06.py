"""C06 — binding slots are allocated completely, contiguously and without overlap."""
T = "RsslVerif.Thm.C06."


def nontrivial(req, obs):
    # at least two bound declarations
    return obs.count(",i") + obs.count(",n") >= 2


def shrink(req):
    f = req.split("\t")
    decls = f[3].split(";")
    # drop one user declaration at a time (keep the fixed first/last root definitions)
    for i in range(1, len(decls) - 1):
        yield "\t".join(f[:3] + [";".join(decls[:i] + decls[i + 1:])])


SPEC = {
    "id": "C06",
    "gens": ["SlotTables"],
    "lean_modules": ["RsslVerif.Thm.C06"],
    "theorems": [T + n for n in [
        "slice_cost_table", "alloc_shape_as_modelled", "params_of_targets_ok", "params_of_targets", "index_ranges_tile",
        "inline_offsets_tile", "binding_complete", "inline_buffers_correct", "assign_ok_of_root_kinds"]],
    "harness": "c06",
    "level_text": "Proof: the allocator model (a fold with two counters) is proved, for every declaration sequence, default group "
                  "and parameter set compile() can build, to hand out per-group index ranges that tile [0,total) in declaration "
                  "order with the required lengths, 8-byte inline offsets that tile the inline block, one sorted inline block "
                  "per group placed after all index slots, and bindings for exactly the bindable declarations. The tables are "
                  "re-extracted from the source each run and the model is compared with the real assign_api_bindings on "
                  "generated declaration sequences, with the property's own overlap/gap/order oracle run on the real result.",
    "nontrivial": nontrivial,
    "shrink": shrink,
    "rule": "requests = (parameter set, default group, declaration sequence) run through the real front end and "
            "Module::assign_api_bindings; exhaustive single declarations over every bindable kind x length x group x "
            "static-sampler, exhaustive pairs (thorough: full class alphabet) and random sequences of length 3-12, each on "
            "the 4 parameter sets x default group 0..2; non-trivial = at least two declarations received a binding",
    "trusted_base": [
        "Lean 4.33 kernel; axioms propext / Classical.choice / Quot.sound only (audited by #print axioms)",
        "tools/translate.py (SlotTables: ObjectType variants, slice_cost arm, is_buffer_address, get_register_type, "
        "AssignBindingsParams::default, compile()'s binding_params) — re-run on /repo's working tree every time",
        "hand-written Model/Slots.lean mirrors process_definition; tied to the code by the correspondence run only",
        "Spec/Slots.lean: our reading of the property (which kinds are doubled on Metal; 8 bytes per buffer address)",
    ],
    "assumptions": [
        "u32 arithmetic is modelled by Nat: statements apply while every group's running total stays below 2^32",
        "array lengths are the ones the type checker records (evaluated constant expressions)",
    ],
}

import RsslVerif.Lemmas.MacroTame
/-!
# `tameRun` is sound: what it accepts has a tame derivation

So membership in the class of `Thm.C12.tame_refines_spec` is decidable: run `tameRun`.
-/
namespace RsslVerif.Lemmas.MacroTameRun
open RsslVerif.Model.Macro RsslVerif.Model.MacroTame RsslVerif.Lemmas.MacroTame RsslVerif.Lemmas.MacroHang

def entryNames (env : List Entry) : List String := env.map (·.m.name)

theorem names_disable (env : List Entry) (mi : Nat) : entryNames (disable env mi) = entryNames env := by
  unfold entryNames disable
  apply List.ext_getElem?
  intro j
  simp only [List.getElem?_map, List.getElem?_modify]
  cases env[j]? with
  | none => rfl
  | some e => simp only [Option.map_some]; split <;> rfl

theorem findName_spec (n : String) (env : List Entry) (i mi : Nat) (e : Entry)
    (h : findName n env i = some (mi, e)) : i ≤ mi ∧ env[mi - i]? = some e ∧ e.m.name = n := by
  induction env generalizing i with
  | nil => simp [findName] at h
  | cons x xs ih =>
    unfold findName at h
    split at h
    · rename_i hn
      simp only [Option.some.injEq, Prod.mk.injEq] at h
      obtain ⟨rfl, rfl⟩ := h
      exact ⟨Nat.le_refl _, by simp, hn⟩
    · obtain ⟨h1, h2, h3⟩ := ih (i + 1) h
      refine ⟨by omega, ?_, h3⟩
      have : mi - i = (mi - (i + 1)) + 1 := by omega
      rw [this, List.getElem?_cons_succ]
      exact h2

theorem selects_of_selectIdx (env : List Entry) (n : String) (mi : Nat) (e : Entry) (hnd : (entryNames env).Nodup)
    (h : selectIdx env n = some (mi, e)) : Selects env n mi e := by
  unfold selectIdx at h
  split at h
  · rename_i mi' e' hf
    split at h
    · cases h
    · rename_i hd
      simp only [Option.some.injEq, Prod.mk.injEq] at h
      obtain ⟨rfl, rfl⟩ := h
      obtain ⟨_, hget, hname⟩ := findName_spec n env 0 mi' e' hf
      simp only [Nat.sub_zero] at hget
      refine ⟨hget, hname, by simpa using hd, ?_⟩
      intro j e2 hj hn2
      have hlt : j < (entryNames env).length := by
        simp only [entryNames, List.length_map]
        exact (List.getElem?_eq_some_iff.mp hj).1
      have h1 : (entryNames env)[j]? = (entryNames env)[mi']? := by
        simp only [entryNames, List.getElem?_map, hj, hget, Option.map_some, hn2, hname]
      exact (List.getElem?_inj hlt hnd).mp h1
  · cases h

theorem kept_of_keptB (env : List Entry) (t : PTok) (rest : List PTok) (h : keptB env t rest = true) :
    Kept env t rest := by
  unfold keptB at h
  constructor
  · intro hc; simp [hc] at h
  · intro n hn e he hname
    simp only [hn, List.all_eq_true] at h
    have := h e he
    simp only [Bool.or_eq_true, bne_iff_ne, ne_eq, Bool.and_eq_true, Bool.not_eq_true'] at this
    rcases this with (h1 | h1) | h1
    · exact absurd hname h1
    · exact Or.inl h1
    · exact Or.inr h1

theorem onlyDisabled_of_B (env : List Entry) (l : List PTok) (h : onlyDisabledB env l = true) :
    OnlyDisabled env l := by
  unfold onlyDisabledB at h
  rw [List.all_eq_true] at h
  intro t ht n hn e he hname
  have := h t ht
  simp only [hn, List.all_eq_true] at this
  have := this e he
  simp only [Bool.or_eq_true, bne_iff_ne, ne_eq] at this
  rcases this with h1 | h1
  · exact absurd hname h1
  · exact h1

theorem lastTok_ws (l : List PTok) (h : ∀ t ∈ l, t.tok.isWhitespace = true) : lastTok l = none := by
  induction l with
  | nil => rfl
  | cons t r ih =>
    simp only [lastTok, ih (fun x hx => h x (by simp [hx])), h t (by simp), if_true]

theorem lastTok_split (R0 R1 : List PTok) (g : PTok) (hg : g.tok.isWhitespace = false)
    (h : ∀ t ∈ R1, t.tok.isWhitespace = true) : lastTok (R0 ++ g :: R1) = some g.tok := by
  induction R0 with
  | nil => simp [lastTok, lastTok_ws R1 h, hg]
  | cons t r ih => simp [lastTok, ih]

theorem noFireFrom_spec (g : String) (mi : Nat) (env : List Entry) (k : Nat) (h : noFireFrom g mi env k = true) :
    ∀ j e, env[j]? = some e → e.m.name = g → e.m.isFunction = true → e.disabled = true ∨ k + j = mi := by
  induction env generalizing k with
  | nil => intro j e hj; simp at hj
  | cons x xs ih =>
    simp only [noFireFrom, Bool.and_eq_true, Bool.or_eq_true, bne_iff_ne, ne_eq, Bool.not_eq_true',
      beq_iff_eq] at h
    intro j e hj hn hf
    cases j with
    | zero =>
      simp only [List.getElem?_cons_zero, Option.some.injEq] at hj
      subst hj
      rcases h.1 with ((h1 | h1) | h1) | h1
      · exact absurd hn h1
      · rw [hf] at h1; cases h1
      · exact Or.inl h1
      · exact Or.inr (by omega)
    | succ j' =>
      have := ih (k + 1) h.2 j' e (by simpa using hj) hn hf
      rcases this with h1 | h1
      · exact Or.inl h1
      · exact Or.inr (by omega)

theorem noFire_of_B (env : List Entry) (mi : Nat) (R rest : List PTok) (h : noFireB env mi R rest = true) :
    NoFire env mi R rest := by
  intro R0 g b R1 hR hws hsp j e hj hn hf
  unfold noFireB at h
  simp only [hsp, if_true] at h
  rw [hR, lastTok_split R0 R1 ⟨.id g, b⟩ rfl hws] at h
  simp only at h
  have := noFireFrom_spec g mi env 0 h j e hj hn hf
  simpa using this

theorem mapO_spec {α β : Type} (f : α → Option β) (l : List α) (r : List β) (h : mapO f l = some r) :
    r.length = l.length ∧ ∀ (i : Nat) (a : α) (b : β), l[i]? = some a → r[i]? = some b → f a = some b := by
  induction l generalizing r with
  | nil => simp only [mapO, Option.some.injEq] at h; subst h; exact ⟨rfl, fun i a b ha => by simp at ha⟩
  | cons x xs ih =>
    unfold mapO at h
    split at h
    · cases h
    · rename_i b0 hb0
      split at h
      · cases h
      · rename_i bs hbs
        cases h
        obtain ⟨h1, h2⟩ := ih bs hbs
        refine ⟨by simp [h1], ?_⟩
        intro i a b ha hb
        cases i with
        | zero => simp at ha hb; subst ha; subst hb; exact hb0
        | succ j => exact h2 j a b (by simpa using ha) (by simpa using hb)

/-- **`tameRun` is sound.** -/
theorem tameRun_sound (f : Nat) : ∀ (env : List Entry) (l out : List PTok), (entryNames env).Nodup →
    tameRun f env l = some out → Tame env l out := by
  induction f with
  | zero => intro env l out _ h; simp [tameRun] at h
  | succ f ih =>
    intro env l out hnd h
    cases l with
    | nil => simp only [tameRun, Option.some.injEq] at h; subst h; exact Tame.nil env
    | cons t rest =>
      have keepCase : (if keptB env t rest = true then
            match tameRun f env rest with
            | some out => some (t :: out)
            | none => none
          else none) = some out → Tame env (t :: rest) out := by
        intro hk
        split at hk
        · rename_i hkept
          split at hk
          · rename_i o ho
            cases hk
            exact Tame.keep env t rest o (kept_of_keptB env t rest hkept) (ih env rest o hnd ho)
          · cases hk
        · cases hk
      unfold tameRun at h
      simp only at h
      split at h
      · rename_i n hn
        split at h
        · exact keepCase h
        · rename_i mi e hsel
          split at h
          · exact keepCase h
          · rename_i rest' args hra
            split at h
            · cases h
            · rename_i args' hargs
              split at h
              · rename_i hod
                split at h
                · cases h
                · rename_i body' hsub
                  split at h
                  · cases h
                  · rename_i R hR
                    split at h
                    · rename_i hnf
                      split at h
                      · rename_i o ho
                        cases h
                        obtain ⟨hlen, hpt⟩ := mapO_spec _ _ _ hargs
                        obtain ⟨tt, tb⟩ := t
                        simp only at hn
                        subst hn
                        refine Tame.invoke env n tb rest mi e rest' args args' body' R o
                          (selects_of_selectIdx env n mi e hnd hsel) hra hlen ?_ ?_ hsub ?_
                          (noFire_of_B env mi R rest' hnf) (ih env rest' o hnd ho)
                        · intro i a a' ha ha'
                          exact ih env a a' hnd (hpt i a a' ha ha')
                        · intro a' ha'
                          rw [List.all_eq_true] at hod
                          exact onlyDisabled_of_B env a' (hod a' ha')
                        · exact ih (disable env mi) body' R (by rw [names_disable]; exact hnd) hR
                      · cases h
                    · cases h
              · cases h
      · exact keepCase h

/-! ## object-like macros: every expansion is tame -/

theorem findName_none (n : String) (env : List Entry) (i : Nat) (h : findName n env i = none) :
    ∀ e ∈ env, e.m.name ≠ n := by
  induction env generalizing i with
  | nil => intro e he; cases he
  | cons x xs ih =>
    unfold findName at h
    split at h
    · cases h
    · rename_i hn
      intro e he
      rcases List.mem_cons.mp he with rfl | he
      · exact hn
      · exact ih (i + 1) h e he

theorem selectIdx_none (env : List Entry) (n : String) (hnd : (entryNames env).Nodup) (h : selectIdx env n = none) :
    ∀ e ∈ env, e.m.name = n → e.disabled = true := by
  unfold selectIdx at h
  split at h
  · rename_i mi e0 hf
    split at h
    · rename_i hd
      obtain ⟨_, hget, hname⟩ := findName_spec n env 0 mi e0 hf
      simp only [Nat.sub_zero] at hget
      intro e he hn
      obtain ⟨j, hj⟩ := List.mem_iff_getElem?.mp he
      have hlt : j < (entryNames env).length := by
        simp only [entryNames, List.length_map]
        exact (List.getElem?_eq_some_iff.mp hj).1
      have h1 : (entryNames env)[j]? = (entryNames env)[mi]? := by
        simp only [entryNames, List.getElem?_map, hj, hget, Option.map_some, hn, hname]
      have := (List.getElem?_inj hlt hnd).mp h1
      subst this
      rw [hget] at hj
      cases hj
      exact hd
    · cases h
  · rename_i hf
    intro e he hn
    exact absurd hn (findName_none n env 0 hf e he)

/-- a table of object-like macros whose replacement lists contain no `##` (and no parameter) -/
structure ObjTable (env : List Entry) : Prop where
  nodup : (entryNames env).Nodup
  obj : ∀ e ∈ env, e.m.isFunction = false
  noConcat : ∀ e ∈ env, NoConcat e.m.body
  noArg : ∀ e ∈ env, ∀ t ∈ e.m.body, ∀ i, t.tok ≠ .arg i

theorem objTable_disable {env : List Entry} (h : ObjTable env) (mi : Nat) : ObjTable (disable env mi) := by
  have hm : ∀ e ∈ disable env mi, ∃ e0 ∈ env, e.m = e0.m := by
    intro e he
    obtain ⟨e0, he0, hm0, _⟩ := mem_disable he
    exact ⟨e0, he0, hm0⟩
  refine ⟨by rw [names_disable]; exact h.nodup, ?_, ?_, ?_⟩
  · intro e he; obtain ⟨e0, he0, hm0⟩ := hm e he; rw [hm0]; exact h.obj e0 he0
  · intro e he; obtain ⟨e0, he0, hm0⟩ := hm e he; rw [hm0]; exact h.noConcat e0 he0
  · intro e he; obtain ⟨e0, he0, hm0⟩ := hm e he; rw [hm0]; exact h.noArg e0 he0

/-- **With object-like macros only, every token list has a tame expansion** -- also when the macros refer to
themselves and to each other: the recursion is on the number of enabled entries. -/
theorem tame_object_total (n : Nat) : ∀ (env : List Entry), enabledCount env = n → ObjTable env →
    ∀ l, NoConcat l → ∃ out, Tame env l out := by
  induction n using Nat.strongRecOn with
  | ind n ih =>
    intro env hcount htab l
    induction l with
    | nil => intro _; exact ⟨[], Tame.nil env⟩
    | cons t rest ihl =>
      intro hnc
      obtain ⟨outr, hrest⟩ := ihl (fun x hx => hnc x (by simp [hx]))
      have keepCase : (∀ k, t.tok = .id k → ∀ e ∈ env, e.m.name = k → e.disabled = true) →
          ∃ out, Tame env (t :: rest) out := by
        intro hk
        refine ⟨t :: outr, Tame.keep env t rest outr ⟨hnc t (by simp), ?_⟩ hrest⟩
        intro k hk' e he hn
        exact Or.inl (hk k hk' e he hn)
      cases htk : t.tok with
      | id k =>
        cases hsel : selectIdx env k with
        | none =>
          apply keepCase
          intro k' hk' e he hn
          rw [htk] at hk'
          cases hk'
          exact selectIdx_none env k htab.nodup hsel e he hn
        | some p =>
          obtain ⟨mi, e⟩ := p
          have hs := selects_of_selectIdx env k mi e htab.nodup hsel
          have hmem : e ∈ env := List.mem_of_getElem? hs.get
          have hlt := enabledCount_disable_lt env mi e hs.get hs.enabled
          obtain ⟨R, hR⟩ := ih (enabledCount (disable env mi)) (by omega) (disable env mi) rfl
            (objTable_disable htab mi) e.m.body (htab.noConcat e hmem)
          obtain ⟨tt, tb⟩ := t
          simp only at htk
          subst htk
          refine ⟨R ++ outr, Tame.invoke env k tb rest mi e rest [] [] e.m.body R outr hs ?_ rfl ?_ ?_ ?_ hR ?_ hrest⟩
          · simp [readArgs, htab.obj e hmem]
          · intro i a a' ha; simp at ha
          · intro a' ha'; cases ha'
          · exact RsslVerif.Lemmas.MacroSubst.substitute_noargs _ _ (htab.noArg e hmem)
          · intro R0 g b R1 _ _ _ j e' hj _ hf
            rw [htab.obj e' (List.mem_of_getElem? hj)] at hf
            cases hf
      | _ =>
        apply keepCase
        intro k hk
        rw [htk] at hk
        cases hk


end RsslVerif.Lemmas.MacroTameRun

"""C02 — MSL export preserves meaning; globals are threaded to exactly the functions that need them."""
import re

T = "RsslVerif.Thm.C02."
TS = "RsslVerif.Thm.C02Sem."
TV = "RsslVerif.Thm.C02Vec."
TD = "RsslVerif.Thm.C02Dup."
TX = "RsslVerif.Thm.C02Text."
TC = "RsslVerif.Thm.C02Call."
TN = "RsslVerif.Thm.C02Names."
# the text leg: the tree C02 reasons about reaches the user as text printed by rssl_formatter (Target::Msl).  Printing and
# reading back is property C09's; its table obligations (re-extracted precedence / associativity / side tables of
# format_subexpression, the parser's levels, fingerprints of the hand-modelled formatter functions) and its round-trip theorems
# are C02 obligations too: a change of the formatter's parenthesis rule breaks them here as well (seeded mutant C02-4)
C09_CITED = ["tables_agree", "assoc_agrees", "ternary_level", "unary_tables_agree", "paren_rule_matches_grammar",
             "roundtrip_expr_partial", "roundtrip_subexpr_partial", "roundtrip_xexpr_partial", "roundtrip_stmt_partial",
             "roundtrip_block_partial", "roundtrip_decl_partial", "negative_literal_binds_like_minus", "source_fingerprints"]
TEXT_THEOREMS = ["right_nested_chain_regrouped_changes_meaning"]
CALL_THEOREMS = ["user_call_arms_as_modelled", "binds_every_parameter_of_arm", "emitted_call_binds_every_parameter",
                 "every_call_type_has_an_arm", "emitted_call_unchanged_without_globals", "object_counted_as_argument_drops_a_default",
                 "emittedArgCount_eq"]
# names: the parameter that carries a global has the global's LEAF name; NameMap::build reserves the names of all used functions /
# globals whatever their namespace (Gen.NameReserve, plugin of C04) and C15's theorem about the local pass is an obligation here
NAME_THEOREMS = ["used_names_reserved_regardless_of_namespace", "usedNames_any_scope", "threaded_parameter_name_is_no_local"]
C15_CITED = ["locals_apart_from_used"]
DUP_THEOREMS = ["dup_sites_guarded", "guard_rows_are_ir_constructors", "repeatable_operand_is_pure_of_sound", "repeatable_operand_is_pure",
                "struct_cast_meaning_kept", "struct_cast_clauses", "struct_cast_refuses_iff", "tested_operand_is_pure_of_sound",
                "rem_assign_operands_are_pure", "wf_toD", "repeatable_operand_is_pure_ir_of_sound",
                "repeatable_operand_is_pure_ir", "rem_assign_operands_are_pure_ir", "index_blind_test_repeats_effect"]
VEC_THEOREMS = ["msl_exporter_vec_shape_as_modelled", "msl_swizzle_letters_are_identity", "msl_vector_type_names_roundtrip",
                "vec1_is_named_as_scalar", "vec_shape_sound", "gen_sem_msl_vec_expr", "gen_sem_msl_vec_assign", "msl_vector_op_literal_in_concrete_type",
                "literal_vector_cast_panics_msl",
                "mulMV_toMetal", "ctor_from_scalars_transposes", "metal_subscript_is_a_column",
                "cast_to_vec1_selects_first_component", "msl_float_remainder_assignment_keeps_meaning"]
SEM_THEOREMS = ["msl_exporter_shape_as_modelled", "msl_op_table_is_identity", "msl_literal_arms_same_as_hlsl", "msl_genLiteral_eq", "msl_literal_never_panics",
                "gen_sem_expr", "gen_sem_expr_plain", "gen_sem_args", "gen_sem_stmt", "gen_sem_stmts", "gen_sem_func",
                "trampoline_copy_semantics", "gen_sem_program", "ir_frame", "gen_sem_signatures",
                "float_remainder_assignment_exported",
                "int_min_literal_changes_meaning", "literal_arithmetic_changes_meaning", "inout_copy_in_order_changes_meaning"]

POSITIONS = ["xs", "vi", "ai", "bl", "ic", "ib", "ec", "et", "ee", "fi", "fd", "fc", "fa", "fb", "wc", "wb", "db", "dc",
             "sx", "sb", "rt", "tc", "tt", "tf", "sq", "sw", "ct", "si", "ia", "cs", "op", "wr"]
CLASSES = ["S@plain", "G@array", "S@struct", "E@cbuffer", "Eo@texture", "E@texarray"]


def nontrivial(req, obs):
    # at least two calls between generated functions and one function that receives an implicit parameter
    f = req.split("\t")
    if f[0] == "C02.dup":
        # the module contains a cast to a struct and the exporter decided about it
        return len(f) > 2 and f[2] != "-" and obs.startswith(("casts ", "diagnostic "))
    if f[0] == "C02.call":
        # a call that leaves out a defaulted argument of a callee that receives a parameter for a global
        return obs.startswith("calls ") and len(f) > 2 and any(
            e.split(" ")[3].count("d") > 0 and int(e.split(" ")[4]) > 0
            and len(e.split(" ")[3].replace("-", "")) + (1 if e.split(" ")[1] == "MethodExternal" else 0) > int(e.split(" ")[2])
            for e in f[2].split(" ;; ") if len(e.split(" ")) == 5)
    if f[0] == "C02.vex":
        return obs.startswith("vast ") and "(" in obs[5:40]
    if f[0] == "C02.vfn":
        # vector stream: the function was exported, is inside both evaluators and ran to completion on some vector
        return obs.startswith("ast ") and " r=" in obs
    if f[0] == "C02.gen":
        # semantic stream: a supported function whose tree has a statement beyond a single return
        return obs.startswith("ast ") and obs.count("(") > 12
    if f[0] != "C02.thread" or len(f) < 4:
        return obs.startswith("defs:")
    calls = len(re.findall(r"\.c\d+", f[2]))
    return calls >= 2 and bool(re.search(r"[,(]&?g_\d+[,)]", obs.split("|")[0]))


def finding_key(req, obs, detail):
    if req.startswith(("C02.gen\t", "C02.vfn\t", "C02.vex\t", "C02.dup\t", "C02.call\t")) and not obs and not detail:
        # probe of vlib.shrink: failures of the semantic stream are keyed by their input, so a smaller failing input is welcome
        return req
    d = (detail or "")[5:]
    d = re.sub(r":\d+:", ":", d)          # panic line numbers move with unrelated edits
    d = re.sub(r"panic \S*?((?:msl|ir|typer|parser|formatter|preprocess|text|ast|hlsl)/src/)", r"panic \1", d)
    first = d.split(" ## ")[0]
    if req.startswith(("C02.vfn\t", "C02.vex\t")) and first.startswith("panic "):
        # a panic of the exporter is keyed by its site and message
        return re.sub(r"\d+", "N", first)
    if req.startswith(("C02.vfn\t", "C02.vex\t")) and not first.startswith("class:"):
        # the specific input: source text, function and argument vectors (the IR is derived from the source)
        return "input " + "\t".join(req.split("\t")[1:4]) + " :: " + first[:160]
    if first.startswith("class:"):
        # semantic stream: a difference attributed to one of the described readings (see notes/C02.md) is keyed by its class
        return first
    return f"{req} :: {first}"


def _parse(req):
    f = req.split("\t")
    gs = [] if f[1] in ("", "-") else f[1].split(";")
    fs = [] if f[2] in ("", "-") else [x.split(":") for x in f[2].split(";")]
    return f, gs, fs


def _show(f, gs, fs, entry):
    return "\t".join([f[0], ";".join(gs) or "-", ";".join(":".join(x) for x in fs) or "-", entry])


def _shrink_gen(req):
    f = req.split("\t")
    if len(f) < 4:
        return
    src, fn, vecs = f[1], f[2], f[3]
    # one argument vector
    vs = vecs.split(";")
    if len(vs) > 1:
        for v in vs:
            yield "\t".join(["C02.gen", src, fn, v, "-", "-"])
    # drop one source line (statements of this generator are one per line; a candidate that no longer compiles is a SKIP)
    lines = src.split("\\n")
    for k in range(len(lines)):
        if lines[k].strip() in ("", "{", "}") or lines[k].lstrip().startswith(("static ", "return ")) or "(" in lines[k] and ")" in lines[k] and lines[k].rstrip().endswith(")") and not lines[k].startswith(" "):
            continue
        yield "\t".join(["C02.gen", "\\n".join(lines[:k] + lines[k + 1:]), fn, vecs, "-", "-"])


def shrink(req):
    if req.startswith("C02.vfn\t"):
        # structure-aware shrinker of the vector stream (one argument vector, whole definitions, statement groups)
        from checks.c01 import shrink_v
        yield from shrink_v(req)
        return
    if req.startswith("C02.gen\t"):
        yield from _shrink_gen(req)
        return
    if not req.startswith("C02.thread\t") or len(req.split("\t")) != 4:
        return
    f, gs, fs = _parse(req)
    entry = f[3]
    # drop one item
    for i, fd in enumerate(fs):
        items = [] if fd[2] == "-" else fd[2].split(",")
        for k in range(len(items)):
            rest = items[:k] + items[k + 1:]
            nf = [list(x) for x in fs]
            nf[i][2] = ",".join(rest) or "-"
            yield _show(f, gs, nf, entry)
    # drop a function nobody calls (renumber later ones)
    called = set(int(m) for fd in fs for m in re.findall(r"\.c(\d+)", fd[2]))
    for k in range(len(fs)):
        if k in called or str(k) == entry:
            continue
        nf = []
        for j, fd in enumerate(fs):
            if j == k:
                continue
            items = re.sub(r"\.c(\d+)", lambda m: ".c%d" % (int(m.group(1)) - (1 if int(m.group(1)) > k else 0)), fd[2])
            nf.append([fd[0], fd[1], items])
        ne = entry if entry == "-" or int(entry) < k else str(int(entry) - 1)
        yield _show(f, gs, nf, ne)
    # drop the last global if nothing mentions it
    if gs:
        k = len(gs) - 1
        used = any(re.search(r"g%d\b" % k, fd[2]) for fd in fs) or any(
            re.search(r"(:|,)%d(,|$)" % k, g.split("@", 1)[1]) for g in gs)
        if not used:
            yield _show(f, gs[:-1], fs, entry)


def search(ctx):
    """candidates tried on the implementation after a broken obligation: every syntactic position x every class of
    threaded global, reached directly and through a call; then the shapes around default arguments/initialisers"""
    out = []
    for pos in POSITIONS:
        for ci, cls in enumerate(CLASSES):
            if pos == "wr" and cls.split("@")[1] not in ("plain", "array", "struct"):
                continue
            out.append(f"C02.thread\tg_0:{cls}\tf_0:-:{pos}.g0;f_1:-:{pos}.c0;cs_main:i:xs.c1\t2")
            out.append(f"C02.thread\tg_0:S@plain;g_1:{cls}\tf_0:ib:xs.g1;f_1:-:{pos}.c0/_/g0;cs_main:i:xs.c1\t2")
    out.append("C02.thread\tg_0:S@plain\tf_0:d:xs.g0;f_1:-:xs.c0/_;cs_main:i:xs.c1\t2")
    out.append("C02.thread\tg_0:Sc@plain;g_1:S@plain:0\tcs_main:i:xs.g1\t0")
    # vector layer: one small function per shape-changing arm of generate_expression
    for src, args in [
        ("float f(float s) { return s.xx.y + s.xxx.z; }", "f:3f800000"),
        ("float2 f(float s, float3 v) { float2 t = s.xx; return t + (float2)v + (float2)(float)v; }", "f:3f800000,V(f:40000000 f:40400000 f:40800000)"),
        ("float3 f(float4 v, int2 i) { return (float3)v.wzyx + float3(i, 1.0f).zxy; }", "V(f:3f800000 f:40000000 f:40400000 f:40800000),V(i:00000005 i:00000007)"),
        ("float3 f(float3 v, float3 w) { return v % w; }", "V(f:3f800000 f:40000000 f:40400000),V(f:40000000 f:40400000 f:40800000)"),
        ("struct S { float3 a; int2 b; };\nint f(S s, int k) { s.b.y = k; return s.b.y + (int)s.a.z; }", "S(V(f:3f800000 f:40000000 f:40400000) V(i:00000001 i:00000002)),i:00000009"),
    ]:
        out.append("C02.vfn\t%s\tf\t%s\t-\t-" % (src, args))
    # subscripts of matrices whose type carries a modifier: refused today (UnimplementedMatrixIndex); `m[i]` is a column in Metal
    out.append("C02.vfn\tfloat3 pick(float3x3 p, float3 v)\\n{\\n    const float3x3 m = p;\\n    return m[1] + v;\\n}\\n"
               "float elem(float2x3 p)\\n{\\n    const float2x3 m = p;\\n    return m[1][0] + m[0][2];\\n}\\n\t-\t\t-\t-")
    # operand repetition: struct casts (1 / 4 / 7 elements) from every operand shape, with and without an effect in the
    # operand or in an index below it; then an effect in each operand position the exporter writes once today
    pre = ("struct I2 { int p; int q; };\\nstatic int gk = 3;\\nstatic int gcount = 0;\\n"
           "int next(int n) { gcount++; return gcount % n; }\\nint bump(int d) { gk = gk + d; return gk; }\\n")
    operands = ["x", "gk", "0", "arr[i & 3]", "p.q", "v.y", "(x + 1)", "parr[i & 1].p", "arr[(i++) & 3]", "arr[next(4)]", "parr[next(2)].q",
                "varr[(i++) & 1].y", "x++", "bump(x)", "(x = x + 1)", "(b ? x++ : x)", "(i++, x)", "arr[(i = x) & 3]"]
    shapes = ["struct S { int a; };", "struct S { int a; int b; int c[2]; };", "struct S { I2 a; I2 b[2]; int c; };", "struct S { int a; int3 w; };"]
    for sh in shapes:
        for e in operands:
            out.append("C02.vfn\t%s%s\\nS f(int x, int arr[4], inout int i, I2 p, I2 parr[2], int3 v, int3 varr[2], bool b) { S s = (S)%s; return s; }\t-\t\t-\t-"
                       % (pre, sh, e))
    for st in ["r = (int3)(x++);", "r = int3(x++, x, bump(x));", "r = (x++).xxx;", "arr[(i++) & 3] += x; r.x = arr[0] + arr[1] + arr[2] + arr[3];",
               "arr[next(4)] *= 3; r.x = arr[0] + arr[1] + arr[2] + arr[3];", "varr[(i++) & 1].zx = r.xy; r = varr[0] + varr[1];",
               "arr[next(4)]++; r.x = arr[0] + arr[1] + arr[2] + arr[3];", "r.y = (i++ > 0) ? x : bump(x);", "r = max(r, x++) + min(bump(x), r);",
               "r = select(bool3(b, !b, b), r + (int3)(x++), (int3)bump(x));", "r[(i++) & 1] += bump(x);"]:
        out.append("C02.vfn\t%sint3 f(int x, int arr[4], inout int i, int3 v, int3 varr[2], bool b) { int3 r = v; %s return r + x + i; }\t-\t\t-\t-" % (pre, st))
    # calls that leave out defaulted arguments of a callee that receives a threaded global: the three call types x 1 / 2 left out
    cpre = "static int bias = 10;\\nint viaHelper(int d) { bias = bias + d; return bias; }\\n"
    for decl, call in [
        ("struct Acc { int total; int m(int v, int w = 3) { return (total * 3 + v) * 5 + w + bias; } };", "Acc a; a.total = x; return a.m(x);"),
        ("struct Acc { int total; int m(int v = 1, int w = 2) { return (total * 3 + v) * 5 + w + bias; } };", "Acc a; a.total = x; return a.m();"),
        ("struct Acc { int total; int m(int v = 1, int w = 2) { return (total * 3 + v) * 5 + w + viaHelper(1); } };", "Acc a; a.total = x; return a.m(x) + a.m();"),
        ("struct Acc { int total; int m(int v, int w = 3, int u = bias) { return ((total * 3 + v) * 5 + w) * 7 + u; } int c(int x) { return m(x) + m(x, 4); } };",
         "Acc a; a.total = x; return a.c(x) + a.m(x);"),
        ("int fm(int v, int w = 3, int u = 4) { return (v * 5 + w) * 7 + u + bias; }", "return fm(x) + fm(x, 9);"),
        ("struct Acc { int total; int m(inout int v, int w = 3) { v = v + 1; return (total * 3 + v) * 5 + w + bias; } };", "Acc a; a.total = x; int y = x; return a.m(y) + y;"),
    ]:
        out.append("C02.vfn\t%s%s\\nint f(int x) { %s }\t-\t\t-\t-" % (cpre, decl, call))
    return out


def custom(ctx):
    """the standard run, plus a statistic: for how many programs of the semantic stream do the hypotheses of the
    statement / program theorems (Spec/SemMslWT) hold"""
    ctx.standard_run()
    gen = sorted(r for r in ctx.distinct if r.startswith("C02.gen\t") and len(r.split("\t")) == 6 and r.split("\t")[4] != "-")
    if gen:
        from collections import Counter
        ans = ctx.run_model(["C02.wt" + r[len("C02.gen"):] for r in gen])
        ctx.extra["semantic_theorem_hypotheses_hold"] = dict(Counter(ans))
        # consistency of the whole arrangement: where the oracle sees the real exporter differ from the IR, the hypotheses
        # of the theorems must fail (the theorems say there is no difference where they hold)
        status = dict(zip(gen, ans))
        bad = [r for r, o, d in ctx.oracle_failures if status.get(r) == "wt" and "is undefined" not in d]
        ctx.extra["oracle_differences_inside_theorem_hypotheses"] = len(bad)
        if bad:
            ctx.broken.append("the oracle reports a difference on a program that satisfies the hypotheses of gen_sem_*: "
                              + bad[0].split("\t")[1][:200])
    custom_vec(ctx)


def custom_vec(ctx):
    """for how many of the explored vector expressions do the hypotheses of gen_sem_msl_vec_expr (VIr.typeOf + VOk.okMV) hold"""
    vreqs = sorted(r for r in ctx.distinct if r.startswith("C02.vex\t") and r.split("\t")[2] != "-" and r.split("\t")[4] != "-")
    if vreqs:
        ans = ctx.run_model(["C02.vwt" + r[len("C02.vex"):] for r in vreqs])
        ctx.extra["vector_theorem_hypotheses"] = {"requests": len(vreqs), "wt": ans.count("wt"), "not_wt": ans.count("not-wt"),
                                                  "outside_layer": ans.count("unsupported")}
        if ans.count("wt") < 0.9 * max(1, len(vreqs) - ans.count("unsupported")):
            ctx.broken.append("coverage: fewer than 90% of the explored vector expressions satisfy gen_sem_msl_vec_expr's hypotheses")


SPEC = {
    "id": "C02",
    "gens": ["UsageTables", "MslGenTables", "MslVecTables", "MslDupSites", "MslCallTables", "NameReserve", "Reserved", "FmtTables", "ParseTables", "SyntaxTables"],
    "lean_modules": ["RsslVerif.Thm.C02", "RsslVerif.Thm.C02Sem", "RsslVerif.Thm.C02Vec", "RsslVerif.Thm.C02Dup", "RsslVerif.Thm.C02Text", "RsslVerif.Thm.C02Call", "RsslVerif.Thm.C02Names", "RsslVerif.Thm.C15",
                     "RsslVerif.Thm.C09"],
    "theorems": [T + n for n in [
        "tables_as_modelled", "all_positions_descended", "implicit_names_agree",
        "recurse_no_panic", "recurse_terminates", "measure_bounded_and_increasing", "close_is_reachability",
        "closure_order_independent", "closure_keeps_keys", "required_order_independent",
        "requiredP_order_independent", "required_monotone", "args_align", "args_unchanged_without_implicit", "args_aligned_with_defaults",
        "threaded_exactly_partial", "calculateLocal_wf", "closeProgram_ok", "threaded_exactly_program_partial",
        "mentions_calculateLocal", "threaded_exactly",
        "default_arguments_analysed", "global_initialisers_analysed"]] + [TS + n for n in SEM_THEOREMS] + [TV + n for n in VEC_THEOREMS] + [TD + n for n in DUP_THEOREMS]
                + [TX + n for n in TEXT_THEOREMS] + [TC + n for n in CALL_THEOREMS] + [TN + n for n in NAME_THEOREMS]
                + ["RsslVerif.Thm.C15." + n for n in C15_CITED] + ["RsslVerif.Thm.C09." + n for n in C09_CITED],
    "harness": "c02",
    "nontrivial": nontrivial,
    "finding_key": finding_key,
    "shrink": shrink,
    "search": search,
    "custom": custom,
    "rule": "requests = (globals with storage/const/sampler/object class, functions with parameter modes and a list of "
            "mentions/calls each placed at one of 32 syntactic positions, entry point); rendered to RSSL, type checked, "
            "run through rssl_msl::verif_generate_ast and the public GlobalUsageAnalysis::calculate; first every "
            "position x class in a two-level call chain, then random call graphs (depth up to 5, diamonds, unused "
            "functions, out/inout parameters -> trampolines, globals passed as out arguments, defaulted parameters); "
            "the oracle checks on the emitted Metal syntax tree that every identifier is in scope, every call matches "
            "a definition with the threaded global at the same position on both sides, and a function receives a "
            "threaded global iff it (transitively) needs it, by reference; non-trivial = at least two calls and one "
            "implicit parameter. Semantic half (stream C02.gen): well-typed RSSL programs of the scalar subset "
            "(generator of C01 without built-in calls) and programs built around aliasing calls (a static passed as "
            "out/inout argument to a function that touches it, one variable for two out/inout parameters, an out argument "
            "read or written by another argument) are serialised (typed IR of every function, names, types, static "
            "initial values), run through rssl_msl::verif_generate_ast; observation = the emitted definitions of the "
            "function (trampoline target, trampoline) + reference evaluation of the IR + evaluation of the emitted tree; "
            "the model answers with its own tree, the Lean Ir.phi and the Lean Msl.phi (Spec/SemMsl) on its tree; the "
            "oracle runs the emitted module under a C++/Metal evaluator with reference parameters and compares return "
            "value, out/inout results and statics with the IR evaluation bit for bit on 4-6 argument vectors. Vector layer "
            "(streams C02.vfn / C02.vex): the vector / matrix / struct / array / enum / method / template / overload / default-"
            "parameter programs of C01's generator (c01/vgen.rs, unchanged), matrix programs in the forms the Metal backend accepts "
            "(whole-matrix parameters, statics, struct members, out/inout matrices, + - *, constructors, scalar casts, mul, "
            "transpose) and programs around scalar swizzles, enum arithmetic, prototypes, value templates and nested structs are "
            "exported by the real Metal exporter; the typed IR is evaluated by C01's reference evaluator (c01/virev.rs, unchanged; "
            "mul / transpose restored as uninterpreted built-ins), the emitted tree by an independent Metal reading "
            "(harness/src/c02/vmev*.rs: vector / matrix / struct / array values, places, thread references, C++ aggregates, methods "
            "on the object's place, Metal's conversion rules, column-major matrices); return value, final out/inout arguments, "
            "final statics and initial values of file-scope constants are compared bit for bit on 5 argument vectors per function; "
            "C02.vex sends expression functions and statement-level vector assignments to the Lean vector model (tree of "
            "Model.GenMslVec == exporter's tree, Lean VIr.eval == Rust IR evaluation, Lean VMsl.eval == VIr.eval under the "
            "theorems' hypotheses). Operand repetition (harness/src/c02/vgend.rs, programs 1000000.. of the C02.vfn stream + stream C02.dup): "
            "the exporter writes a cast to a struct `(S)value` as `S { v, v, ... }`, the operand once per scalar element; every program "
            "of this family has an operand with an OBSERVABLE effect (i++ on an inout parameter or a local, a call that bumps a static, an "
            "assignment, also inside a subscript index below members / swizzles / casts) or its effect-free twin: enumerated — every one "
            "of 38 operands (7 leaves, 9 effect-free non-leaves, 22 with an effect) below a cast to a one-element and to a four-element "
            "struct, every compound operator (10 integer, 5 floating) at 5 kinds of target whose index has an effect, 19 further statements "
            "(scalar -> vector casts, constructors, swizzles of scalars, ++ on elements, swizzled stores, ?:, max/min/clamp/select/abs/dot/"
            "mul, inout arguments, methods of subscripted objects, matrix from a scalar; select() with two operands whose effects depend on "
            "each other) x int/uint/float, and (fixes 92d66eb + 35faaaa) `%=` on floating-point targets: 21 targets (15 plain places — "
            "parameter, static, local, elements with constant / arithmetic / cast / unary indices, members of elements, vectors, swizzles, "
            "components, vector elements, member variables inside a method — and 6 the exporter refuses: an index with ++, a call, ?:, a "
            "built-in) x 8 right operands (4 free of writes, 4 that write: a call, an assignment, ++, also of the target itself) — then "
            "random ones over ten struct shapes (nested structs, arrays of structs, vector members, mixed element kinds) and five "
            "statement positions; the two evaluators count effects exactly (final inout arguments, final statics), so an operand written "
            "twice or read at another moment is a difference. C02.dup sends every struct cast of these modules (type shape with the "
            "element type ids + type id and constructor tree of the operand, read off the real ir::Module) and every `%=` on a "
            "floating-point target (constructor trees of target and right operand, operators by name) to the Lean model of the two arms "
            "and compares its decisions — refuse with UnsupportedCast / ComplexRemainderAssignment, or per braced list the number of "
            "clauses and which clauses are equal (the operand itself / the operand converted to element type K), and the number of "
            "`A = metal::fmod(A, B)` — with the emitted module. Text leg (harness/src/c02/text.rs, "
            "every program of C02.gen / C02.vfn / C02.vex / C02.dup): the text of the public route rssl_msl::export_to_msl must be "
            "rssl_formatter::format(hooked tree, Msl), and the body of every emitted function and every file-scope initialiser, printed by "
            "the real formatter for Target::Msl and read back by the real rssl preprocessor + parser (C09's harness machinery, "
            "c09::statement_text_trip), must be the same tree (a negative literal = the unary minus of its magnitude); a body that reads "
            "back differently fails every request of its function, and in C02.gen the re-read module is run by the Metal evaluator against "
            "the IR; statements the rssl parser cannot read (the trampoline's local `out`, braced struct lists) are counted, not judged. "
            "Operator chains (sem.rs chain_programs, every tier): {float, int, uint, bool} x every accepted binary operator x 12-16 shapes "
            "(right-nested, both sides, same-precedence partners, below casts / calls / ?: / unary minus / comma, statement forms) on grids "
            "where float regrouping changes the IEEE result (1e30, -1e30, 1; 2^24, 1, 1; 1e-30, 1e30, 1e30); plus, for float and int, "
            "`%=` programs: six accepted forms in one module (targets parameter / static / local, right operands arithmetic, ?:, the "
            "target itself) and five modules with a right operand that writes or a target that is no plain place (refused on floats, "
            "exported on integers) — the float `%=` of the Lean scalar model; C02.vex: 1 in 5 of the extra functions is a statement-level "
            "`%=` on a float vector / swizzle (the Lean vector model). Calls with left-out default arguments (harness/src/c02/vgenc.rs, "
            "programs 2000000.. of the C02.vfn stream + stream C02.call): one callee with 0-2 required parameters (optionally inout: out "
            "trampoline) and 1-3 defaulted trailing parameters (defaults: literals, constant expressions, file-scope constants, the threaded "
            "global itself) whose result weighs every parameter differently, and one caller per number of left-out arguments; enumerated: "
            "call kind {obj.m(..) from outside on a local / inout parameter / array element / member of another struct, from another method "
            "of the struct, free function at file scope or in a namespace, a call with left-out arguments as an argument of another} x global "
            "class {static read and written, static only through a helper, static only named by a default value, groupshared, extern constant "
            "buffer, none = control} x 1..3 defaults (72 programs), then random ones (60 quick / 1200 thorough). Both evaluators run the "
            "static classes; in addition an ARITY ORACLE independent of both evaluators judges every exported module of the C02.vfn stream "
            "(also groupshared / extern programs the typed evaluator cannot run): every emitted call `f(..)` / `o.f(..)` whose name is defined in "
            "the module must have as many arguments as some declaration of that name binds (at most its parameters, every parameter beyond "
            "them with a default value). C02.call sends every user call of these modules (call type, number of operands, which parameters "
            "of the callee have a default value, number of parameters the emitted declaration has for globals) to the Lean model of "
            "generate_user_call's argument list and compares the number of arguments of every emitted call"
            " Namespaced globals (harness/src/c02/vgenn.rs, programs 3000000.. of the C02.vfn stream): a static / groupshared / extern (constant buffer) global declared inside a namespace (one, nested A::B, reopened), used as N::g directly, only through functions of the namespace, or both, by a function that declares a LOCAL OF THE SAME LEAF NAME in the block of an if, the body of a for, as the for variable, in the outermost block, as a parameter, or two blocks deep after a direct use, plus a caller that only passes the global on; also two globals of one leaf name in different namespaces used by one function; enumerated class x use x place (54) + 6 two-global programs, then random ones (40 quick / 600 thorough). Both evaluators run the static class (a captured use changes return value and final static); in addition a SCOPE ORACLE independent of both evaluators judges every exported module of the stream: inside a function no other parameter and no local declaration (any depth, for initialisers included) has the name of a reference parameter that carries a global of the program",
    "level_text": "Proof of the logic of implicit threading: the usage fixpoint loop (modelled with explicit key iteration "
                  "order, explicit unwrap failures and fuel) is proved for every table to terminate within |keys|^2+1 passes "
                  "without panicking, to compute exactly reachability through the local-use relation independently of the "
                  "iteration order, and the parameter/argument lists built from it are proved sorted, order independent, "
                  "monotone along calls (so every forwarded argument names a parameter in scope), aligned position by "
                  "position between call sites and callee signatures, and to contain exactly the threaded-mode globals "
                  "reachable from the function. Which syntactic positions the analysis visits, the GlobalMode "
                  "classification, the derived order of implicit parameters and the parameter/argument names are "
                  "re-extracted from the source on every run. Semantic half (Thm/C02Sem): for an executable model of "
                  "generate_expression / generate_literal / generate_statement / generate_function_inner / the out-inout "
                  "trampoline (Model/GenMsl, operator / literal / type-name tables and the text of every modelled arm "
                  "re-extracted on every run: Gen.MslGenTables) it is proved, for every interpretation of the float / "
                  "conversion / division primitives, every fuel and every call depth, that the C++/Metal reading of the "
                  "emitted tree (Spec/SemMsl: int/long literal types, promotions, shift rule, by-value and thread-reference "
                  "parameters, overloads by tag; `%` / `%=` undefined on float) equals the typed IR semantics of C01: gen_sem_expr, gen_sem_stmt(s), "
                  "gen_sem_func (body-carrying definition with statics reachable only through the reference parameters), "
                  "trampoline_copy_semantics (the emitted trampoline called with arbitrary, possibly aliasing, caller "
                  "variables = copy-in, typed function, copy-out in parameter order) and gen_sem_program (Metal call = "
                  "typed copy-in/copy-out call at every depth, under the semantic precondition that functions with out "
                  "parameters do not depend on their entry value). `x %= y` on floats (Metal has no such operator; known finding until fix "
                  "batch 3, and this development's Metal reading was lenient about it) is exported since fixes 92d66eb + 35faaaa as "
                  "`x = metal::fmod(x, y)` when is_plain_place(x) and is_free_of_writes(y), else refused with ComplexRemainderAssignment: the "
                  "model follows the re-extracted guard tables, gen_sem_expr covers the emitted form with the exporter's own guard as the "
                  "only condition (freeOfWrites_pure: an accepted right operand is pure, so reading the target before it — emitted form — or "
                  "after it — typed `%=` — is the same; float_remainder_assignment_exported). Outside the side conditions the statement is false on the current code: "
                  "negations with witnesses (INT_MIN / literal arithmetic typed long/int in Metal; inout copy-in after "
                  "later arguments), both replayed on the real exporter as known findings. The Metal generate_literal never "
                  "panics on a modelled constant (msl_literal_never_panics: an IntLiteral beyond +-u64::MAX is the export error "
                  "IntLiteralOutOfRange since fix 6017bad) and is arm for arm the HLSL one except for Float64, which Metal refuses "
                  "with UnsupportedDouble since fix 9824ce3 (msl_literal_arms_same_as_hlsl). Vector layer (Thm/C02Vec): for the "
                  "model Model/GenMslVec of the Cast (with try_implicit_truncate), Swizzle (vector and scalar halves), Constructor, "
                  "vector-type-name and component-wise operator arms (text of every arm re-extracted: Gen.MslVecTables) "
                  "gen_sem_msl_vec_expr proves by induction, re-using the scalar gen_sem_expr at the leaves, that the emitted "
                  "expression is well typed under Metal's rules (Spec/SemMslVec: no implicit vector conversions, no vector->scalar "
                  "or narrowing casts, members on vectors only, no promotion inside vectors, no % on floats) with exactly the IR's "
                  "type and evaluates to the IR's value and store for every store, every interpretation of the primitives and "
                  "every well-shaped value of the vector variables; vec_shape_sound (the typed semantics yields values of the "
                  "static shape) discharges the static decisions; gen_sem_msl_vec_assign covers statement-level assignment and "
                  "compound assignment to vector variables and swizzles with EVERY assignment operator — `%=` on floats included since fixes "
                  "92d66eb + 35faaaa: whatever the exporter emits for the assignment (`l op r`, or `l = metal::fmod(l, r)`) leaves the typed "
                  "assignment's value and stores (msl_float_remainder_assignment_keeps_meaning); mulMV_toMetal proves that on the exporter's matrix "
                  "correspondence (floatRxC |-> metal::floatCxR, the same logical matrix by columns) Metal's M*v is RSSL's "
                  "mul(M,v); a vector operation with a literal operand (`boolvec + 1`, `intvec * 1.5`, `c ? v : 1.5`), typed in "
                  "the concrete vector type since fixes 40c6233 / c05bffa (before: a panic of the exporter, two known findings, now "
                  "fixed records), is proved exported with its meaning kept (msl_vector_op_literal_in_concrete_type, instances of "
                  "gen_sem_msl_vec_expr through the extended side condition VOk.litOperandOK); "
                  "a cast of a vector to a one-component vector — `(float1)v` was emitted as the ill-typed `(float)v`, known finding, negation "
                  "witness — is exported since fix b6f2da1 as `(float)v.x` exactly like the scalar cast, typed as the scalar that float1 is on "
                  "Metal, with the single component of the typed cast's value (cast_to_vec1_selects_first_component, for every operand of the "
                  "layer); negation witnesses left: the matrix constructor keeps row-major argument order (transposed matrix), m[i] is a "
                  "column. Matrices, structs, arrays, enums, methods, calls with vector "
                  "arguments are covered by the correspondence streams only. Operand repetition (Thm/C02Dup): Gen.MslDupSites lists on "
                  "every run each explicit copy (.clone() / .cloned() / .to_vec() / vec![x; n] / repeat) in the Metal back end's seven files, "
                  "each arm that contains one generator call twice and the text-building macros in generate_expression — the only ways an "
                  "operand can reach the output twice, since syntax-tree values are not Copy; dup_sites_guarded checks the list against a "
                  "reviewed classification (three copies repeat an operand of the program, in two arms: inner.clone() and expr.clone() in the "
                  "struct half of the Cast arm — one clause per element type of get_member_types, the operand itself or, fix 5d2f434, the "
                  "operand below a cast to the element's type — and exprs[0].clone() in the floating-point RemainderAssignment arm, the only "
                  "arm of the operator table with the assignment form), pins what happens otherwise (UnsupportedCast / "
                  "ComplexRemainderAssignment), and proves the re-extracted tests SOUND: every constructor they accept is without effect of "
                  "its own (strict and pure, ?:, or an IntrinsicOp restricted to arithmetic / bitwise / comparison / boolean operators) and "
                  "ALL its expression-typed fields (read off enum ir::Expression) are tested — structCastGuard, is_plain_place with "
                  "is_plain_index, is_free_of_writes. repeatable_operand_is_pure / tested_operand_is_pure_of_sound / "
                  "rem_assign_operands_are_pure: for every meaning of calls, operators, ?: and sequences (Spec.MslDup.Interp) an operand "
                  "accepted by a sound test leaves the store unchanged, so n evaluations give n copies of the one value and the store of one "
                  "evaluation; struct_cast_meaning_kept: whenever the modelled arm emits the clauses c1..cn they evaluate to the operand's ONE value — "
                  "converted by the cast's own step where the clause converts — with the final store of ONE evaluation, undefined exactly when "
                  "a conversion is (also through the one-element branch and for n = 0); struct_cast_clauses: a clause copies exactly for an "
                  "element of the operand's type or a literal operand; repeatable_operand_is_pure_ir / rem_assign_operands_are_pure_ir: the "
                  "same on C01's typed IR (Ir.eval) for every World / Prim (a rewritten `%=` has a local / parameter / global as target and a "
                  "right operand that is pure in the sense the scalar proof uses); index_blind_test_repeats_effect: the test of seeded mutant C02-3 is "
                  "not sound and S { arr[i++], arr[i++] } differs from one evaluation (negation with witness). The models of the two arms are tied to "
                  "the code by the pinned text and by stream C02.dup (0 disagreements). Text leg: all of the above speaks about the syntax tree "
                  "the back end hands to rssl_formatter; that the emitted TEXT denotes this tree is property C09's, whose obligations are "
                  "obligations of C02 too (Gen.FmtTables / ParseTables / SyntaxTables regenerated and Thm.C09 built in every C02 run; cited: "
                  "tables_agree, assoc_agrees, ternary_level, unary_tables_agree, paren_rule_matches_grammar, roundtrip_expr_partial, "
                  "roundtrip_subexpr_partial, roundtrip_xexpr_partial, roundtrip_stmt_partial, roundtrip_block_partial, roundtrip_decl_partial, "
                  "negative_literal_binds_like_minus, source_fingerprints), composed with gen_sem_* INFORMALLY (different tree types) and tied on "
                  "every generated program by the harness round trip through the real printer (Target::Msl) and the real parser; "
                  "Thm/C02Text.right_nested_chain_regrouped_changes_meaning: the tree the model emits for x + (y + z) on floats means what the "
                  "IR means while the left-nested tree, which the text x + y + z of seeded mutant C02-4 denotes, evaluates differently under a "
                  "non-associative interpretation of the float primitive (negation witness; the trees agree on ints). "
                  "Argument lists of calls (Thm/C02Call, model Model/MslCall, table Gen.MslCallTables re-extracted on every run): per arm of "
                  "`match ct` in generate_user_call the table states which operand of the IR call is the first ARGUMENT (MethodExternal: operand 0 "
                  "is the object) and how many parameters the loop that fills in the default values of left-out arguments skips, both relative "
                  "to the operand list; user_call_arms_as_modelled (decide on the table) states that they agree in all three arms and that the "
                  "list is built in the order arguments / defaults / globals; emitted_call_binds_every_parameter proves for every call type, every "
                  "operand list, every list of parameter defaults and every non-empty list of globals, under the type checker's guarantees (no "
                  "more arguments than parameters, every left-out parameter has a default): the emitted call exists (no slice panic), has exactly "
                  "one argument per parameter of the emitted declaration (user parameters ++ parameters for globals), the i-th is the i-th provided "
                  "argument or the i-th parameter's own default value, the globals follow; emitted_call_unchanged_without_globals: a callee without "
                  "parameters for globals keeps its defaults and the call is emitted as written; object_counted_as_argument_drops_a_default: the "
                  "table row of seeded mutant C02-6 (object counted as a provided argument) gives `a.scale(x)` the arguments `x, bias` — negation "
                  "witness. WHAT each argument expression means is the business of gen_sem_* (scalar free functions) and of the two evaluators "
                  "(methods): the call theorems speak about arrangement only. Names of threaded parameters (Thm/C02Names.lean): the parameter that carries a global has the global's LEAF name whatever namespace it lives in; used_names_reserved_regardless_of_namespace (decide on Gen.NameReserve, re-extracted from NameMap::build on every run) states that the usage loop inserts the generated name of every used function / global into used_names_all_scopes under the only condition that the symbol has a generated name (false for seeded mutant C02-7, which added a test of the namespace); threaded_parameter_name_is_no_local (full, every input of C15's model of NameMap::build; instance of the cited C15.locals_apart_from_used) proves that the leaf name of a used global of ANY scope is the printed name of no local variable / parameter, so no declaration in a function that receives the parameter shadows or redeclares it. That two DIFFERENT used globals get different parameter names is NOT proved and false on the real code (known finding threaded-globals-share-a-leaf-name).",
    "trusted_base": [
        "tools/gens/c04.py (NameReserve: every statement of NameMap::build that mentions used_names_all_scopes with the loops and conditions "
        "around it) and tools/gens/c15.py (Reserved), both owned by C04 / C15; harness/src/c02/vgenn.rs scope_failures (reads parameter and "
        "local declaration names off the emitted tree)",
        "Lean 4.33 kernel; axioms propext / Classical.choice / Quot.sound only (audited by #print axioms)",
        "tools/gens/c02.py (UsageTables): match-arm/field inventory of gather_usage_*, regex shape facts about "
        "calculate_local / recurse / analyse_globals / generate_function_inner / append_arguments_for_globals, "
        "translated is_global_constant and requires_reference expressions — re-run on /repo's working tree every time",
        "hand-written Model/Usage.lean mirrors recurse and the list building; tied to the code by the correspondence run "
        "(signatures, call sites, closures, entry wrapper compared on every generated program)",
        "Spec/Usage.lean: our reading of 'needs' (reachability through mentions and calls) and of which globals Metal "
        "cannot keep at file scope",
        "Rust: Vec::sort returns a sorted permutation; HashMap/HashSet = finite map/set with unspecified iteration order",
        "tools/gens/c02.py (MslGenTables): arm tables of the Metal generate_intrinsic_op / generate_literal / "
        "generate_scalar_type and exact-text facts about every modelled arm of generate_expression, generate_statement, "
        "generate_scope_block, generate_for_init, generate_variable_definition, generate_user_call, "
        "generate_function_param, generate_function_inner, generate_function_and_trampoline, "
        "generate_function_out_trampoline_body (an edit of any of them flips a fact and msl_exporter_shape_as_modelled stops checking); the "
        "RemainderAssignment arm of generate_intrinsic_op is pinned as text around its three local tests (is_plain_place, is_plain_index, "
        "is_free_of_writes), which are parsed into tables (constructor, operator alternatives, fields handed to which test; `_ => false`): "
        "any other shape is an extraction failure; "
        "a `return Err(GenerateError::e)` arm of generate_literal is the table entry `.errs e`, which the model answers as the "
        "exporter's diagnostic (Except.error (.diag e)), never as a panic",
        "Spec/SemMsl.lean: our reading of Metal (C++14): an unsuffixed integer literal is int below 2^31, else a 64-bit long; "
        "unsuffixed and f-suffixed floating literals are float; bool is promoted to int before arithmetic / bitwise / "
        "relational operators; int,uint -> uint, anything with long -> long, anything with float -> float; a shift has the "
        "promoted type of its left operand and takes the count modulo the width (Metal spec); int/uint arithmetic wraps; "
        "integer division, float arithmetic and conversions are the shared abstract primitives; metal::fmod is the float "
        "remainder the IR's % denotes, the operators % and %= have no type and no value on float (strict since fix batch 3); &&, ||, ?: short-circuit; arguments and operands are evaluated left to right; "
        "T-name parameters by value, thread-T&-name parameters bind the argument variable's location; locals live at "
        "fixed frame slots (flat store shared with C01: no recursion), the trampoline's `out` is reclaimed at return",
        "the typed IR semantics Spec/Sem + Spec/SemStmt of C01 (shared, unchanged): in particular an out/inout argument is "
        "copied in when the argument list reaches it, left to right",
        "harness/src/c02/msleval.rs: an independent Rust implementation of the same Metal reading; the Lean Msl.phi and it "
        "are compared on every generated case (0 disagreements), as are Lean Ir.phi and the Rust IR evaluator of C01",
        "tools/gens/c02.py (MslVecTables): exact-text facts about the Swizzle / Constructor / Cast arms of the Metal "
        "generate_expression, try_implicit_truncate's three members and its guards (`.x` for a scalar or one-component target from an "
        "operand of more than one component: fix b6f2da1), the Vector / Matrix arms of generate_type_impl, the Mul / "
        "Transpose arms of generate_intrinsic_function, the rejection of matrix subscripts / matrix swizzles",
        "Spec/SemMslVec.lean: our reading of Metal's vector rules (MSL specification): type names bool/int/uint/float and "
        "T2..T4 only; implicit conversion scalar->scalar and scalar->vector only; explicit conversion scalar->scalar, "
        "scalar->vector (replicated), vector->vector of the same size; constructors flatten; .xyzw members on vectors only; "
        "component-wise operators on operands of one vector type, a scalar operand converted to the element type; no integer "
        "promotion inside vectors; `%`/`%=` undefined on floats, metal::fmod = the float remainder; swizzled assignment "
        "targets need distinct components; matrices floatCxR = C columns of R, constructor from scalars column-major, from one "
        "scalar diagonal, m[i] a column, M*v the linear-algebra product (Mat section: definitions used by mulMV_toMetal)",
        "the typed vector semantics Spec/SemVec of C01 (VIr.eval / evalTop / typeOf, shared, unchanged)",
        "tools/gens/c02.py (MslDupSites): the regular expression that finds explicit copies, the innermost-function / innermost-arm "
        "attribution, the parser of the side-effect test (a flat `match **expr` or a local recursive helper; any other shape is an "
        "extraction failure = broken obligation), the field types of enum ir::Expression; Thm/C02Dup.reviewed: our reading of what each "
        "of the 53 copy sites copies (type / name / list, expression made by the back end itself, operand moved into its replacement, "
        "initialiser per entry wrapper, repeated operand)",
        "Spec/MslDup.lean: which constructors of ir::Expression are strict and free of effects of their own (leaves, member / element / "
        "component selection, Cast, Constructor, SizeOf: `strictPure`), which operators of IntrinsicOp have no effect of their own "
        "(`pureOps`: all but ++ / --, the assignments, MakeSigned*, MeshOutput*; evaluated left to right, possibly stopping early: && ||), "
        "that ?: evaluates its condition and one branch — every other constructor is an arbitrary state transformer; Rust: "
        "a value of a type that is not Copy is used at most once unless explicitly copied",
        "C++14 aggregate initialisation as read by vmev_expr.rs: brace elision (a sub-aggregate without braces takes as many clauses as "
        "it has elements, a vector / matrix / scalar one), clauses evaluated left to right, missing clauses value-initialise, a "
        "narrowing conversion of a clause is ill-formed (float -> int always; int -> float / other integer type unless a constant that "
        "fits; a literal, a signed literal or a file-scope `constant` is a constant: since fix 5d2f434 only a LITERAL operand still reaches "
        "a clause unconverted); c01/virev.rs: `(S)x` for a scalar x gives every "
        "scalar element of S the value x converted to the element's type (HLSL's scalar-to-struct cast; the operand evaluated once)",
        "harness/src/c02/vmev*.rs: an independent Rust implementation of the Metal reading extended to matrices, structs, "
        "arrays, enums, methods, references, aggregates and the metal:: library names (uninterpreted built-ins of c01/vval.rs "
        "under the name of the RSSL built-in they implement; `1 / x` = rcp; select argument order reversed); compared with "
        "the Lean VMsl.eval through the model answers of C02.vex, and with C01's IR evaluator on every C02.vfn case; function "
        "arguments are evaluated left to right (C++ leaves the order unspecified; the typed semantics is left to right): the alternative "
        "reading used to classify a difference evaluates the operands of metal::select in the source's order",
        "tools/gens/c02.py (MslCallTables): the reader of generate_user_call — the arms of `match ct` (which slice of `exprs` is the "
        "argument list: `exprs.as_slice()`, `&exprs[n..]`, handed out in the tuple or generated inside the arm), the count given to "
        "`decl.params.iter().skip(..)` directly or through a helper that receives it (`arguments.len()`, `args.len()`, `exprs.len()`, "
        "`exprs.len() - n`; anything else is an extraction failure), the order of the three list-building steps; Model/MslCall.lean is "
        "tied to the code by this table and by stream C02.call (numbers of arguments only); arity oracle (vec.rs arity_failures): calls "
        "and declarations are matched by the last component of the name, a call is accepted if ANY declaration of that name binds it",
        "text leg: the rssl parser is used as the reader of the emitted Metal text (function bodies of the subset are C-like; Metal and "
        "rssl agree on the precedence and associativity of the C operators, ?: and the comma — our reading of the MSL / C++14 grammar); "
        "harness/src/c09.rs statement_text_trip + C09's serialisation / ambiguity resolution (ser_stmt, resolve_stmt, align); C09's "
        "trusted base for the cited theorems (tools/gens/c09.py, Model/Format*.lean, Model/Parse*.lean)",
    ],
    "assumptions": [
        "names of threaded parameters: Model.Names (C15's model of NameMap::build, tied to the code by C15's / C04's own streams and Gen.Reserved / "
        "Gen.NameReserve) is the model the name theorem speaks about; that the Metal exporter names the parameter by the global's generated leaf "
        "name is observed on every generated program by the scope oracle, not modelled; two used globals of one leaf name in different namespaces "
        "get the SAME parameter name today (known finding threaded-globals-share-a-leaf-name): the Metal evaluator skips entry points whose "
        "appended parameter fits two statics, and value differences on a function with two such parameters are attributed to that class",
        "names: every global/function/parameter keeps a distinct Metal name (C15); the model works on indices",
        "'needs' counts default-argument expressions and global initialisers (reading agreed after fixes 2c8592f/1d760f5); "
        "threaded_exactly assumes every mention sits at a place gather_usage_* visits (AllSeen; all_positions_descended "
        "discharges it for the generator's 32 positions) and the type checker's guarantee that omitted arguments have defaults",
        "semantic half, side conditions of the theorems (Spec/SemMslWT Ir.okM / wtStmtM): no IntLiteral/FloatLiteral constant "
        "inside an expression, Int32(i32::MIN) only where the context converts it back to int (both: known finding "
        "metal-integer-literal-typing); arithmetic / bitwise / relational operators and compound assignments on int, uint, "
        "float operands (on bool operands C++ promotes to int: the values agree but the proof would need run-time types of "
        "variables; covered by the oracle only); switch on int / uint; every out/inout argument is a variable outside the "
        "callee's own slots and the in arguments after it are pure (else: known finding "
        "inout-copy-in-after-later-arguments); no built-in function calls (Model/GenMsl answers unsupported)",
        "semantic half, names and layout (AgreeM / AgreeL / AgreeT): emitted names denote the IR's entities and are pairwise "
        "distinct within a frame incl. the trampoline's __p and out (C15); locals sit at the IR's variable ids, the "
        "trampoline's copy __p at the id of parameter p, statics threaded as parameters are not in the frame",
        "gen_sem_program assumes of each typed function that gets a trampoline (OutOK) that its result does not depend on "
        "the entry value of an out parameter (the source writes it first: no definite-assignment analysis is formalised); "
        "syntactically (SynOK) that no function mentions a trampoline's scratch slot and that a void function with a "
        "trampoline has no `return e;`",
        "vector layer, side conditions of gen_sem_msl_vec_expr / _assign (Spec/SemMslVec VOk.okMV, placeOKM): types are "
        "bool/int/uint/float scalars or 2-4 component vectors (no float1 operands or variables: emitted as the scalar, the value would "
        "change representation — the cast of a vector TO float1, repaired by b6f2da1, has its own theorem "
        "cast_to_vec1_selects_first_component; "
        "no literal kinds: since fixes 40c6233 / c05bffa the type checker no longer computes in vectors of a literal type — the "
        "two panic findings are fixed records — and the literal operand it now converts to the concrete type, `(int3)1`, "
        "`(float3)1.5`, is inside the side conditions for integer literals of magnitude below 2^31 and floating literals "
        "converted to a float kind: VOk.litOperandOK, msl_vector_op_literal_in_concrete_type); no widening vector casts; unary - + ~ and binary "
        "arithmetic / bitwise / relational operators on *scalar* operands need int/uint/float (bool scalars are promoted in "
        "C++: oracle only); scalar leaves satisfy the scalar side conditions and are not the bare Int32(i32::MIN); vector "
        "variables are in scope under their emitted names (C15) and hold values of their declared shape (vec_shape_sound "
        "propagates it); `&&` `||` `?:` have scalar bool conditions (the type checker's own restriction in VIr.typeOf); "
        "assignment targets are vector variables or swizzles with distinct components of variables of vector type (every assignment "
        "operator; `%=` on floats since fixes 92d66eb + 35faaaa). 96% of the generated expression / assignment functions satisfy them",
        "operand repetition: the theorems speak about the repetition decision and the effect of repeating (store and value of the "
        "operand); that each clause then initialises its element with the converted value is the Metal reading's business (oracle only; "
        "since fix 5d2f434 every clause of a non-literal operand is converted to its element's type; a LITERAL operand is still written "
        "as it is, ill-formed where a floating literal meets an integer element or an integer literal does not fit: known finding "
        "metal-narrowing-literal-in-braces). The operands of metal::select are emitted in reverse order: two operands whose effects "
        "depend on each other run in the other order (known finding metal-select-operand-order). Casts from a ConstantBuffer<S> object and to unbounded arrays are outside the subset",
        "vector stream oracle: a method call whose argument writes the object is skipped (C01's typed evaluator copies the "
        "object in and out, C++ and DXC pass `this` by reference: not a difference of the exporter); built-ins whose Metal form "
        "is not a call of one library function (sign on ints, rcp only as `1 / x`) are skipped or read as stated above; initial "
        "values of threaded statics are taken from the IR evaluation (their initialisers are emitted by the entry wrapper, "
        "pipeline.rs, which verif_generate_ast does not run)",
        "calls: emitted_call_binds_every_parameter assumes what the type checker guarantees for an accepted call (at most as many "
        "arguments as parameters, every left-out parameter has a default value IN THE IR). The second half is false for a default value "
        "given on a forward declaration whose definition follows: the typed IR has no value for it (known finding "
        "default-value-of-forward-declaration-lost, found by the arity oracle: `hp(v, gp)` against `hp(int q, int d, thread int& gp)`)",
        "text leg: statements the rssl parser cannot read are outside the trip (today: the trampoline's `T out = f(...); return out;` — "
        "`out` is an rssl keyword — and braced struct lists `S { v, v }`; counted in the evidence's input distribution as "
        "text:stmt:unreadable; also a statement in which the rssl reader sees a template call the tree does not have — `a < b ? x : c > (d)` is "
        "read as `a<..>(d)` by rssl, as the comparison by C++, where a variable is never a template name: text:*:unreadable:template-ambiguity); signatures (`thread T& p`), struct and global declarations are covered by the tie (a) only; a literal "
        "with a negative value and the unary minus of its magnitude are one tree",
    ],
}

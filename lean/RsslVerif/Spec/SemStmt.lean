import RsslVerif.Spec.Sem
/-!
# `Spec.SemStmt` — statements, function bodies and whole programs for both semantics

Loops run at most `fuel` iterations each (`none` = stuck or out of fuel); the loop combinators are shared: they are the
meaning of iteration, applied by each semantics to its own reading of condition, body and increment.
Observables of a function call (the property's words): return value, final values of the parameters
(`out`/`inout`), final store (static globals).
-/
namespace RsslVerif.Spec.Sem
open RsslVerif.Gen.HlslGenTables RsslVerif.Model
open RsslVerif.Model.Ir (Ty Var Const Dir)

inductive Flow where
  | normal
  | brk
  | cont
  | ret (v : Option Val)
  | seeking      -- inside a `switch`, the label to start at has not been reached yet (nothing was executed)
  deriving DecidableEq, Repr, Inhabited

/-- how a statement is entered: executing, or looking for the `case` / `default` label of the enclosing `switch`
(`T` = promoted type of the controlling expression, `v` = its value) -/
inductive Mode where
  | run
  | seekCase (T : Ty) (v : Val)
  | seekDefault
  deriving DecidableEq, Repr, Inhabited

/-- a statement that is not a label is skipped while a label is being looked for -/
def skip (m : Mode) (σ : Var → Val) (k : Unit → Option (Flow × (Var → Val))) : Option (Flow × (Var → Val)) :=
  match m with
  | .run => k ()
  | _ => some (.seeking, σ)

def endOf (m : Mode) (σ : Var → Val) : Option (Flow × (Var → Val)) :=
  match m with
  | .run => some (.normal, σ)
  | _ => some (.seeking, σ)

/-- a `switch` after its first pass (looking for the matching `case`): if nothing matched, a second pass looks for
`default`; `break` leaves the switch; no label at all = nothing executed -/
def switchOut (r1 : Option (Flow × (Var → Val))) (pass2 : (Var → Val) → Option (Flow × (Var → Val))) :
    Option (Flow × (Var → Val)) :=
  match r1 with
  | none => none
  | some (.seeking, σ2) =>
    match pass2 σ2 with
    | none => none
    | some (.seeking, σ3) => some (.normal, σ3)
    | some (.brk, σ3) => some (.normal, σ3)
    | some (fl, σ3) => some (fl, σ3)
  | some (.brk, σ2) => some (.normal, σ2)
  | some (fl, σ2) => some (fl, σ2)

abbrev SR := Option (Flow × Store)

/-- `while`/`for`: test, body, increment -/
def loopW : Nat → (Store → Option (Bool × Store)) → (Store → SR) → (Store → Option Store) → Store → SR
  | 0, _, _, _, _ => none
  | n + 1, cond, body, inc, σ =>
    match cond σ with
    | none => none
    | some (false, σ1) => some (.normal, σ1)
    | some (true, σ1) =>
      match body σ1 with
      | none => none
      | some (.brk, σ2) => some (.normal, σ2)
      | some (.ret v, σ2) => some (.ret v, σ2)
      | some (_, σ2) =>
        match inc σ2 with
        | none => none
        | some σ3 => loopW n cond body inc σ3

/-- `do … while` -/
def loopD : Nat → (Store → SR) → (Store → Option (Bool × Store)) → Store → SR
  | 0, _, _, _ => none
  | n + 1, body, cond, σ =>
    match body σ with
    | none => none
    | some (.brk, σ1) => some (.normal, σ1)
    | some (.ret v, σ1) => some (.ret v, σ1)
    | some (_, σ1) =>
      match cond σ1 with
      | none => none
      | some (false, σ2) => some (.normal, σ2)
      | some (true, σ2) => loopD n body cond σ2

def condOf (r : R Val) : Option (Bool × Store) :=
  match r with
  | some (.b x, σ) => some (x, σ)
  | _ => none

/-- a statement condition is contextually converted to `bool` (the type checker inserts no cast there) -/
def condOfB (P : Prim) (r : R Val) : Option (Bool × Store) :=
  match r with
  | some (v, σ) =>
    match castVal P .bool v with
    | some (.b x) => some (x, σ)
    | _ => none
  | none => none

def dropVal (r : R Val) : Option Store :=
  match r with
  | some (_, σ) => some σ
  | none => none

def retOf (r : R Val) : SR :=
  match r with
  | some (v, σ) => some (.ret (some v), σ)
  | none => none

def setOf (x : Var) (r : R Val) : Option Store :=
  match r with
  | some (v, σ) => some (σ.set x v)
  | none => none

def normalOf (r : Option Store) : SR :=
  match r with
  | some σ => some (.normal, σ)
  | none => none

def alwaysTrue (σ : Store) : Option (Bool × Store) := some (true, σ)

namespace Ir
open RsslVerif.Model.Ir

def execVarDef (W : World) (id : Nat) (init : Option Expr) (σ : Store) : Option Store :=
  match init with
  | none => some σ
  | some e => setOf (.loc id) (eval W e σ)

def execForDefs (W : World) : List (Nat × Option Expr) → Store → Option Store
  | [], σ => some σ
  | (id, init) :: r, σ =>
    match execVarDef W id init σ with
    | none => none
    | some σ1 => execForDefs W r σ1

def execForInit (W : World) : ForInit → Store → Option Store
  | .empty, σ => some σ
  | .expr e, σ => dropVal (eval W e σ)
  | .defs ds, σ => execForDefs W ds σ

def condFn (W : World) : Option Expr → Store → Option (Bool × Store)
  | none => alwaysTrue
  | some c => fun σ => condOfB W.P (eval W c σ)

def incFn (W : World) : Option Expr → Store → Option Store
  | none => some
  | some e => fun σ => dropVal (eval W e σ)

mutual
def exec (W : World) (fuel : Nat) (m : Mode) : Stmt → Store → SR
  | .expr e, σ => skip m σ fun _ => normalOf (dropVal (eval W e σ))
  | .var id init, σ => skip m σ fun _ => normalOf (execVarDef W id init σ)
  | .block b, σ => skip m σ fun _ => execs W fuel .run b σ
  | .ifThen c b, σ => skip m σ fun _ =>
    match condOfB W.P (eval W c σ) with
    | none => none
    | some (true, σ1) => execs W fuel .run b σ1
    | some (false, σ1) => some (.normal, σ1)
  | .ifElse c t f, σ => skip m σ fun _ =>
    match condOfB W.P (eval W c σ) with
    | none => none
    | some (true, σ1) => execs W fuel .run t σ1
    | some (false, σ1) => execs W fuel .run f σ1
  | .for init cond inc b, σ => skip m σ fun _ =>
    match execForInit W init σ with
    | none => none
    | some σ0 => loopW fuel (condFn W cond) (fun s => execs W fuel .run b s) (incFn W inc) σ0
  | .while c b, σ => skip m σ fun _ => loopW fuel (condFn W (some c)) (fun s => execs W fuel .run b s) some σ
  | .doWhile b c, σ => skip m σ fun _ => loopD fuel (fun s => execs W fuel .run b s) (condFn W (some c)) σ
  | .break, σ => skip m σ fun _ => some (.brk, σ)
  | .continue, σ => skip m σ fun _ => some (.cont, σ)
  | .ret none, σ => skip m σ fun _ => some (.ret none, σ)
  | .ret (some e), σ => skip m σ fun _ => retOf (eval W e σ)
  | .switch T c b, σ => skip m σ fun _ =>
    match eval W c σ with
    | none => none
    | some (v, σ1) => switchOut (execs W fuel (.seekCase T v) b σ1) (fun s => execs W fuel .seekDefault b s)
  | .caseLabel c, σ =>
    match m with
    | .run => some (.normal, σ)
    -- the label's constant (kept as written, e.g. an `IntLiteral`) is compared in the type of the controlling expression
    | .seekCase T v =>
      match castVal W.P T (constVal c) with
      | none => none
      | some x => if x = v then some (.normal, σ) else some (.seeking, σ)
    | .seekDefault => some (.seeking, σ)
  | .defaultLabel, σ =>
    match m with
    | .seekCase _ _ => some (.seeking, σ)
    | _ => some (.normal, σ)
def execs (W : World) (fuel : Nat) (m : Mode) : Stmts → Store → SR
  | .nil, σ => endOf m σ
  | .cons s r, σ =>
    match exec W fuel m s σ with
    | none => none
    | some (.normal, σ1) => execs W fuel .run r σ1
    | some (.seeking, σ1) => execs W fuel m r σ1
    | some (fl, σ1) => some (fl, σ1)
end

def bindParams : List (Nat × Dir × Ty) → List Val → Store → Store
  | (id, _, _) :: ps, v :: vs, σ => bindParams ps vs (σ.set (.loc id) v)
  | _, _, σ => σ

def retVal : Flow → Val
  | .ret (some v) => v
  | _ => .void

/-- run a function body on argument values: (return value, final parameter values, final store) -/
def callFunc (W : World) (fuel : Nat) (fn : Func) (vals : List Val) (σ : Store) : Option (Val × List Val × Store) :=
  if vals.length ≠ fn.params.length then none else
  match execs W fuel .run fn.body (bindParams fn.params vals σ) with
  | none => none
  | some (fl, σ1) => some (retVal fl, fn.params.map (fun p => σ1 (.loc p.1)), σ1)

def sigOf (prog : List Func) : Sig := fun f =>
  match prog.find? (fun fn => fn.id == f) with
  | none => none
  | some fn => some (fn.ret, fn.params.map (fun p => (p.2.1, p.2.2)))

/-- the callable functions of a program at call depth ≤ `d` -/
def phi (P : Prim) (prog : List Func) (fuel : Nat) : Nat → FEnv
  | 0 => fun _ _ _ => none
  | d + 1 => fun f vals σ =>
    match prog.find? (fun fn => fn.id == f) with
    | none => none
    | some fn => callFunc { P := P, phi := phi P prog fuel d, sig := sigOf prog } fuel fn vals σ

end Ir

namespace Ast
open RsslVerif.Model.HlslAst

/-- condition: must be well-typed; contextually converted to `bool` -/
def condE (W : World) (env : Env) (c : Expr) (σ : Store) : Option (Bool × Store) :=
  match typeOf W.sig env c with
  | none => none
  | some _ => condOfB W.P (eval W env c σ)

def execVarDef (W : World) (env : Env) (T : Ty) (name : String) (init : Option Expr) (σ : Store) : Option Store :=
  match env.res name with
  | none => none
  | some x =>
    match init with
    | none => some σ
    | some e =>
      match typeOf W.sig env e with
      | none => none
      | some te => setOf x (convR W.P te T (eval W env e σ))

def execForDefs (W : World) (env : Env) (T : Ty) : List (String × Option Expr) → Store → Option Store
  | [], σ => some σ
  | (name, init) :: r, σ =>
    match execVarDef W env T name init σ with
    | none => none
    | some σ1 => execForDefs W env T r σ1

def execForInit (W : World) (env : Env) : ForInit → Store → Option Store
  | .empty, σ => some σ
  | .expr e, σ => dropVal (eval W env e σ)
  | .decl ty ds, σ =>
    match tyOfName ty with
    | none => none
    | some T => execForDefs W env T ds σ

def condFn (W : World) (env : Env) : Option Expr → Store → Option (Bool × Store)
  | none => alwaysTrue
  | some c => condE W env c

def incFn (W : World) (env : Env) : Option Expr → Store → Option Store
  | none => some
  | some e => fun σ => dropVal (eval W env e σ)

/-- the controlling expression of a `switch` is promoted: a literal int becomes `int` -/
def promote : Ty → Ty
  | .lit => .int
  | t => t

mutual
/-- `rt` = declared return type of the enclosing function (a `return` converts to it) -/
def exec (W : World) (env : Env) (rt : Ty) (fuel : Nat) (m : Mode) : Stmt → Store → SR
  | .expr e, σ => skip m σ fun _ => normalOf (dropVal (eval W env e σ))
  | .var ty name init, σ => skip m σ fun _ =>
    match tyOfName ty with
    | none => none
    | some T => normalOf (execVarDef W env T name init σ)
  | .block b, σ => skip m σ fun _ => execs W env rt fuel .run b σ
  | .ifThen c b, σ => skip m σ fun _ =>
    match condE W env c σ with
    | none => none
    | some (true, σ1) => exec W env rt fuel .run b σ1
    | some (false, σ1) => some (.normal, σ1)
  | .ifElse c t f, σ => skip m σ fun _ =>
    match condE W env c σ with
    | none => none
    | some (true, σ1) => exec W env rt fuel .run t σ1
    | some (false, σ1) => exec W env rt fuel .run f σ1
  | .for init cond inc b, σ => skip m σ fun _ =>
    match execForInit W env init σ with
    | none => none
    | some σ0 => loopW fuel (condFn W env cond) (fun s => exec W env rt fuel .run b s) (incFn W env inc) σ0
  | .while c b, σ => skip m σ fun _ => loopW fuel (condFn W env (some c)) (fun s => exec W env rt fuel .run b s) some σ
  | .doWhile b c, σ => skip m σ fun _ => loopD fuel (fun s => exec W env rt fuel .run b s) (condFn W env (some c)) σ
  | .break, σ => skip m σ fun _ => some (.brk, σ)
  | .continue, σ => skip m σ fun _ => some (.cont, σ)
  | .ret none, σ => skip m σ fun _ => some (.ret none, σ)
  | .ret (some e), σ => skip m σ fun _ =>
    match typeOf W.sig env e with
    | none => none
    | some te => retOf (convR W.P te rt (eval W env e σ))
  | .empty, σ => endOf m σ
  | .switch c body, σ => skip m σ fun _ =>
    match body with
    | .block b =>
      match typeOf W.sig env c with
      | none => none
      | some tc =>
        match convR W.P tc (promote tc) (eval W env c σ) with
        | none => none
        | some (v, σ1) =>
          switchOut (execs W env rt fuel (.seekCase (promote tc) v) b σ1) (fun s => execs W env rt fuel .seekDefault b s)
    | _ => none    -- a `switch` whose body is not a compound statement is outside the model
  | .caseLabel e s, σ =>
    match m with
    | .run => exec W env rt fuel .run s σ
    | .seekCase T v =>
      -- the label's constant expression is converted to the promoted type of the controlling expression
      match typeOf W.sig env e with
      | none => none
      | some te =>
        match convR W.P te T (eval W env e σ) with
        | none => none
        | some (ev, _) => if ev = v then exec W env rt fuel .run s σ else exec W env rt fuel m s σ
    | .seekDefault => exec W env rt fuel m s σ
  | .defaultLabel s, σ =>
    match m with
    | .seekCase _ _ => exec W env rt fuel m s σ
    | _ => exec W env rt fuel .run s σ
def execs (W : World) (env : Env) (rt : Ty) (fuel : Nat) (m : Mode) : Stmts → Store → SR
  | .nil, σ => endOf m σ
  | .cons s r, σ =>
    match exec W env rt fuel m s σ with
    | none => none
    | some (.normal, σ1) => execs W env rt fuel .run r σ1
    | some (.seeking, σ1) => execs W env rt fuel m r σ1
    | some (fl, σ1) => some (fl, σ1)
end

def bindParams (env : Env) : List (String × Dir × String) → List Val → Store → Option Store
  | (n, _, _) :: ps, v :: vs, σ =>
    match env.res n with
    | none => none
    | some x => bindParams env ps vs (σ.set x v)
  | _, _, σ => some σ

def finalParams (env : Env) (σ : Store) : List (String × Dir × String) → Option (List Val)
  | [] => some []
  | (n, _, _) :: ps =>
    match env.res n, finalParams env σ ps with
    | some x, some l => some (σ x :: l)
    | _, _ => none

/-- run an emitted function definition on argument values -/
def callFunc (W : World) (env : Env) (fuel : Nat) (fn : Func) (vals : List Val) (σ : Store) : Option (Val × List Val × Store) :=
  if vals.length ≠ fn.params.length then none else
  match tyOfName fn.ret, bindParams env fn.params vals σ with
  | some rt, some σ0 =>
    match execs W env rt fuel .run fn.body σ0 with
    | none => none
    | some (fl, σ1) =>
      match finalParams env σ1 fn.params with
      | none => none
      | some l => some (Ir.retVal fl, l, σ1)
  | _, _ => none

def paramSig : List (String × Dir × String) → Option (List (Dir × Ty))
  | [] => some []
  | (_, d, t) :: ps =>
    match tyOfName t, paramSig ps with
    | some T, some l => some ((d, T) :: l)
    | _, _ => none

/-- the signature table a C front end builds from the emitted definitions -/
def sigOf (env : Env) (prog : List Func) : Sig := fun f =>
  match prog.find? (fun fn => env.fres fn.name == some f) with
  | none => none
  | some fn =>
    match tyOfName fn.ret, paramSig fn.params with
    | some rt, some ps => some (rt, ps)
    | _, _ => none

/-- the callable functions of an emitted program at call depth ≤ `d` -/
def phi (P : Prim) (env : Env) (prog : List Func) (fuel : Nat) : Nat → FEnv
  | 0 => fun _ _ _ => none
  | d + 1 => fun f vals σ =>
    match prog.find? (fun fn => env.fres fn.name == some f) with
    | none => none
    | some fn => callFunc { P := P, phi := phi P env prog fuel d, sig := sigOf env prog } env fuel fn vals σ

end Ast
end RsslVerif.Spec.Sem

import RsslVerif.Model.Trivia
import RsslVerif.Lemmas.SourceMap
/-!
# Lemmas about the token loop: unfolding equations, offset shift, insertion at a token boundary
-/
namespace RsslVerif.Lemmas.Trivia
open RsslVerif.Model.SourceMap RsslVerif.Model.Trivia RsslVerif.Lemmas.SourceMap

variable {τ : Type}

theorem lexBytes_nil (L : Lexer τ) (off : Nat) : lexBytes L [] off = .ok [] := by
  unfold lexBytes; simp

theorem lexBytes_step (L : Lexer τ) (x : Bytes) (off : Nat) (t : τ) (n : Nat)
    (hx : x ≠ []) (ht : L.tok x = some (t, n)) (hn : 0 < n) (hle : n ≤ x.length) :
    lexBytes L x off = consOk ⟨t, off, off + n⟩ (lexBytes L (x.drop n) (off + n)) := by
  rw [lexBytes]
  simp [hx, ht, hn, hle]

/-- inversion of a successful run -/
theorem lexBytes_ok_inv (L : Lexer τ) (x : Bytes) (off : Nat) (toks : List (Spanned τ))
    (h : lexBytes L x off = .ok toks) :
    (x = [] ∧ toks = []) ∨
    ∃ t n rest, x ≠ [] ∧ L.tok x = some (t, n) ∧ 0 < n ∧ n ≤ x.length ∧
      lexBytes L (x.drop n) (off + n) = .ok rest ∧ toks = ⟨t, off, off + n⟩ :: rest := by
  by_cases hx : x = []
  · subst hx
    rw [lexBytes_nil] at h
    left; exact ⟨rfl, by cases h; rfl⟩
  · right
    rw [lexBytes] at h
    simp only [hx, if_false] at h
    cases ht : L.tok x with
    | none => rw [ht] at h; simp at h
    | some tn =>
      obtain ⟨t, n⟩ := tn
      rw [ht] at h
      simp only at h
      by_cases hn : 0 < n ∧ n ≤ x.length
      · simp only [hn, and_self, dite_true] at h
        cases hr : lexBytes L (x.drop n) (off + n) with
        | error e => rw [hr] at h; simp [consOk] at h
        | ok rest =>
          rw [hr] at h
          simp only [consOk] at h
          exact ⟨t, n, rest, hx, rfl, hn.1, hn.2, hr, by cases h; rfl⟩
      · simp [hn] at h

def mapOk (f : List (Spanned τ) → List (Spanned τ)) : Except LexErr (List (Spanned τ)) → Except LexErr (List (Spanned τ))
  | .ok l => .ok (f l)
  | .error e => .error e

/-- spans of a successful run start at `off`, are contiguous, non-empty, and end at `off + |x|` -/
theorem lexBytes_spans (L : Lexer τ) (x : Bytes) (off : Nat) (toks : List (Spanned τ))
    (h : lexBytes L x off = .ok toks) :
    ∀ t ∈ toks, off ≤ t.start ∧ t.start < t.stop ∧ t.stop ≤ off + x.length := by
  induction hlen : x.length using Nat.strongRecOn generalizing x off toks with
  | _ len ih =>
    rcases lexBytes_ok_inv L x off toks h with ⟨_, rfl⟩ | ⟨t, n, rest, hx, _, hn, hle, hr, rfl⟩
    · intro t ht; cases ht
    · intro u hu
      rcases List.mem_cons.1 hu with rfl | hu
      · simp; omega
      · have hl : (x.drop n).length < len := by simp [List.length_drop]; omega
        have := ih _ hl (x.drop n) (off + n) rest hr rfl u hu
        simp [List.length_drop] at this
        omega

/-- the loop does not look at the offset: lexing at a different base only relabels the spans -/
theorem lexBytes_shift (L : Lexer τ) (x : Bytes) (off d : Nat) (toks : List (Spanned τ))
    (h : lexBytes L x off = .ok toks) :
    lexBytes L x (off + d) = .ok (toks.map (Spanned.shift d)) := by
  induction hlen : x.length using Nat.strongRecOn generalizing x off toks with
  | _ len ih =>
    rcases lexBytes_ok_inv L x off toks h with ⟨rfl, rfl⟩ | ⟨t, n, rest, hx, ht, hn, hle, hr, rfl⟩
    · simp [lexBytes_nil]
    · have hl : (x.drop n).length < len := by simp [List.length_drop]; omega
      have := ih _ hl (x.drop n) (off + n) rest hr rfl
      rw [lexBytes_step L x (off + d) t n hx ht hn hle]
      have e : off + d + n = off + n + d := by omega
      rw [e, this]
      simp [consOk, Spanned.shift]

/-! ### the three facts about the lexer the trivia theorem needs (for one trivia text `w`) -/

/-- **(T) the trivia lexes as trivia.** Whatever follows, lexing `w ++ y` first produces the tokens
    `ws` (token, length) covering exactly `w`, then continues with `y`. -/
def LexesAs (L : Lexer τ) (w : Bytes) (ws : List (τ × Nat)) : Prop :=
  ∀ y off, lexBytes L (w ++ y) off = mapOk (fun r => spansFrom ws off ++ r) (lexBytes L y (off + w.length))

/-- **(A) closed under following trivia.** The token `t` at the front of `x` is still lexed, with the
    same length, when `w` is inserted directly after it. -/
def AdjacentStable (L : Lexer τ) (w : Bytes) (t : τ) : Prop :=
  ∀ x n, L.tok x = some (t, n) → 0 < n → n ≤ x.length → L.tok (x.take n ++ w ++ x.drop n) = some (t, n)

/-- **(D) bounded lookahead.** The token at the front of `x` is unchanged when `w` is inserted at or
    beyond the end of the token that follows it. -/
def DistantStable (L : Lexer τ) (w : Bytes) : Prop :=
  ∀ x t n t2 n2 j, L.tok x = some (t, n) → 0 < n → n ≤ x.length →
    L.tok (x.drop n) = some (t2, n2) → 0 < n2 → n + n2 ≤ j → j ≤ x.length →
    L.tok (insertAt x j w) = some (t, n)

/-- **(A′)** like (A), for texts `x` that satisfy a side condition `good` (a property of the text that starts
    at the token, e.g. "the float lexer did not give up on an `x` suffix here") -/
def AdjacentStableIf (L : Lexer τ) (w : Bytes) (good : Bytes → Prop) (t : τ) : Prop :=
  ∀ x n, good x → L.tok x = some (t, n) → 0 < n → n ≤ x.length → L.tok (x.take n ++ w ++ x.drop n) = some (t, n)

/-- **(D′)** like (D), but only claimed when the token that follows is itself unchanged in the edited text (which
    the induction provides) and `x` satisfies the side condition.  A look-ahead of one whole token (`<`, `>`) and
    lexers whose answer for the following token depends on the inserted text (`/` followed by a comment) fit
    this form; they do not fit (D). -/
def DistantStableIf (L : Lexer τ) (w : Bytes) (good : Bytes → Prop) : Prop :=
  ∀ x t n t2 n2 j, good x → L.tok x = some (t, n) → 0 < n → n ≤ x.length →
    L.tok (x.drop n) = some (t2, n2) → 0 < n2 → n + n2 ≤ j → j ≤ x.length →
    L.tok (insertAt (x.drop n) (j - n) w) = some (t2, n2) →
    L.tok (insertAt x j w) = some (t, n)

theorem insertAt_zero (x w : Bytes) : insertAt x 0 w = w ++ x := by simp [insertAt]

theorem insertAt_split (x w : Bytes) (n j : Nat) (hn : n ≤ j) (hj : j ≤ x.length) :
    insertAt x j w = x.take n ++ insertAt (x.drop n) (j - n) w := by
  unfold insertAt
  have h1 : x.take j = x.take n ++ (x.drop n).take (j - n) := take_split x n j hn
  have h2 : (x.drop n).drop (j - n) = x.drop j := by rw [List.drop_drop]; congr 1; omega
  rw [h1, h2]; simp [List.append_assoc]

theorem take_insertAt_prefix (x w : Bytes) (n j : Nat) (hn : n ≤ j) (hj : j ≤ x.length) :
    (insertAt x j w).take n = x.take n ∧ (insertAt x j w).drop n = insertAt (x.drop n) (j - n) w := by
  rw [insertAt_split x w n j hn hj]
  have hl : (x.take n).length = n := by simp [List.length_take]; omega
  constructor
  · rw [List.take_append_of_le_length (by omega)]; simp [List.take_take]
  · have := List.drop_length_add_append (l₁ := x.take n) (l₂ := insertAt (x.drop n) (j - n) w) 0
    simpa [hl] using this

/-- tokens split at boundary `i`: those that end at or before `i`, and the rest -/
def beforeB (i : Nat) (toks : List (Spanned τ)) : List (Spanned τ) := toks.filter fun t => t.stop ≤ i
def afterB (i : Nat) (toks : List (Spanned τ)) : List (Spanned τ) := toks.filter fun t => ¬ t.stop ≤ i

/-- `i` is the start of the text or the end of a token after which insertion is allowed -/
def BoundaryOK (allowed : τ → Prop) (off i : Nat) (toks : List (Spanned τ)) : Prop :=
  i = off ∨ ∃ t ∈ toks, t.stop = i ∧ allowed t.tok

theorem filter_all_after (i off : Nat) (toks : List (Spanned τ))
    (h : ∀ t ∈ toks, off ≤ t.start ∧ t.start < t.stop) (hi : i ≤ off) :
    beforeB i toks = [] ∧ afterB i toks = toks := by
  constructor
  · unfold beforeB
    rw [List.filter_eq_nil_iff]
    intro t ht
    have := h t ht
    simp; omega
  · unfold afterB
    rw [List.filter_eq_self]
    intro t ht
    have := h t ht
    simp; omega

/-- **Insertion at a token boundary (general form).** If `x` lexes to `toks`, `i` is an allowed boundary, the
    text at the start of every token that ends at or before `i` satisfies the side condition `good`, and the lexer
    satisfies (T), (A′) for allowed tokens and (D′) for `w`, then `x` with `w` inserted at `i` lexes to: the tokens
    before `i` unchanged, the trivia tokens, the tokens after `i` moved by `|w|`. -/
theorem lexBytes_insert_if (L : Lexer τ) (w : Bytes) (ws : List (τ × Nat)) (allowed : τ → Prop) (good : Bytes → Prop)
    (hT : LexesAs L w ws) (hA : ∀ t, allowed t → AdjacentStableIf L w good t) (hD : DistantStableIf L w good)
    (x : Bytes) (off i : Nat) (toks : List (Spanned τ))
    (h : lexBytes L x off = .ok toks) (hb : BoundaryOK allowed off i toks)
    (hg : ∀ t ∈ toks, t.stop ≤ i → good (x.drop (t.start - off))) :
    lexBytes L (insertAt x (i - off) w) off =
      .ok (beforeB i toks ++ spansFrom ws i ++ (afterB i toks).map (Spanned.shift w.length)) := by
  induction hlen : x.length using Nat.strongRecOn generalizing x off toks with
  | _ len ih =>
    have hsp := lexBytes_spans L x off toks h
    by_cases hi : i = off
    · -- insertion at the very start of this suffix
      subst hi
      have hf := filter_all_after i i toks (fun t ht => ⟨(hsp t ht).1, (hsp t ht).2.1⟩) (Nat.le_refl _)
      rw [Nat.sub_self, insertAt_zero, hT x i, lexBytes_shift L x i w.length toks h, hf.1, hf.2]
      simp [mapOk]
    · rcases hb with hb | ⟨u, hu, hui, hua⟩
      · exact absurd hb hi
      · rcases lexBytes_ok_inv L x off toks h with ⟨_, rfl⟩ | ⟨t, n, rest, hx, ht, hn, hle, hr, rfl⟩
        · cases hu
        · have hrest := lexBytes_spans L (x.drop n) (off + n) rest hr
          have hl : (x.drop n).length < len := by simp [List.length_drop]; omega
          have hdl : (x.drop n).length = x.length - n := by simp [List.length_drop]
          rcases List.mem_cons.1 hu with rfl | hu'
          · -- the boundary is right after the first token
            simp only at hui hua
            have hi' : i - off = n := by omega
            have hf := filter_all_after i (off + n) rest (fun t ht => ⟨(hrest t ht).1, (hrest t ht).2.1⟩) (by omega)
            have htok := hA t hua x n (by have := hg ⟨t, off, off + n⟩ (by simp) (by simp; omega); simpa using this) ht hn hle
            have hins : insertAt x n w = x.take n ++ w ++ x.drop n := rfl
            have hne : insertAt x n w ≠ [] := by
              intro he
              have h1 : (insertAt x n w).length = x.length + w.length := length_insertAt x w n
              rw [he] at h1
              simp only [List.length_nil] at h1
              omega
            have hlen2 : n ≤ (insertAt x n w).length := by rw [length_insertAt]; omega
            rw [hi', lexBytes_step L (insertAt x n w) off t n hne (by rw [hins]; exact htok) hn hlen2]
            have hd : (insertAt x n w).drop n = w ++ x.drop n := by
              rw [hins, List.append_assoc]
              have hl2 : (x.take n).length = n := by simp [List.length_take]; omega
              have := List.drop_length_add_append (l₁ := x.take n) (l₂ := w ++ x.drop n) 0
              simpa [hl2] using this
            rw [hd, hT (x.drop n) (off + n), lexBytes_shift L (x.drop n) (off + n) w.length rest hr]
            have hb1 : beforeB i (⟨t, off, off + n⟩ :: rest) = [⟨t, off, off + n⟩] := by
              unfold beforeB at hf ⊢
              simp only [List.filter_cons]
              have : (decide ((⟨t, off, off + n⟩ : Spanned τ).stop ≤ i)) = true := by simp; omega
              rw [this, if_pos rfl, hf.1]
            have ha1 : afterB i (⟨t, off, off + n⟩ :: rest) = rest := by
              unfold afterB at hf ⊢
              simp only [List.filter_cons]
              have : (decide (¬ (⟨t, off, off + n⟩ : Spanned τ).stop ≤ i)) = false := by simp; omega
              rw [this]; simp only [Bool.false_eq_true, if_false]; exact hf.2
            rw [hb1, ha1]
            have : off + n = i := by omega
            simp [mapOk, consOk, this]
          · -- the boundary lies in the rest: at or beyond the end of the next token
            have hur := hrest u hu'
            have hige : off + n < i := by omega
            have hile : i ≤ off + x.length := by rw [hdl] at hur; omega
            have hbr : BoundaryOK allowed (off + n) i rest := Or.inr ⟨u, hu', hui, hua⟩
            have hgr : ∀ t' ∈ rest, t'.stop ≤ i → good ((x.drop n).drop (t'.start - (off + n))) := by
              intro t' ht' hst
              have h1 := hg t' (List.mem_cons_of_mem _ ht') hst
              have h2 := (hrest t' ht').1
              rw [List.drop_drop]
              have e : n + (t'.start - (off + n)) = t'.start - off := by omega
              rw [e]; exact h1
            have hrec := ih _ hl (x.drop n) (off + n) rest hr hbr hgr rfl
            -- the next token
            rcases lexBytes_ok_inv L (x.drop n) (off + n) rest hr with ⟨_, rfl⟩ | ⟨t2, n2, rest2, _, ht2, hn2, _, _, rfl⟩
            · cases hu'
            · have hfirst : off + n + n2 ≤ i := by
                rcases List.mem_cons.1 hu' with rfl | hu2
                · simp at hui; omega
                · have hsp2 := lexBytes_spans L (x.drop n) (off + n) (⟨t2, off + n, off + n + n2⟩ :: rest2) hr
                  -- tokens after the first of the rest start at or after its end
                  rcases lexBytes_ok_inv L (x.drop n) (off + n) _ hr with ⟨_, hnil⟩ | ⟨t3, n3, rest3, _, ht3, _, _, hr3, heq⟩
                  · cases hnil
                  · rw [ht2] at ht3
                    cases ht3
                    cases heq
                    have := lexBytes_spans L ((x.drop n).drop n2) (off + n + n2) rest2 hr3 u hu2
                    omega
              have hj : i - off ≤ x.length := by omega
              have hnj : n ≤ i - off := by omega
              have hgx : good x := by
                have := hg ⟨t, off, off + n⟩ (by simp) (by simp; omega)
                simpa using this
              -- the following token is unchanged in the edited rest (first step of `hrec`)
              have hnext : L.tok (insertAt (x.drop n) (i - off - n) w) = some (t2, n2) := by
                have e : i - off - n = i - (off + n) := by omega
                rw [e]
                have hb2 : beforeB i (⟨t2, off + n, off + n + n2⟩ :: rest2) =
                    ⟨t2, off + n, off + n + n2⟩ :: beforeB i rest2 := by
                  unfold beforeB
                  rw [List.filter_cons]
                  have : (decide ((⟨t2, off + n, off + n + n2⟩ : Spanned τ).stop ≤ i)) = true := by simp; omega
                  rw [this, if_pos rfl]
                rw [hb2] at hrec
                rcases lexBytes_ok_inv L _ _ _ hrec with ⟨_, hnil⟩ | ⟨t', n', rest', _, ht', _, _, _, heq⟩
                · simp at hnil
                · simp only [List.cons_append, List.cons.injEq, Spanned.mk.injEq] at heq
                  have hn' : n' = n2 := by omega
                  rw [ht', heq.1.1, hn']
              have hstable := hD x t n t2 n2 (i - off) hgx ht hn hle ht2 hn2 (by omega) hj hnext
              obtain ⟨htk, hdr⟩ := take_insertAt_prefix x w n (i - off) hnj hj
              have hne : insertAt x (i - off) w ≠ [] := by
                intro he
                have : (insertAt x (i - off) w).length = x.length + w.length := length_insertAt x w _
                rw [he] at this
                simp at this; omega
              have hlen2 : n ≤ (insertAt x (i - off) w).length := by rw [length_insertAt]; omega
              rw [lexBytes_step L (insertAt x (i - off) w) off t n hne hstable hn hlen2, hdr]
              have e : i - off - n = i - (off + n) := by omega
              rw [e, hrec]
              have hb1 : beforeB i (⟨t, off, off + n⟩ :: ⟨t2, off + n, off + n + n2⟩ :: rest2) =
                  ⟨t, off, off + n⟩ :: beforeB i (⟨t2, off + n, off + n + n2⟩ :: rest2) := by
                unfold beforeB
                rw [List.filter_cons]
                have : (decide ((⟨t, off, off + n⟩ : Spanned τ).stop ≤ i)) = true := by simp; omega
                rw [this, if_pos rfl]
              have ha1 : afterB i (⟨t, off, off + n⟩ :: ⟨t2, off + n, off + n + n2⟩ :: rest2) =
                  afterB i (⟨t2, off + n, off + n + n2⟩ :: rest2) := by
                unfold afterB
                rw [List.filter_cons]
                have : (decide (¬ (⟨t, off, off + n⟩ : Spanned τ).stop ≤ i)) = false := by simp; omega
                rw [this]; simp
              rw [hb1, ha1]
              simp [consOk]

/-- **Insertion at a token boundary.** The special case without side condition, with (A) and (D). -/
theorem lexBytes_insert (L : Lexer τ) (w : Bytes) (ws : List (τ × Nat)) (allowed : τ → Prop)
    (hT : LexesAs L w ws) (hA : ∀ t, allowed t → AdjacentStable L w t) (hD : DistantStable L w)
    (x : Bytes) (off i : Nat) (toks : List (Spanned τ))
    (h : lexBytes L x off = .ok toks) (hb : BoundaryOK allowed off i toks) :
    lexBytes L (insertAt x (i - off) w) off =
      .ok (beforeB i toks ++ spansFrom ws i ++ (afterB i toks).map (Spanned.shift w.length)) :=
  lexBytes_insert_if L w ws allowed (fun _ => True) hT
    (fun t ht x n _ h1 h2 h3 => hA t ht x n h1 h2 h3)
    (fun x t n t2 n2 j _ h1 h2 h3 h4 h5 h6 h7 _ => hD x t n t2 n2 j h1 h2 h3 h4 h5 h6 h7)
    x off i toks h hb (fun _ _ _ => trivial)

/-- at a token boundary no token straddles `i`: the tokens are those ending at or before `i` followed
    by those starting at or after `i` -/
theorem lexBytes_split (L : Lexer τ) (x : Bytes) (off i : Nat) (toks : List (Spanned τ))
    (h : lexBytes L x off = .ok toks) (hb : i = off ∨ ∃ t ∈ toks, t.stop = i) :
    toks = beforeB i toks ++ afterB i toks ∧ ∀ t ∈ afterB i toks, i ≤ t.start := by
  induction hlen : x.length using Nat.strongRecOn generalizing x off toks with
  | _ len ih =>
    have hsp := lexBytes_spans L x off toks h
    by_cases hi : i = off
    · have hf := filter_all_after i off toks (fun t ht => ⟨(hsp t ht).1, (hsp t ht).2.1⟩) (by omega)
      rw [hf.1, hf.2]
      refine ⟨by simp, fun t ht => ?_⟩
      have := (hsp t ht).1
      omega
    · rcases hb with hb | ⟨u, hu, hui⟩
      · exact absurd hb hi
      · rcases lexBytes_ok_inv L x off toks h with ⟨_, rfl⟩ | ⟨t, n, rest, hx, ht, hn, hle, hr, rfl⟩
        · cases hu
        · have hl : (x.drop n).length < len := by simp [List.length_drop]; omega
          have hrest := lexBytes_spans L (x.drop n) (off + n) rest hr
          have hge : off + n ≤ i := by
            rcases List.mem_cons.1 hu with rfl | hu'
            · simp at hui; omega
            · have := hrest u hu'; omega
          have hbr : i = off + n ∨ ∃ t ∈ rest, t.stop = i := by
            rcases List.mem_cons.1 hu with rfl | hu'
            · left; simp at hui; omega
            · right; exact ⟨u, hu', hui⟩
          obtain ⟨h1, h2⟩ := ih _ hl (x.drop n) (off + n) rest hr hbr rfl
          have hb1 : beforeB i (⟨t, off, off + n⟩ :: rest) = ⟨t, off, off + n⟩ :: beforeB i rest := by
            unfold beforeB
            rw [List.filter_cons]
            have : (decide ((⟨t, off, off + n⟩ : Spanned τ).stop ≤ i)) = true := by simp; omega
            rw [this, if_pos rfl]
          have ha1 : afterB i (⟨t, off, off + n⟩ :: rest) = afterB i rest := by
            unfold afterB
            rw [List.filter_cons]
            have : (decide (¬ (⟨t, off, off + n⟩ : Spanned τ).stop ≤ i)) = false := by simp; omega
            rw [this]; simp
          rw [hb1, ha1]
          exact ⟨by rw [List.cons_append, ← h1], h2⟩

theorem spansFrom_tok (ws : List (τ × Nat)) (off : Nat) (p : τ → Bool) (h : ∀ t ∈ ws, p t.1 = true) :
    ∀ s ∈ spansFrom ws off, p s.tok = true := by
  induction ws generalizing off with
  | nil => intro s hs; cases hs
  | cons a r ih =>
    obtain ⟨t, n⟩ := a
    intro s hs
    simp only [spansFrom, List.mem_cons] at hs
    rcases hs with rfl | hs
    · exact h (t, n) (by simp)
    · exact ih (off + n) (fun t ht => h t (by simp [ht])) s hs

theorem prepare_append_ws (L : Lexer τ) (ts extra : List (Spanned τ)) (h : ∀ t ∈ extra, L.isWs t.tok = true) :
    prepare L (ts ++ extra) = prepare L ts := by
  unfold prepare
  rw [List.filter_append]
  have : extra.filter (fun t => !L.isWs t.tok) = [] := by
    rw [List.filter_eq_nil_iff]
    intro t ht
    simp [h t ht]
  rw [this]; simp

/-! ### texts the lexer rejects -/

theorem lexPrefix_nil (L : Lexer τ) (off : Nat) : lexPrefix L [] off = [] := by
  unfold lexPrefix; simp

theorem lexPrefix_step (L : Lexer τ) (x : Bytes) (off : Nat) (t : τ) (n : Nat)
    (hx : x ≠ []) (ht : L.tok x = some (t, n)) (hn : 0 < n) (hle : n ≤ x.length) :
    lexPrefix L x off = ⟨t, off, off + n⟩ :: lexPrefix L (x.drop n) (off + n) := by
  rw [lexPrefix]
  simp [hx, ht, hn, hle]

/-- inversion of a failing run: it fails at once (nothing was lexed), or after a first good token -/
theorem lexBytes_err_inv (L : Lexer τ) (x : Bytes) (off : Nat) (e : LexErr)
    (h : lexBytes L x off = .error e) :
    (lexPrefix L x off = [] ∧ x ≠ [] ∧
      ((L.tok x = none ∧ e = .lexError off) ∨
       (∃ t n, L.tok x = some (t, n) ∧ ¬ (0 < n ∧ n ≤ x.length) ∧ e = .stuck off))) ∨
    ∃ t n, x ≠ [] ∧ L.tok x = some (t, n) ∧ 0 < n ∧ n ≤ x.length ∧
      lexBytes L (x.drop n) (off + n) = .error e ∧
      lexPrefix L x off = ⟨t, off, off + n⟩ :: lexPrefix L (x.drop n) (off + n) := by
  by_cases hx : x = []
  · subst hx; rw [lexBytes_nil] at h; cases h
  · rw [lexBytes] at h
    simp only [hx, if_false] at h
    cases ht : L.tok x with
    | none =>
      rw [ht] at h
      left
      refine ⟨by rw [lexPrefix]; simp [hx, ht], hx, Or.inl ⟨rfl, ?_⟩⟩
      cases h; rfl
    | some tn =>
      obtain ⟨t, n⟩ := tn
      rw [ht] at h
      simp only at h
      by_cases hn : 0 < n ∧ n ≤ x.length
      · right
        simp only [hn, and_self, dite_true] at h
        cases hr : lexBytes L (x.drop n) (off + n) with
        | ok rest => rw [hr] at h; simp [consOk] at h
        | error e' =>
          rw [hr] at h
          simp only [consOk] at h
          cases h
          exact ⟨t, n, hx, rfl, hn.1, hn.2, hr, lexPrefix_step L x off t n hx ht hn.1 hn.2⟩
      · left
        simp only [hn, dite_false] at h
        refine ⟨by rw [lexPrefix]; simp [hx, ht, hn], hx, Or.inr ⟨t, n, rfl, hn, ?_⟩⟩
        cases h; rfl

theorem lexPrefix_spans (L : Lexer τ) (x : Bytes) (off : Nat) :
    ∀ t ∈ lexPrefix L x off, off ≤ t.start ∧ t.start < t.stop ∧ t.stop ≤ off + x.length := by
  induction hlen : x.length using Nat.strongRecOn generalizing x off with
  | _ len ih =>
    by_cases hx : x = []
    · subst hx; rw [lexPrefix_nil]; intro t ht; cases ht
    · cases ht : L.tok x with
      | none => rw [lexPrefix]; simp [hx, ht]
      | some tn =>
        obtain ⟨t, n⟩ := tn
        by_cases hn : 0 < n ∧ n ≤ x.length
        · rw [lexPrefix_step L x off t n hx ht hn.1 hn.2]
          intro u hu
          rcases List.mem_cons.1 hu with rfl | hu
          · simp; omega
          · have hl : (x.drop n).length < len := by simp [List.length_drop]; omega
            have := ih _ hl (x.drop n) (off + n) rfl u hu
            simp [List.length_drop] at this
            omega
        · rw [lexPrefix]; simp [hx, ht, hn]

/-- a failing run fails at the same place, relabelled, when lexed at another base offset -/
theorem lexBytes_shift_err (L : Lexer τ) (x : Bytes) (off d : Nat) (e : LexErr)
    (h : lexBytes L x off = .error e) : lexBytes L x (off + d) = .error (e.shift d) := by
  induction hlen : x.length using Nat.strongRecOn generalizing x off with
  | _ len ih =>
    rcases lexBytes_err_inv L x off e h with ⟨_, hx, he⟩ | ⟨t, n, hx, ht, hn, hle, hr, _⟩
    · rcases he with ⟨ht, rfl⟩ | ⟨t, n, ht, hn, rfl⟩
      · rw [lexBytes]; simp [hx, ht, LexErr.shift]
      · rw [lexBytes]; simp [hx, ht, hn, LexErr.shift]
    · have hl : (x.drop n).length < len := by simp [List.length_drop]; omega
      have := ih _ hl (x.drop n) (off + n) hr rfl
      rw [lexBytes_step L x (off + d) t n hx ht hn hle]
      have e2 : off + d + n = off + n + d := by omega
      rw [e2, this]; rfl

/-- **Insertion at a token boundary of a text the lexer rejects.** `i` is the start of the text or the
    end of one of the tokens lexed before the failure (after which insertion is allowed).  The edited
    text is rejected too, for the same reason, at the moved offset. -/
theorem lexBytes_insert_error_if (L : Lexer τ) (w : Bytes) (ws : List (τ × Nat)) (allowed : τ → Prop) (good : Bytes → Prop)
    (hT : LexesAs L w ws) (hA : ∀ t, allowed t → AdjacentStableIf L w good t) (hD : DistantStableIf L w good)
    (x : Bytes) (off i : Nat) (e : LexErr)
    (h : lexBytes L x off = .error e) (hb : BoundaryOK allowed off i (lexPrefix L x off))
    (hg : ∀ t ∈ lexPrefix L x off, t.stop ≤ i → good (x.drop (t.start - off))) :
    lexBytes L (insertAt x (i - off) w) off = .error (e.shift w.length) ∧
      (∀ t n, i ≠ off → L.tok x = some (t, n) → 0 < n → n ≤ x.length → L.tok (insertAt x (i - off) w) = some (t, n)) := by
  induction hlen : x.length using Nat.strongRecOn generalizing x off with
  | _ len ih =>
    by_cases hi : i = off
    · subst hi
      rw [Nat.sub_self, insertAt_zero, hT x i, lexBytes_shift_err L x i w.length e h]
      exact ⟨rfl, fun _ _ hne => absurd rfl hne⟩
    · rcases hb with hb | ⟨u, hu, hui, hua⟩
      · exact absurd hb hi
      · rcases lexBytes_err_inv L x off e h with ⟨hnil, _, _⟩ | ⟨t, n, hx, ht, hn, hle, hr, hpre⟩
        · rw [hnil] at hu; cases hu
        · rw [hpre] at hu
          have hrest := lexPrefix_spans L (x.drop n) (off + n)
          have hl : (x.drop n).length < len := by simp [List.length_drop]; omega
          have hdl : (x.drop n).length = x.length - n := by simp [List.length_drop]
          rcases List.mem_cons.1 hu with rfl | hu'
          · simp only at hui hua
            have hi' : i - off = n := by omega
            have hgx : good x := by
              have := hg ⟨t, off, off + n⟩ (by rw [hpre]; simp) (by simp; omega)
              simpa using this
            have htok := hA t hua x n hgx ht hn hle
            have hins : insertAt x n w = x.take n ++ w ++ x.drop n := rfl
            have hne : insertAt x n w ≠ [] := by
              intro he
              have h1 : (insertAt x n w).length = x.length + w.length := length_insertAt x w n
              rw [he] at h1
              simp only [List.length_nil] at h1
              omega
            have hlen2 : n ≤ (insertAt x n w).length := by rw [length_insertAt]; omega
            rw [hi', lexBytes_step L (insertAt x n w) off t n hne (by rw [hins]; exact htok) hn hlen2]
            have hd : (insertAt x n w).drop n = w ++ x.drop n := by
              rw [hins, List.append_assoc]
              have hl2 : (x.take n).length = n := by simp [List.length_take]; omega
              have := List.drop_length_add_append (l₁ := x.take n) (l₂ := w ++ x.drop n) 0
              simpa [hl2] using this
            rw [hd, hT (x.drop n) (off + n), lexBytes_shift_err L (x.drop n) (off + n) w.length e hr]
            refine ⟨rfl, ?_⟩
            intro t' n' _ ht' _ _
            rw [ht] at ht'
            cases ht'
            rw [hins] at *
            exact htok
          · have hur := hrest u hu'
            have hige : off + n < i := by omega
            have hile : i ≤ off + x.length := by rw [hdl] at hur; omega
            have hbr : BoundaryOK allowed (off + n) i (lexPrefix L (x.drop n) (off + n)) :=
              Or.inr ⟨u, hu', hui, hua⟩
            have hgr : ∀ t' ∈ lexPrefix L (x.drop n) (off + n), t'.stop ≤ i →
                good ((x.drop n).drop (t'.start - (off + n))) := by
              intro t' ht' hst
              have h1 := hg t' (by rw [hpre]; exact List.mem_cons_of_mem _ ht') hst
              have h2 := (hrest t' ht').1
              rw [List.drop_drop]
              have e2 : n + (t'.start - (off + n)) = t'.start - off := by omega
              rw [e2]; exact h1
            have hrec := ih _ hl (x.drop n) (off + n) hr hbr hgr rfl
            -- the next token exists because the prefix of the rest is not empty
            rcases lexBytes_err_inv L (x.drop n) (off + n) e hr with ⟨hnil, _, _⟩ | ⟨t2, n2, _, ht2, hn2, _, _, hpre2⟩
            · rw [hnil] at hu'; cases hu'
            · have hfirst : off + n + n2 ≤ i := by
                rw [hpre2] at hu'
                rcases List.mem_cons.1 hu' with rfl | hu2
                · simp at hui; omega
                · have := lexPrefix_spans L ((x.drop n).drop n2) (off + n + n2) u hu2
                  omega
              have hj : i - off ≤ x.length := by omega
              have hnj : n ≤ i - off := by omega
              have hgx : good x := by
                have := hg ⟨t, off, off + n⟩ (by rw [hpre]; simp) (by simp; omega)
                simpa using this
              have hnext : L.tok (insertAt (x.drop n) (i - off - n) w) = some (t2, n2) := by
                have e4 : i - off - n = i - (off + n) := by omega
                rw [e4]
                exact hrec.2 t2 n2 (by omega) ht2 hn2 (by assumption)
              have hstable := hD x t n t2 n2 (i - off) hgx ht hn hle ht2 hn2 (by omega) hj hnext
              obtain ⟨_, hdr⟩ := take_insertAt_prefix x w n (i - off) hnj hj
              have hne : insertAt x (i - off) w ≠ [] := by
                intro he
                have h1 : (insertAt x (i - off) w).length = x.length + w.length := length_insertAt x w _
                rw [he] at h1
                simp only [List.length_nil] at h1
                omega
              have hlen2 : n ≤ (insertAt x (i - off) w).length := by rw [length_insertAt]; omega
              rw [lexBytes_step L (insertAt x (i - off) w) off t n hne hstable hn hlen2, hdr]
              have e3 : i - off - n = i - (off + n) := by omega
              rw [e3, hrec.1]
              refine ⟨rfl, ?_⟩
              intro t' n' _ ht' _ _
              rw [ht] at ht'
              cases ht'
              exact hstable

/-- the special case without side condition, with (A) and (D) -/
theorem lexBytes_insert_error (L : Lexer τ) (w : Bytes) (ws : List (τ × Nat)) (allowed : τ → Prop)
    (hT : LexesAs L w ws) (hA : ∀ t, allowed t → AdjacentStable L w t) (hD : DistantStable L w)
    (x : Bytes) (off i : Nat) (e : LexErr)
    (h : lexBytes L x off = .error e) (hb : BoundaryOK allowed off i (lexPrefix L x off)) :
    lexBytes L (insertAt x (i - off) w) off = .error (e.shift w.length) :=
  (lexBytes_insert_error_if L w ws allowed (fun _ => True) hT
    (fun t ht x n _ h1 h2 h3 => hA t ht x n h1 h2 h3)
    (fun x t n t2 n2 j _ h1 h2 h3 h4 h5 h6 h7 _ => hD x t n t2 n2 j h1 h2 h3 h4 h5 h6 h7)
    x off i e h hb (fun _ _ _ => trivial)).1

end RsslVerif.Lemmas.Trivia

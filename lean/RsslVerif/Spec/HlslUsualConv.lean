import RsslVerif.Model.ConstBinop
/-!
# What C13 means for operands of different kinds: HLSL's usual arithmetic conversions

Independent of the compiler's rank tables (only the *types* `BinOp`, `Scalar`, `OpShape`, `Target` are shared):

* `&&` and `||` work on `bool`;
* every other operator first promotes its operands: `bool` becomes `int`, an enum takes part through its underlying type;
  two operands of one enum type stay of that enum type;
* the common type is the later of `untyped integer literal < int < uint < untyped float literal < half < float < double`
  (an untyped literal takes the type of a typed operand of its class, an integer meets a float as a float);
* the shift and bit operators have no meaning for floating point operands.
-/
namespace RsslVerif.Spec.HlslUsualConv
open RsslVerif.Gen.RankTable (Scalar)
open RsslVerif.Gen.TypingTables (BinOp)
open RsslVerif.Model.ConstBinop (OpShape Target)

inductive OpClass where | logical | bits | arithmetic | comparison
  deriving DecidableEq, Repr

def classify : BinOp → Option OpClass
  | .booleanAnd | .booleanOr => some .logical
  | .leftShift | .rightShift | .bitwiseAnd | .bitwiseOr | .bitwiseXor => some .bits
  | .add | .subtract | .multiply | .divide | .modulus => some .arithmetic
  | .lessThan | .lessEqual | .greaterThan | .greaterEqual | .equality | .inequality => some .comparison
  | _ => none

/-- integer promotion -/
def promoted : OpShape → Scalar
  | .scalar .bool => .int32
  | .scalar s => s
  | .enumInt => .int32
  | .enumUInt => .uInt32

def convRank : Scalar → Nat
  | .bool => 0
  | .intLiteral => 1
  | .int32 => 2
  | .uInt32 => 3
  | .floatLiteral => 4
  | .float16 => 5
  | .float32 => 6
  | .float64 => 7

def isFloat : Scalar → Bool
  | .floatLiteral | .float16 | .float32 | .float64 => true
  | _ => false

def isEnum : OpShape → Bool
  | .enumInt | .enumUInt => true
  | _ => false

/-- the usual arithmetic conversions (two enum operands: of one enum type, `sameEnum`) -/
def usual (l r : OpShape) : Target :=
  if isEnum l ∧ isEnum r then .right
  else if convRank (promoted l) ≥ convRank (promoted r) then .scalar (promoted l) else .scalar (promoted r)

/-- the type both operands are converted to; `none`: the operator has no meaning for these operands -/
def commonTy (op : BinOp) (l r : OpShape) : Option Target :=
  match classify op with
  | none => none
  | some .logical => some (.scalar .bool)
  | some .bits => if isFloat (promoted l) ∨ isFloat (promoted r) then none else some (usual l r)
  | some _ => some (usual l r)

/-- two enum operands can only be of one enum type when their underlying types agree -/
def sameEnum (l r : OpShape) : Bool :=
  !((l = .enumInt ∧ r = .enumUInt) ∨ (l = .enumUInt ∧ r = .enumInt))

end RsslVerif.Spec.HlslUsualConv

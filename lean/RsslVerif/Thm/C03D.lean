import RsslVerif.Model.TypeMods
import RsslVerif.Gen.TypeMods
import RsslVerif.Thm.C03X
/-!
# C03, declared types: the modifiers of a typedef / template parameter survive the modifiers written at the use site

`Model.TypeMods` mirrors the modifier handling of `parse_type_for_usage` (typer/src/typer/types.rs).  The constness the
write checks of `Thm.C03X` rely on is the constness of the *declared type*; these theorems say where that comes from:
the declared type of `<use-site keywords> Tn x`, `Tn` a typedef over typedefs (or a struct-template type parameter bound
to one), carries a modifier exactly if **some layer of the chain or the use site** writes it — no layer is lost, whatever
else is written anywhere (seeded mutant C03-5 applied the use-site modifiers *below* the typedef's own modifier layer:
`typedef const float CF; volatile CF x; x = 2;` was accepted).  All statements are for every chain length, every keyword
list, every declaration position, every shape of the type below the modifiers.
-/
namespace RsslVerif.Thm.C03D
open RsslVerif.Model.TypeMods
open RsslVerif.Gen.TypingTables RsslVerif.Model.Conv
open RsslVerif.Model.IrTypingX RsslVerif.Model.ElabX

/-! ## the tie: the re-extracted source facts are what the model was written from -/

instance : DecidableEq (Except Err Mods) := fun a b =>
  match a, b with
  | .ok x, .ok y => if h : x = y then isTrue (by rw [h]) else isFalse (by intro e; cases e; exact h rfl)
  | .error x, .error y => if h : x = y then isTrue (by rw [h]) else isFalse (by intro e; cases e; exact h rfl)
  | .ok _, .error _ => isFalse (by intro e; cases e)
  | .error _, .ok _ => isFalse (by intro e; cases e)

def isErr (e : Err) : Except Err Mods → Bool
  | .error e' => e == e'
  | .ok _ => false

def good : Shape := ⟨true, true⟩

/-- the row of `Gen.TypeMods.keywordRows` the **model's behaviour** gives for a keyword: every entry is obtained by
    running `kwStep` (which field the accepted step sets, which single carried / previously written field makes it a
    conflict, which property of the type below it needs, which positions deny it, which errors it can answer) -/
def probeRow (k : Kw) : String × String × List String × String × List String × List String :=
  let sets := Kw.all.filter fun f => match kwStep Mods.none good .free Mods.none k with
    | .ok m => m.flag f
    | .error _ => false
  let confFull := Kw.all.filter fun f => isErr .modifierConflict (kwStep Mods.none good .free (Mods.none.set f) k)
  let confBase := Kw.all.filter fun f => isErr .modifierConflict (kwStep (Mods.none.set f) good .free Mods.none k)
  let needsMatrix := isErr .matrixOrderRequiresMatrixType (kwStep Mods.none ⟨false, true⟩ .free Mods.none k)
  let needsF32 := isErr .modifierRequiresFloatType (kwStep Mods.none ⟨true, false⟩ .free Mods.none k)
  let denied := Pos.all.filter fun p => isErr .modifierNotSupported (kwStep Mods.none good p Mods.none k)
  (k.variant, String.intercalate "," (sets.map Kw.field),
   confFull.map (fun f => "full_modifier." ++ f.field) ++ confBase.map (fun f => "base_modifier." ++ f.field),
   (if needsMatrix then "matrix" else "") ++ (if needsF32 then "float32" else ""),
   denied.map Pos.variant,
   (if denied.isEmpty then [] else ["ModifierNotSupported"]) ++
   (if confFull.isEmpty && confBase.isEmpty then [] else ["ModifierConflict"]) ++
   (if needsMatrix then ["MatrixOrderRequiresMatrixType"] else []) ++
   (if needsF32 then ["ModifierRequiresFloatType"] else []))

/-- **The source of `parse_type_for_usage` / `parse_type_modifier` / `TypeModifier::combine` is what `Model.TypeMods` was
    written from** (re-decided against the tables re-extracted from /repo on every run):
    the returned type is built from `extract_modifier(parsed_id)` — the type *below* the named type's modifier and that
    modifier —, `base_modifier.combine(direct_modifier)` and `combine_modifier(ir_ty, modifier)`, with no early return;
    `combine` ors every field of `TypeModifier`; the keyword arms of `parse_type_modifier` set, check and deny exactly
    what `kwStep` does, and the carried modifier they check against is the one of the applied type. -/
theorem parse_type_for_usage_as_modelled :
    RsslVerif.Gen.TypeMods.usageHead =
      ["letparsed_id=parse_typelayout(&ty.layout,context)?",
       "letdirect_modifier=parse_type_modifier(&ty.modifiers,parsed_id,position,context)?"] ∧
    RsslVerif.Gen.TypeMods.usageTail =
      ["let(ir_ty,base_modifier)=context.module.type_registry.extract_modifier(parsed_id)",
       "letmodifier=base_modifier.combine(direct_modifier)",
       "letty=context.module.type_registry.combine_modifier(ir_ty,modifier)",
       "Ok(ty)"] ∧
    RsslVerif.Gen.TypeMods.usageReturns = 0 ∧
    RsslVerif.Gen.TypeMods.modifierFields = Kw.all.map Kw.field ∧
    RsslVerif.Gen.TypeMods.combineFields =
      Kw.all.map (fun k => (k.field, "self." ++ k.field, "||", "other." ++ k.field)) ∧
    RsslVerif.Gen.TypeMods.modifierPrelude =
      ["let(unmodified_type,base_modifier)=context.module.type_registry.extract_modifier(applied_type)",
       "lettyl=context.module.type_registry.get_type_layer(unmodified_type)",
       "letmutfull_modifier=ir::TypeModifier::new()"] ∧
    RsslVerif.Gen.TypeMods.modifierEpilogue = ["}Ok(full_modifier)"] ∧
    RsslVerif.Gen.TypeMods.keywordRows = Kw.all.map probeRow := by
  refine ⟨?_, ?_, ?_, ?_, ?_, ?_, ?_, ?_⟩ <;> decide +kernel

/-! ## what the merge does -/

/-- `TypeModifier::combine`, field by field -/
theorem mergeModifiers_flag (a b : Mods) (k : Kw) : (mergeModifiers a b).flag k = (a.flag k || b.flag k) := by
  cases k <;> rfl

theorem set_flag (m : Mods) (k f : Kw) : (m.set k).flag f = (m.flag f || decide (f = k)) := by
  cases k <;> cases f <;> simp [Mods.set, Mods.flag]

theorem kwStep_flag {base : Mods} {sh : Shape} {pos : Pos} {full full' : Mods} {k : Kw}
    (h : kwStep base sh pos full k = .ok full') : full' = full.set k := by
  cases k <;> simp only [kwStep] at h
  · cases h; rfl
  all_goals
    repeat (split at h <;> try (first | (cases h; done) | skip))
    all_goals (first | (cases h; rfl) | skip)

theorem kwLoop_flag {base : Mods} {sh : Shape} {pos : Pos} {kws : List Kw} :
    ∀ {full d : Mods}, kwLoop base sh pos full kws = .ok d → ∀ f, d.flag f = (full.flag f || decide (f ∈ kws)) := by
  induction kws with
  | nil => intro full d h f; simp only [kwLoop] at h; cases h; simp
  | cons k ks ih =>
    intro full d h f
    simp only [kwLoop] at h
    split at h
    · cases h
    · rename_i full' hs
      rw [ih h f, kwStep_flag hs, set_flag]
      simp [Bool.or_assoc, List.mem_cons]

/-- what `parse_type_for_usage` returns carries a modifier iff the named type carries it or it is written -/
theorem parseTypeForUsage_flag {named m : Mods} {kws : List Kw} {sh : Shape} {pos : Pos}
    (h : parseTypeForUsage named kws sh pos = .ok m) (f : Kw) : m.flag f = (named.flag f || decide (f ∈ kws)) := by
  simp only [parseTypeForUsage, parseTypeModifier] at h
  split at h
  · cases h
  · rename_i direct hd
    cases h
    rw [mergeModifiers_flag, kwLoop_flag hd f]
    cases f <;> simp [Mods.none, Mods.flag]

theorem typedefChain_flag {sh : Shape} {layers : List (List Kw)} :
    ∀ {cur m : Mods}, typedefChain sh cur layers = .ok m →
      ∀ f, m.flag f = (cur.flag f || layers.any fun l => decide (f ∈ l)) := by
  induction layers with
  | nil => intro cur m h f; simp only [typedefChain] at h; cases h; simp
  | cons l ls ih =>
    intro cur m h f
    simp only [typedefChain] at h
    split at h
    · cases h
    · rename_i m' hm
      rw [ih h f, parseTypeForUsage_flag hm f]
      simp [Bool.or_assoc]

/-- **The declared type carries a modifier iff some typedef layer or the use site writes it**: for every chain of
    typedefs (any length; a template type parameter is one more layer), every keyword list at the use site, every
    declaration position and every type below the modifiers for which the declaration is accepted at all. -/
theorem declared_modifier_is_union_of_layers {sh : Shape} {layers : List (List Kw)} {use : List Kw} {pos : Pos} {m : Mods}
    (h : declMods sh layers use pos = .ok m) (f : Kw) :
    m.flag f = true ↔ (∃ l ∈ layers, f ∈ l) ∨ f ∈ use := by
  simp only [declMods] at h
  split at h
  · cases h
  · rename_i named hn
    rw [parseTypeForUsage_flag h f, typedefChain_flag hn f]
    cases f <;> simp [Mods.none, Mods.flag]

/-- **A typedef's `const` survives use-site modifiers**: the declared type is const iff any layer of the typedef chain or
    the use site says `const` — in particular `typedef const float CF; volatile CF x;` declares a const object. -/
theorem typedef_const_survives_use_site_modifiers {sh : Shape} {layers : List (List Kw)} {use : List Kw} {pos : Pos}
    {m : Mods} (h : declMods sh layers use pos = .ok m) :
    m.isConst = true ↔ (∃ l ∈ layers, Kw.const ∈ l) ∨ Kw.const ∈ use :=
  declared_modifier_is_union_of_layers h .const

/-- the same for the layout / normalisation modifiers of a typedef (`row_major`, `column_major`, `unorm`, `snorm`) and
    `volatile`: none is lost when another modifier is added at the use site -/
theorem typedef_modifiers_survive_use_site_modifiers {sh : Shape} {layers : List (List Kw)} {use : List Kw} {pos : Pos}
    {m : Mods} (h : declMods sh layers use pos = .ok m) {l : List Kw} (hl : l ∈ layers) {f : Kw} (hf : f ∈ l) :
    m.flag f = true :=
  (declared_modifier_is_union_of_layers h f).mpr (Or.inl ⟨l, hl, hf⟩)

/-- the declaration positions add nothing to the type: where `declModsAt` accepts, the declared modifier is `declMods`'s -/
theorem declModsAt_ok {sh : Shape} {layers : List (List Kw)} {use : List Kw} {pos : Pos} {m : Mods}
    (h : declModsAt sh layers use pos = .ok m) : declMods sh layers use pos = .ok m := by
  simp only [declModsAt] at h
  split at h
  · cases h
  · split at h
    · cases h
    · cases h; assumption

/-- a struct member is const only through its type: `const` written on the member itself is refused -/
theorem struct_member_const_comes_from_the_type {sh : Shape} {layers : List (List Kw)} {use : List Kw} {m : Mods}
    (h : declModsAt sh layers use .structMember = .ok m) : m.isConst = true ↔ ∃ l ∈ layers, Kw.const ∈ l := by
  have hu : Kw.const ∉ use := by
    intro hc
    simp only [declModsAt] at h
    split at h
    · cases h
    · simp [hc] at h
  rw [typedef_const_survives_use_site_modifiers (declModsAt_ok h)]
  simp [hu]

/-! ## the conflict checks (fix 8a3a2d4): an accepted declaration never has both orders / both normalisations -/

def Consistent (m : Mods) : Prop := (m.rowMajor && m.columnMajor) = false ∧ (m.unorm && m.snorm) = false

theorem kwStep_consistent {base : Mods} {sh : Shape} {pos : Pos} {full full' : Mods} {k : Kw}
    (hc : Consistent (mergeModifiers base full)) (h : kwStep base sh pos full k = .ok full') :
    Consistent (mergeModifiers base full') := by
  obtain ⟨b1, b2, b3, b4, b5, b6⟩ := base
  obtain ⟨f1, f2, f3, f4, f5, f6⟩ := full
  cases k <;> simp only [kwStep, Mods.set] at h
  · cases h; exact hc
  all_goals
    repeat (split at h <;> try (first | (cases h; done) | skip))
    all_goals (first | (cases h; simp_all [Consistent, mergeModifiers]) | skip)

theorem kwLoop_consistent {base : Mods} {sh : Shape} {pos : Pos} {kws : List Kw} :
    ∀ {full d : Mods}, Consistent (mergeModifiers base full) → kwLoop base sh pos full kws = .ok d →
      Consistent (mergeModifiers base d) := by
  induction kws with
  | nil => intro full d hc h; simp only [kwLoop] at h; cases h; exact hc
  | cons k ks ih =>
    intro full d hc h
    simp only [kwLoop] at h
    split at h
    · cases h
    · rename_i full' hs
      exact ih (kwStep_consistent hc hs) h

theorem parseTypeForUsage_consistent {named m : Mods} {kws : List Kw} {sh : Shape} {pos : Pos}
    (hc : Consistent named) (h : parseTypeForUsage named kws sh pos = .ok m) : Consistent m := by
  simp only [parseTypeForUsage, parseTypeModifier] at h
  split at h
  · cases h
  · rename_i direct hd
    cases h
    refine kwLoop_consistent ?_ hd
    obtain ⟨b1, b2, b3, b4, b5, b6⟩ := named
    simpa [Consistent, mergeModifiers, Mods.none] using hc

theorem typedefChain_consistent {sh : Shape} {layers : List (List Kw)} :
    ∀ {cur m : Mods}, Consistent cur → typedefChain sh cur layers = .ok m → Consistent m := by
  induction layers with
  | nil => intro cur m hc h; simp only [typedefChain] at h; cases h; exact hc
  | cons l ls ih =>
    intro cur m hc h
    simp only [typedefChain] at h
    split at h
    · cases h
    · rename_i m' hm
      exact ih (parseTypeForUsage_consistent hc hm) h

/-- **No accepted declaration is both `row_major` and `column_major`, or both `unorm` and `snorm`** — wherever along the
    typedef chain and the use site the two keywords are written (the conflict checks look at the carried modifier too). -/
theorem declared_modifier_consistent {sh : Shape} {layers : List (List Kw)} {use : List Kw} {pos : Pos} {m : Mods}
    (h : declMods sh layers use pos = .ok m) :
    ¬ (m.rowMajor = true ∧ m.columnMajor = true) ∧ ¬ (m.unorm = true ∧ m.snorm = true) := by
  simp only [declMods] at h
  split at h
  · cases h
  · rename_i named hn
    have hc := parseTypeForUsage_consistent (typedefChain_consistent (by simp [Consistent, Mods.none]) hn) h
    obtain ⟨h1, h2⟩ := hc
    constructor
    · rintro ⟨a, b⟩; simp [a, b] at h1
    · rintro ⟨a, b⟩; simp [a, b] at h2

/-- conflicting keywords are rejected wherever they meet: directly, or one carried by a typedef layer -/
theorem conflicting_modifiers_rejected {sh : Shape} {layers : List (List Kw)} {use : List Kw} {pos : Pos}
    {a b : Kw} (hab : a.conflict = some b) (ha : (∃ l ∈ layers, a ∈ l) ∨ a ∈ use) (hb : (∃ l ∈ layers, b ∈ l) ∨ b ∈ use) :
    ∀ m, declMods sh layers use pos ≠ .ok m := by
  intro m h
  have fa := (declared_modifier_is_union_of_layers h a).mpr ha
  have fb := (declared_modifier_is_union_of_layers h b).mpr hb
  have hc := declared_modifier_consistent h
  cases a <;> cases b <;> simp [Kw.conflict] at hab <;> simp_all [Mods.flag]

/-! ## composition with the write checks of `Thm.C03X` -/

/-- **An object declared through a const typedef is never written, whatever is added at the use site**: if the declared
    type of `a` is the one `parse_type_for_usage` computes for a chain with `const` in some layer (or at the use site),
    no assignment-family operator and no `++` / `--` with target `a` is accepted. -/
theorem typedef_const_write_rejected {sh : Shape} {layers : List (List Kw)} {use : List Kw} {pos : Pos} {m : Mods}
    (h : declMods sh layers use pos = .ok m) (hc : (∃ l ∈ layers, Kw.const ∈ l) ∨ Kw.const ∈ use)
    {Γ : Env} {dbg : Bool} {a : SExpr} {a' : IExpr} {τa : ETy}
    (ha : elabE dbg Γ a = .ok (a', τa)) (hτ : τa.ty.mod = m.toModifier) :
    (∀ (o : BinOp) (b : SExpr), o.cls = .assign → ∀ r, elabE dbg Γ (.bin o a b) ≠ .ok r) ∧
    (∀ (o : UnOp), (o = .prefixIncrement ∨ o = .prefixDecrement ∨ o = .postfixIncrement ∨ o = .postfixDecrement) →
      ∀ r, elabE dbg Γ (.un o a) ≠ .ok r) := by
  have hm := (typedef_const_survives_use_site_modifiers h).mpr hc
  exact RsslVerif.Thm.C03X.elab_rejects_const_write ha (by rw [hτ]; simpa [Mods.toModifier] using hm)

/-! ## the discipline of seeded mutant C03-5, as a negation witness -/

/-- the mutant's tail: a named type used without keywords is returned as found; otherwise the written modifier alone is
    put onto the type **below** the named type's modifier -/
def mutantUsage (named : Mods) (kws : List Kw) (sh : Shape) (pos : Pos) : Except Err Mods :=
  match parseTypeModifier kws named sh pos with
  | .error e => .error e
  | .ok direct => if direct = Mods.none then .ok named else .ok direct

/-- under that discipline `typedef const float CF; volatile CF x` declares a non-const object (so the statement of
    `typedef_const_survives_use_site_modifiers` is about the merge, not a consequence of the keyword checks) -/
theorem mutant_discipline_drops_typedef_const :
    ∃ m, mutantUsage { isConst := true } [.volatile] ⟨false, true⟩ .localVar = .ok m ∧ m.isConst = false ∧
      parseTypeForUsage { isConst := true } [.volatile] ⟨false, true⟩ .localVar = .ok { m with isConst := true } := by
  refine ⟨{ volatile := true }, ?_, ?_, ?_⟩ <;> decide

/-! ## non-vacuity -/

/-- `typedef const float T0; typedef volatile T0 T1; unorm T1 x;` (local): accepted, declared `const volatile unorm` -/
example : declMods ⟨false, true⟩ [[.const], [.volatile]] [.unorm] .localVar =
    .ok { isConst := true, volatile := true, unorm := true } := by decide
/-- `typedef row_major float2x2 T0; column_major T0 m;` is a conflict; `typedef const int T0; unorm T0 x` needs float;
    `volatile` struct members are not supported -/
example : declMods ⟨true, true⟩ [[.rowMajor]] [.columnMajor] .localVar = .error .modifierConflict := by decide
example : declMods ⟨false, false⟩ [[.const]] [.unorm] .localVar = .error .modifierRequiresFloatType := by decide
example : declMods ⟨false, true⟩ [[.const]] [.volatile] .structMember = .error .modifierNotSupported := by decide

end RsslVerif.Thm.C03D

//! rssl-verif-harness: runs the real rssl crates (built from /repo's working tree with
//! `--cfg trark_rssl_verif`) on generated inputs and prints line-protocol observations.
//!
//! usage: harness <property> [--tier quick|thorough] [--seed N] [--n N] [--requests FILE] [extra...]
mod util;

mod c06;

use util::*;

fn main() {
    let argv: Vec<String> = std::env::args().collect();
    if argv.len() < 2 {
        eprintln!("usage: harness <property> [--tier T] [--seed N] [--n N] [--requests FILE]");
        std::process::exit(2);
    }
    let prop = argv[1].to_lowercase();
    let mut args = Args {
        tier: "quick".into(),
        seed: 0,
        n: None,
        requests: None,
        extra: Vec::new(),
    };
    let mut i = 2;
    while i < argv.len() {
        match argv[i].as_str() {
            "--tier" => {
                args.tier = argv[i + 1].clone();
                i += 2;
            }
            "--seed" => {
                args.seed = argv[i + 1].parse().unwrap_or(0);
                i += 2;
            }
            "--n" => {
                args.n = argv[i + 1].parse().ok();
                i += 2;
            }
            "--requests" => {
                args.requests = Some(argv[i + 1].clone());
                i += 2;
            }
            other => {
                args.extra.push(other.to_string());
                i += 1;
            }
        }
    }
    install_panic_hook();
    let mut out = Out::new();
    match prop.as_str() {
        "c06" => c06::run(&args, &mut out),
        _ => {
            eprintln!("unknown property {}", prop);
            std::process::exit(2);
        }
    }
    out.finish();
}

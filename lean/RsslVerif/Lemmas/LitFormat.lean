import RsslVerif.Lemmas.LexerFloat
import RsslVerif.Lemmas.LexerInt
import RsslVerif.Lemmas.Dec2Bin
import RsslVerif.Lemmas.Dec2BinCutoff
import RsslVerif.Lemmas.Dec2BinMono
import RsslVerif.Model.LitFormat
/-!
# Printed literals read back by the lexer (C10, "that value appears unchanged in the output")

* `Spec.Dec2Bin`: the same rational rounds to the same bits (`nearestRat_congr`), appending `.0` to a digit string
  does not change its double (`nearest64_append_zero`), rounding the exact value of a finite bit pattern returns the
  pattern (`decode_canon`, `nearestRat_of_bits`).
* `Model.Lexer`: the text `<digits>.<digits><suffix>` followed by a boundary is one float token with the nearest
  double of exactly those digits (`literalFloat_printed`); `Display` of an unsigned integer (`decDigits_spec`) followed
  by the suffix `format_literal` appends is one integer token with that value (`tokenInt_printed`).
-/
namespace RsslVerif.Spec.Dec2Bin

/-- the same rational gives the same result -/
theorem nearestRat_congr (f : Fmt) (hp : 2 ≤ f.p) (N M N' M' : Nat) (hM : 0 < M) (hM' : 0 < M')
    (h : N * M' = N' * M) : nearestRat f N M = nearestRat f N' M' :=
  Nat.le_antisymm (nearestRat_mono f hp N M N' M' hM hM' (Nat.le_of_eq h))
    (nearestRat_mono f hp N' M' N M hM' hM (Nat.le_of_eq h.symm))

theorem ofDigits_append_zero (ds : List Nat) : ofDigits 10 (ds ++ [0]) = ofDigits 10 ds * 10 := by
  simp [ofDigits, List.foldl_append]

/-- appending `.0` does not change the value: `<L>.0` is the double of `<L>` -/
theorem nearest64_append_zero (ds : List Nat) (hds : ∀ d ∈ ds, d < 10) :
    nearest64 (ds ++ [0]) (-1) = nearest64 ds 0 := by
  have hds' : ∀ d ∈ ds ++ [0], d < 10 := by
    intro d hd
    rcases List.mem_append.mp hd with h | h
    · exact hds d h
    · simp at h; omega
  rw [nearest64_eq_nearestRat _ _ hds', nearest64_eq_nearestRat _ _ hds]
  simp only [show ¬ (0 : Int) ≤ -1 by omega, if_false, Int.le_refl, if_true]
  rw [ofDigits_append_zero]
  apply nearestRat_congr binary64 (by decide) _ _ _ _ (by decide) (by decide)
  simp

/-- decoding a positive finite bit pattern gives its canonical significand / exponent, which encode back to it -/
theorem decode_canon (f : Fmt) (hp : 2 ≤ f.p) (bits : Nat) (h0 : 0 < bits) :
    Canon f (decode f bits).1 (decode f bits).2 ∧ encode f (decode f bits).1 (decode f bits).2 = bits := by
  have hP : 0 < 2 ^ (f.p - 1) := two_pow_pos _
  have hpp : 2 ^ f.p = 2 * 2 ^ (f.p - 1) := by
    have : f.p = (f.p - 1) + 1 := by omega
    rw [this, Nat.pow_succ, Nat.mul_comm]; simp
  have hdm := Nat.div_add_mod bits (2 ^ (f.p - 1))
  have hml := Nat.mod_lt bits hP
  unfold decode encode Canon
  dsimp only
  rw [hpp]
  generalize 2 ^ (f.p - 1) = P at *
  generalize bits / P = e at *
  generalize bits % P = fr at *
  by_cases he : e = 0
  · simp only [he, if_true]
    subst he
    simp at hdm
    refine ⟨⟨by omega, Int.le_refl _, by omega, fun h => absurd h (Int.lt_irrefl _)⟩, ?_⟩
    simp
    omega
  · simp only [he, if_false]
    refine ⟨⟨by omega, by omega, by omega, fun _ => by omega⟩, ?_⟩
    have : (f.emin + (e : Int) - 1 - f.emin).toNat = e - 1 := by omega
    rw [this]
    have h1 : (e - 1) * P + (fr + P) = e * P + fr := by
      have : e = (e - 1) + 1 := by omega
      rw [this, Nat.add_mul]; simp; omega
    rw [h1, Nat.mul_comm]
    exact hdm

/-- **nearestRat_of_bits**: rounding the exact value of a positive finite bit pattern gives that bit pattern:
any `N / M` equal to `m · 2^q` (`(m, q)` = the decoded pair) -/
theorem nearestRat_of_bits (f : Fmt) (hp : 2 ≤ f.p) (bits : Nat) (h0 : 0 < bits) (hfin : bits < f.infBits)
    (N M : Nat) (hM : 0 < M)
    (h : N * 2 ^ (-(decode f bits).2).toNat = (decode f bits).1 * 2 ^ (decode f bits).2.toNat * M) :
    nearestRat f N M = bits := by
  obtain ⟨hc, henc⟩ := decode_canon f hp bits h0
  rw [nearestRat_congr f hp N M _ _ hM (two_pow_pos _) h, nearestRat_exact f hp _ _ hc, henc]
  exact Nat.min_eq_left (Nat.le_of_lt hfin)

end RsslVerif.Spec.Dec2Bin

set_option linter.unusedSimpArgs false
namespace RsslVerif.Model.Lexer
open RsslVerif.Gen.LexTables RsslVerif.Spec

theorem decDigit_digitByte (d : Nat) (h : d < 10) : decDigit? (digitByte d) = some d := by
  unfold decDigit? digitByte
  have : (UInt8.ofNat (48 + d)).toNat = 48 + d := by
    simp [UInt8.toNat_ofNat]; omega
  rw [this]
  simp
  omega

/-- the first byte of `bs` is not a decimal digit (or `bs` is empty) -/
def NoDigitHead (bs : Bytes) : Prop := ∀ b r, bs = b :: r → decDigit? b = none

theorem spanDigits_digits (ds : List Nat) (hds : ∀ d ∈ ds, d < 10) (rest : Bytes) (hr : NoDigitHead rest) :
    spanDigits (ds.map digitByte ++ rest) = (ds, rest) := by
  induction ds with
  | nil =>
    cases rest with
    | nil => rfl
    | cons b r => simp [spanDigits, hr b r rfl]
  | cons d ds ih =>
    have hd := decDigit_digitByte d (hds d (by simp))
    simp only [List.map_cons, List.cons_append, spanDigits, hd]
    rw [ih (fun x hx => hds x (by simp [hx]))]

theorem digitSequence_digits (d : Nat) (ds : List Nat) (hds : ∀ x ∈ d :: ds, x < 10) (rest : Bytes)
    (hr : NoDigitHead rest) :
    digitSequence ((d :: ds).map digitByte ++ rest) = .ok (rest, d :: ds) := by
  have hd := decDigit_digitByte d (hds d (by simp))
  simp only [digitSequence, List.map_cons, List.cons_append, digitWith, hd]
  rw [spanDigits_digits ds (fun x hx => hds x (by simp [hx])) rest hr]

/-- what may follow a printed literal: the end of the text, or a byte that is not an identifier character (letter,
digit, `_`) and not `#` (`#INF`) — an operator, a bracket, white space, `;`, `,`, `.` … -/
def Boundary (rest : Bytes) : Prop := ∀ b r, rest = b :: r → isIdentChar b = false ∧ b.toNat ≠ 35

/-- the bytes of a float suffix -/
def floatSuffix : Option FloatType → Bytes
  | none => []
  | some .Half => [104]
  | some .Float => [102]
  | some .Double => [76]

theorem identChar_of_digit {b : UInt8} {d : Nat} (h : decDigit? b = some d) : isIdentChar b = true := by
  unfold decDigit? at h
  split at h
  · rename_i hb; simp [isIdentChar, hb]
  · cases h

theorem Boundary.noDigit {rest : Bytes} (h : Boundary rest) : NoDigitHead rest := by
  intro b r hb
  cases hd : decDigit? b with
  | none => rfl
  | some d => have := (h b r hb).1; rw [identChar_of_digit hd] at this; cases this

theorem noDigit_suffix (ty : Option FloatType) (rest : Bytes) (h : Boundary rest) :
    NoDigitHead (floatSuffix ty ++ rest) := by
  match ty with
  | none => simpa [floatSuffix] using h.noDigit
  | some .Half => intro b r hb; simp [floatSuffix] at hb; rw [← hb.1]; decide
  | some .Float => intro b r hb; simp [floatSuffix] at hb; rw [← hb.1]; decide
  | some .Double => intro b r hb; simp [floatSuffix] at hb; rw [← hb.1]; decide



theorem floatExponent_none (i2 : Bytes) (h : ∀ b r, i2 = b :: r → b.toNat ≠ 101 ∧ b.toNat ≠ 69) :
    opt (floatExponent i2) i2 = (i2, none) := by
  cases i2 with
  | nil => rfl
  | cons b r =>
    have := h b r rfl
    simp [floatExponent, opt, wrongChars, this.1, this.2]

theorem identChar_e {b : UInt8} (h : isIdentChar b = false) : b.toNat ≠ 101 ∧ b.toNat ≠ 69 := by
  constructor <;> intro hb <;> simp [isIdentChar, isIdentStart, hb] at h

theorem suffix_head (ty : Option FloatType) (rest : Bytes) (h : Boundary rest) :
    ∀ b r, floatSuffix ty ++ rest = b :: r → b.toNat ≠ 101 ∧ b.toNat ≠ 69 ∧ b.toNat ≠ 35 := by
  intro b r hb
  match ty with
  | none =>
    simp [floatSuffix] at hb
    have := h b r hb
    exact ⟨(identChar_e this.1).1, (identChar_e this.1).2, this.2⟩
  | some .Half => simp [floatSuffix] at hb; rw [← hb.1]; decide
  | some .Float => simp [floatSuffix] at hb; rw [← hb.1]; decide
  | some .Double => simp [floatSuffix] at hb; rw [← hb.1]; decide

theorem stripInf_none (i : Bytes) (h : ∀ b r, i = b :: r → b.toNat ≠ 35) :
    stripPrefix? [35, 73, 78, 70] i = none := by
  cases i with
  | nil => rfl
  | cons b r =>
    have := h b r rfl
    have hb : ¬ (35 : UInt8) = b := by
      intro hb; subst hb; simp at this
    simp [stripPrefix?, hb]

theorem floatType_suffix (ty : Option FloatType) (rest : Bytes) (h : Boundary rest) :
    opt (floatType (floatSuffix ty ++ rest)) (floatSuffix ty ++ rest) = (rest, ty) := by
  match ty with
  | some .Half => simp [floatSuffix, floatType, floatTypeTable, floatTypeFrom, opt]
  | some .Float => simp [floatSuffix, floatType, floatTypeTable, floatTypeFrom, opt]
  | some .Double => simp [floatSuffix, floatType, floatTypeTable, floatTypeFrom, opt]
  | none =>
    cases rest with
    | nil => simp [floatSuffix, floatType, floatTypeTable, floatTypeFrom, opt, wrongChars]
    | cons b r =>
      have hb := (h b r rfl).1
      have h1 : b.toNat ≠ 104 ∧ b.toNat ≠ 72 ∧ b.toNat ≠ 102 ∧ b.toNat ≠ 70 ∧ b.toNat ≠ 108 ∧ b.toNat ≠ 76 := by
        refine ⟨?_, ?_, ?_, ?_, ?_, ?_⟩ <;> intro hx <;> simp [isIdentChar, isIdentStart, hx] at hb
      simp [floatSuffix, floatType, floatTypeTable, floatTypeFrom, opt, wrongChars, h1]

/-- **literalFloat_printed**: the text `<digits>.<digits><suffix>` followed by a boundary is one float token whose
value is the nearest double of exactly those digits (narrowed once for `h` / `f`) -/
theorem literalFloat_printed (l r : Nat) (L R : List Nat) (hL : ∀ d ∈ l :: L, d < 10) (hR : ∀ d ∈ r :: R, d < 10)
    (ty : Option FloatType) (rest : Bytes) (hb : Boundary rest) :
    literalFloat ((l :: L).map digitByte ++ 46 :: ((r :: R).map digitByte ++ (floatSuffix ty ++ rest))) =
      .ok (rest, mkFloatToken (Dec2Bin.nearest64 ((l :: L) ++ (r :: R)) (0 - ((r :: R).length : Nat))) ty) := by
  have hnd := noDigit_suffix ty rest hb
  have hsh := suffix_head ty rest hb
  -- the whole part
  have h46 : NoDigitHead (46 :: ((r :: R).map digitByte ++ (floatSuffix ty ++ rest))) := by
    intro b q hq; simp at hq; rw [← hq.1]; decide
  have hw := digitSequence_digits l L hL _ h46
  have hfr := digitSequence_digits r R hR _ hnd
  have hfc : fractionalConstant ((l :: L).map digitByte ++ 46 :: ((r :: R).map digitByte ++ (floatSuffix ty ++ rest))) =
      .ok (floatSuffix ty ++ rest, (l :: L, r :: R)) := by
    unfold fractionalConstant
    rw [hw]
    simp only [opt]
    rw [hfr]
    simp
  have hm : floatMantissa ((l :: L).map digitByte ++ 46 :: ((r :: R).map digitByte ++ (floatSuffix ty ++ rest))) =
      .ok (floatSuffix ty ++ rest, (true, l :: L, r :: R)) := by
    unfold floatMantissa
    rw [hfc]
    simp [opt]
  unfold literalFloat
  rw [hm]
  have hex := floatExponent_none (floatSuffix ty ++ rest) (fun b q hq => ⟨(hsh b q hq).1, (hsh b q hq).2.1⟩)
  have hinf := stripInf_none (floatSuffix ty ++ rest) (fun b q hq => (hsh b q hq).2.2)
  have hft := floatType_suffix ty rest hb
  simp only [hex, floatInf, hinf, hft, float64FromParts, Option.getD_none]
  cases rest with
  | nil => simp
  | cons c r5 =>
    have := (hb c r5 rfl).1
    simp [this]



/-! ## integers -/

theorem token_of_float_ok {b : UInt8} {r : Bytes} {x : Bytes × Token} (inc : Bool)
    (hd : 48 ≤ b.toNat ∧ b.toNat ≤ 57) (h : literalFloat (b :: r) = .ok x) :
    tokenIntermediate (b :: r) inc = .ok x := by
  simp only [tokenIntermediate, tokenStep, hd, and_self, if_true, h]

theorem digitByte_range (d : Nat) (h : d < 10) : 48 ≤ (digitByte d).toNat ∧ (digitByte d).toNat ≤ 57 := by
  have : (digitByte d).toNat = 48 + d := by
    unfold digitByte; simp [UInt8.toNat_ofNat]; omega
  omega

theorem digitRun_digits (ds : List Nat) (hds : ∀ d ∈ ds, d < 10) (rest : Bytes) (hr : NoDigitHead rest) :
    digitRun decDigit? (ds.map digitByte ++ rest) = ds ∧ afterRun decDigit? (ds.map digitByte ++ rest) = rest := by
  induction ds with
  | nil =>
    cases rest with
    | nil => exact ⟨rfl, rfl⟩
    | cons b r => simp [digitRun, afterRun, hr b r rfl]
  | cons d ds ih =>
    have hd := decDigit_digitByte d (hds d (by simp))
    have := ih (fun x hx => hds x (by simp [hx]))
    simp only [List.map_cons, List.cons_append, digitRun, afterRun, hd]
    exact ⟨by rw [this.1], this.2⟩

/-- the bytes `format_literal` appends to an integer literal -/
def intSuffix : Option IntType → Bytes
  | none => []
  | some .Unsigned32 => [117]
  | some .Unsigned64 => [117, 108]
  | some .Signed64 => [108]

/-- after an integer literal: a boundary that is not `.` either (`1.` would be a float) -/
def IntBoundary (rest : Bytes) : Prop := ∀ b r, rest = b :: r → isIdentChar b = false ∧ b.toNat ≠ 46

theorem intType_suffix (ity : Option IntType) (rest : Bytes) (h : IntBoundary rest) :
    opt (intType (intSuffix ity ++ rest)) (intSuffix ity ++ rest) = (rest, ity) := by
  have key : ∀ b r, rest = b :: r →
      b.toNat ≠ 117 ∧ b.toNat ≠ 85 ∧ b.toNat ≠ 108 ∧ b.toNat ≠ 76 := by
    intro b r hb
    have hi := (h b r hb).1
    refine ⟨?_, ?_, ?_, ?_⟩ <;> intro hx <;> simp [isIdentChar, isIdentStart, hx] at hi
  cases rest with
  | nil =>
    match ity with
    | none => simp [intSuffix, intType, intTypeTable, intTypeFrom, matchPrefix, opt, wrongChars]
    | some .Unsigned32 => simp [intSuffix, intType, intTypeTable, intTypeFrom, matchPrefix, opt, wrongChars]
    | some .Unsigned64 => simp [intSuffix, intType, intTypeTable, intTypeFrom, matchPrefix, opt, wrongChars]
    | some .Signed64 => simp [intSuffix, intType, intTypeTable, intTypeFrom, matchPrefix, opt, wrongChars]
  | cons b r =>
    have k := key b r rfl
    match ity with
    | none => simp [intSuffix, intType, intTypeTable, intTypeFrom, matchPrefix, opt, wrongChars, k]
    | some .Unsigned32 => simp [intSuffix, intType, intTypeTable, intTypeFrom, matchPrefix, opt, wrongChars, k]
    | some .Unsigned64 => simp [intSuffix, intType, intTypeTable, intTypeFrom, matchPrefix, opt, wrongChars, k]
    | some .Signed64 => simp [intSuffix, intType, intTypeTable, intTypeFrom, matchPrefix, opt, wrongChars, k]



/-! ## `Display` of an unsigned integer -/
open RsslVerif.Model in
theorem decDigitsRev_lt (fuel n : Nat) : ∀ d ∈ LitFormat.decDigitsRev fuel n, d < 10 := by
  induction fuel generalizing n with
  | zero => simp [LitFormat.decDigitsRev]
  | succ f ih =>
    unfold LitFormat.decDigitsRev
    split
    · intro d hd; simp at hd; omega
    · intro d hd
      rcases List.mem_cons.mp hd with h | h
      · omega
      · exact ih _ d h

/-- value of a digit list, least significant digit first -/
def valRev : List Nat → Nat
  | [] => 0
  | d :: r => d + 10 * valRev r

open RsslVerif.Model in
theorem valRev_decDigitsRev (fuel n : Nat) (h : n < fuel) : valRev (LitFormat.decDigitsRev fuel n) = n := by
  induction fuel generalizing n with
  | zero => omega
  | succ f ih =>
    unfold LitFormat.decDigitsRev
    split
    · simp [valRev]
    · simp only [valRev]
      rw [ih (n / 10) (by omega)]
      omega

theorem ofDigits_reverse (l : List Nat) : Dec2Bin.ofDigits 10 l.reverse = valRev l := by
  induction l with
  | nil => rfl
  | cons d r ih =>
    simp only [List.reverse_cons, Dec2Bin.ofDigits, List.foldl_append, List.foldl_cons, List.foldl_nil, valRev]
    have : List.foldl (fun a d => a * 10 + d) 0 r.reverse = valRev r := ih
    rw [this]; omega

open RsslVerif.Model in
theorem decDigitsRev_ne_nil (fuel n : Nat) : LitFormat.decDigitsRev (fuel + 1) n ≠ [] := by
  unfold LitFormat.decDigitsRev; split <;> simp

open RsslVerif.Model in
/-- the last (most significant) digit is not zero unless the number is zero -/
theorem decDigitsRev_last (fuel n : Nat) (h : n < fuel) (hn : 0 < n) :
    ∀ d, (LitFormat.decDigitsRev fuel n).getLast? = some d → d ≠ 0 := by
  induction fuel generalizing n with
  | zero => omega
  | succ f ih =>
    unfold LitFormat.decDigitsRev
    split
    · intro d hd; simp at hd; omega
    · intro d hd
      have hne : LitFormat.decDigitsRev f (n / 10) ≠ [] := by
        cases f with
        | zero => omega
        | succ g => exact decDigitsRev_ne_nil g _
      rw [List.getLast?_cons_of_ne_nil hne] at hd
      exact ih (n / 10) (by omega) (by omega) d hd

open RsslVerif.Model in
/-- **decDigits_spec**: `Display` of `n` — a non-empty string of decimal digits whose value is `n`, without a leading
zero unless it is `0` itself -/
theorem decDigits_spec (n : Nat) :
    ∃ d ds, LitFormat.decDigits n = d :: ds ∧ (∀ x ∈ d :: ds, x < 10) ∧
      Dec2Bin.ofDigits 10 (d :: ds) = n ∧ (0 < n → d ≠ 0) ∧ (n = 0 → d = 0 ∧ ds = []) := by
  unfold LitFormat.decDigits
  have hne := decDigitsRev_ne_nil n n
  have hlt := decDigitsRev_lt (n + 1) n
  have hval := valRev_decDigitsRev (n + 1) n (by omega)
  have hlast := decDigitsRev_last (n + 1) n (by omega)
  cases hrev : (LitFormat.decDigitsRev (n + 1) n).reverse with
  | nil => simp at hrev; exact absurd hrev hne
  | cons d ds =>
    refine ⟨d, ds, rfl, ?_, ?_, ?_, ?_⟩
    · intro x hx
      have : x ∈ (LitFormat.decDigitsRev (n + 1) n).reverse := by rw [hrev]; exact hx
      exact hlt x (by simpa using this)
    · rw [← hrev, ofDigits_reverse, hval]
    · intro hn
      apply hlast hn d
      have : (LitFormat.decDigitsRev (n + 1) n) = (d :: ds).reverse := by
        rw [← hrev, List.reverse_reverse]
      rw [this]; simp
    · intro h0
      subst h0
      have : LitFormat.decDigitsRev (0 + 1) 0 = [0] := by simp [LitFormat.decDigitsRev]
      rw [this] at hrev
      simp at hrev
      exact ⟨hrev.1.symm, hrev.2⟩



theorem noDigit_intSuffix (ity : Option IntType) (rest : Bytes) (h : IntBoundary rest) :
    ∀ b r, intSuffix ity ++ rest = b :: r →
      decDigit? b = none ∧ b.toNat ≠ 46 ∧ b.toNat ≠ 101 ∧ b.toNat ≠ 69 ∧ b.toNat ≠ 120 ∧ octDigit? b = none := by
  intro b r hb
  have fromRest : ∀ b r, rest = b :: r →
      decDigit? b = none ∧ b.toNat ≠ 46 ∧ b.toNat ≠ 101 ∧ b.toNat ≠ 69 ∧ b.toNat ≠ 120 ∧ octDigit? b = none := by
    intro b r hb
    have hi := h b r hb
    have hid := hi.1
    have hdig : decDigit? b = none := by
      cases hd : decDigit? b with
      | none => rfl
      | some d => rw [identChar_of_digit hd] at hid; cases hid
    refine ⟨hdig, hi.2, ?_, ?_, ?_, ?_⟩
    · intro hx; simp [isIdentChar, isIdentStart, hx] at hid
    · intro hx; simp [isIdentChar, isIdentStart, hx] at hid
    · intro hx; simp [isIdentChar, isIdentStart, hx] at hid
    · unfold octDigit?; unfold decDigit? at hdig
      split at hdig
      · cases hdig
      · rename_i hn; simp; intro h1; omega
  match ity with
  | none => simp [intSuffix] at hb; exact fromRest b r hb
  | some .Unsigned32 => simp [intSuffix] at hb; rw [← hb.1]; decide
  | some .Unsigned64 => simp [intSuffix] at hb; rw [← hb.1]; decide
  | some .Signed64 => simp [intSuffix] at hb; rw [← hb.1]; decide

open RsslVerif.Model in
/-- **tokenInt_printed**: `Display` of `n` followed by the suffix `format_literal` appends and a boundary is one
integer token: the one `mkIntToken?` builds from the value `n` and that suffix. -/
theorem tokenInt_printed (n : Nat) (hn : n < 2 ^ 64) (ity : Option IntType) (tok : Token)
    (hk : mkIntToken? n ity = some tok) (rest : Bytes) (hb : IntBoundary rest) (inc : Bool) :
    tokenIntermediate (LitFormat.decText n ++ (intSuffix ity ++ rest)) inc = .ok (rest, tok) := by
  obtain ⟨d, ds, hdd, hlt, hval, hnz, hz⟩ := decDigits_spec n
  have htext : LitFormat.decText n = (d :: ds).map digitByte := by
    unfold LitFormat.decText; rw [hdd]; rfl
  rw [htext]
  have hs := noDigit_intSuffix ity rest hb
  have hnd : NoDigitHead (intSuffix ity ++ rest) := fun b r h => (hs b r h).1
  have hseq := digitSequence_digits d ds hlt _ hnd
  have hd0 := decDigit_digitByte d (hlt d (by simp))
  have hrange := digitByte_range d (hlt d (by simp))
  -- (1) `literal_float` declines: digits without fraction or exponent
  have hfl : literalFloat ((d :: ds).map digitByte ++ (intSuffix ity ++ rest)) =
      .error (.lex (.rest ((d :: ds).map digitByte ++ (intSuffix ity ++ rest))) .OtherTokenBytes) := by
    have hfc : fractionalConstant ((d :: ds).map digitByte ++ (intSuffix ity ++ rest)) =
        .error (.lex (.rest (intSuffix ity ++ rest)) .OtherTokenBytes) := by
      unfold fractionalConstant
      rw [hseq]
      simp only [opt]
      cases htl : intSuffix ity ++ rest with
      | nil => rfl
      | cons b r => simp [(hs b r htl).2.1, otherTokenChars]
    have hm : floatMantissa ((d :: ds).map digitByte ++ (intSuffix ity ++ rest)) =
        .ok (intSuffix ity ++ rest, (false, d :: ds, [])) := by
      unfold floatMantissa
      rw [hfc]
      simp only [opt]
      rw [hseq]
    unfold literalFloat
    rw [hm]
    have hex := floatExponent_none (intSuffix ity ++ rest) (fun b q hq => ⟨(hs b q hq).2.2.1, (hs b q hq).2.2.2.1⟩)
    simp [hex, otherTokenChars]
  -- (3) `literal_int` takes the decimal route
  have hli : literalInt ((d :: ds).map digitByte ++ (intSuffix ity ++ rest)) =
      literalIntWith decDigit? 10 ((d :: ds).map digitByte ++ (intSuffix ity ++ rest)) := by
    unfold literalInt
    by_cases h0 : n = 0
    · obtain ⟨hd, hds⟩ := hz h0
      subst hd hds
      have hb48 : digitByte 0 = 48 := rfl
      simp only [List.map_cons, List.map_nil, List.nil_append, List.cons_append, hb48]
      cases htl : intSuffix ity ++ rest with
      | nil => simp [stripPrefix?, digitWith, endOfStream]
      | cons b r =>
        have hx := (hs b r htl).2.2.2.2
        have hne : ¬ (120 : UInt8) = b := by intro h; subst h; exact hx.1 rfl
        simp [stripPrefix?, hne, digitWith, hx.2, wrongChars]
    · have hdne := hnz (Nat.pos_of_ne_zero h0)
      have hne : ¬ (48 : UInt8) = digitByte d := by
        intro h
        have h1 : (digitByte d).toNat = 48 + d := by
          unfold digitByte; simp [UInt8.toNat_ofNat]; have := hlt d (by simp); omega
        rw [← h] at h1
        simp at h1
        omega
      simp [stripPrefix?, hne]
  -- (4) the decimal reader
  have hrun := digitRun_digits (d :: ds) hlt _ hnd
  have hdw := digitsWith_closed decDigit? 10 (by omega) (fun b x h => by have := decDigit_lt b x h; omega)
    (digitByte d) (ds.map digitByte ++ (intSuffix ity ++ rest)) d hd0
  have hcons : (d :: ds).map digitByte ++ (intSuffix ity ++ rest) =
      digitByte d :: (ds.map digitByte ++ (intSuffix ity ++ rest)) := rfl
  rw [← hcons, hrun.1, hrun.2, hval] at hdw
  simp only [hn, if_true] at hdw
  have hit := intType_suffix ity rest hb
  have hfin : literalIntWith decDigit? 10 ((d :: ds).map digitByte ++ (intSuffix ity ++ rest)) = .ok (rest, tok) := by
    unfold literalIntWith
    rw [hdw]
    simp only [hit, hk]
  rw [hcons] at hfl hli hfin ⊢
  simp only [tokenIntermediate, tokenStep, hrange, and_self, if_true, hfl, ErrAt.len, hli, hfin]

end RsslVerif.Model.Lexer

import RsslVerif.Gen.MacroTables
import RsslVerif.Model.Lexer
/-!
# Model of the macro engine of `preprocess/src/preprocess.rs` (C12)

Mirrors, function by function: `Macro::parse` (`parseDefine`), `trim_whitespace*`, `split_macro_args`
(`splitArgs`), `find_single_macro` (`findSingle`, with `early_function_pos` / `last_macro_function_index`),
`apply_single_macro` + `apply_macros_internal` (`applyLoop`, one definition: the `while` loop, the recursive
expansion of the arguments with the *current* disabled flags -- the d00f5aa fix -- and of the substituted body
with the invoked macro disabled) and the `##` operation.

Representation choices (behaviour preserving):
* a token is its kind (`Tok`) plus one bit, `located`: does it have a source location (`unlex` panics on tokens
  without one -- the tokens of API-level defines);
* `macro_defs: &[Macro]` and `macro_disabled: &mut [bool]` are parallel vectors of equal length: here one list of
  `Entry`; Rust restores the flag after the recursive call, so the flags are passed by value;
* positions are indices into the token list exactly as in the Rust code;
* every Rust panic site inside these functions is an explicit `Err.panic`; the `continue` without progress in
  `find_single_macro` (a `Concat` token before `next_pos`) is `Err.hang`;
* `applyLoop` is defined by well-founded recursion on the lexicographic measure
  (number of enabled macros, tokens to the right of `next_pos`).  The three facts the measure needs are tested
  at run time (`Err.guard`); `Thm.C12.expand_terminates` proves the guards never fire.
* `defined(..)` (only active in `#if`, `apply_defined = true`) belongs to C11 and is not modelled.
-/
namespace RsslVerif.Model.Macro
open RsslVerif.Gen.MacroTables

inductive Tok where
  | id (s : String)
  /-- an integer literal (`LiteralInt`, `LiteralIntUnsigned32`, ...), kept as its SOURCE SPELLING (`16`, `0x10`, `020`,
  `16u` are four different tokens here): the real `PreprocessToken` carries its source span, and `##` joins the text
  under the spans (`unlex`), not a rendering of the value.  The value / kind of a spelling is what the lexer model
  reads from it (`lexOne`). -/
  | int (s : String)
  /-- any other token, by spelling (`+ - * ; = { }`) -/
  | punct (s : String)
  | lparen
  | rparen
  | comma
  /-- `Whitespace`, `Comment`, `PhysicalEndline` -/
  | ws
  | endline
  /-- `##` as lexed (`Token::HashHash`) -/
  | hashhash
  /-- `##` inside a macro body (`Token::Concat`) -/
  | concat
  /-- `Token::MacroArg(i)` -/
  | arg (i : Nat)
  deriving DecidableEq, Repr, Inhabited

/-- `Token::is_whitespace` -/
def Tok.isWhitespace : Tok → Bool
  | .ws | .endline => true
  | _ => false

/-- `tok.is_whitespace() && *tok != Token::Endline` -/
def Tok.isBlank : Tok → Bool
  | .ws => true
  | _ => false

structure PTok where
  tok : Tok
  located : Bool
  deriving DecidableEq, Repr, Inhabited

inductive Err where
  | invalidDefine
  | invalidUndef
  | macroRequiresArguments (name : String)
  | macroArgumentsNeverEnd
  | macroExpectsDifferentNumberOfArguments
  | concatMissingLeftToken
  | concatMissingRightToken
  | concatFailed
  | failedToFindFile (name : String)
  /-- `#pragma` whose first token is not `once` / `warning` (or is missing) -/
  | unknownPragma
  /-- a directive whose name is none of `preprocess_command`'s -/
  | unknownCommand
  /-- `#include` whose operand is not exactly one string literal / header name -/
  | invalidInclude
  /-- a Rust panic site -/
  | panic (site : String)
  /-- `find_single_macro` would spin on a `Concat` token in the early region -/
  | hang
  /-- a run-time test of the termination measure failed (proved impossible) -/
  | guard (what : String)
  /-- outside the modelled subset (reported, never compared) -/
  | unsupported (why : String)
  | includeFuel
  deriving DecidableEq, Repr, Inhabited

structure Macro where
  name : String
  isFunction : Bool
  numParams : Nat
  body : List PTok
  deriving DecidableEq, Repr, Inhabited

/-- `trim_whitespace_start` -/
def trimStart (l : List PTok) : List PTok := l.dropWhile (·.tok.isBlank)

/-- `trim_whitespace_end` -/
def trimEnd (l : List PTok) : List PTok := (l.reverse.dropWhile (·.tok.isBlank)).reverse

/-- `trim_whitespace` -/
def trim (l : List PTok) : List PTok := trimEnd (trimStart l)

/-- `trim_whitespace_and_endlines_start` (fix f08088c): blanks, comments *and line ends* are removed from the start.
Used where the `(` of a function-like macro invocation is looked for (`split_macro_args`, `find_single_macro`) and
for the test of the empty argument list of a macro without parameters: an invocation may continue on the next line -/
def trimStartAll (l : List PTok) : List PTok := l.dropWhile (·.tok.isWhitespace)

/-! ## `Macro::parse` -/

/-- split at the first token of kind `k`: `iter().position(|t| t.0 == k)` -/
def splitAtTok (k : Tok) : List PTok → Option (List PTok × List PTok)
  | [] => none
  | t :: r =>
    if t.tok = k then some ([], r)
    else match splitAtTok k r with
      | some (a, b) => some (t :: a, b)
      | none => none

def indexOfName (p : String) : List String → Nat → Option Nat
  | [], _ => none
  | q :: r, i => if p = q then some i else indexOfName p r (i + 1)

/-- the `while !last` loop over the comma separated parameter list -/
def parseParams (fuel : Nat) (ts : List PTok) (acc : List String) : Except Err (List String) :=
  match fuel with
  | 0 => .error (.guard "parseParams")
  | fuel + 1 =>
    match splitAtTok .comma ts with
    | some (p, rest) =>
      match trim p with
      | [⟨.id s, _⟩] => parseParams fuel rest (acc ++ [s])
      | _ => .error .invalidDefine
    | none =>
      match trim ts with
      | [⟨.id s, _⟩] => .ok (acc ++ [s])
      | [] => if acc.isEmpty then .ok acc else .error .invalidDefine
      | _ => .error .invalidDefine

/-- body token of a definition: parameters become `MacroArg`, `##` becomes `Concat` -/
def bodyTok (params : List String) (t : PTok) : PTok :=
  match t.tok with
  | .id s =>
    match indexOfName s params 0 with
    | some i => { t with tok := .arg i }
    | none => t
  | .hashhash => { t with tok := .concat }
  | _ => t

/-- `Macro::parse`: `command` is everything after the directive name -/
def parseDefine (command : List PTok) : Except Err Macro :=
  match trimStart command with
  | ⟨.id name, _⟩ :: sig =>
    let parts : Except Err (List PTok × Bool × List PTok) :=
      match sig with
      | ⟨.lparen, _⟩ :: rest =>
        match splitAtTok .rparen rest with
        | some (ps, body) => .ok (ps, true, body)
        | none => .error .invalidDefine
      | _ => .ok ([], false, sig)
    match parts with
    | .error e => .error e
    | .ok (ps, isFn, body) =>
      match parseParams (ps.length + 1) ps [] with
      | .error e => .error e
      | .ok params =>
        .ok { name := name, isFunction := isFn, numParams := params.length,
              body := (trim body).map (bodyTok params) }
  | _ => .error .invalidDefine

/-! ## `split_macro_args` -/

/-- the scanning loop: `cur` = tokens of the current argument, `depth` = `brace_scope` -/
def scanArgs : List PTok → List PTok → List (List PTok) → Nat → Except Err (List PTok × List (List PTok))
  | [], _, _, _ => .error .macroArgumentsNeverEnd
  | t :: rest, cur, args, depth =>
    match t.tok with
    | .comma =>
      if depth = 0 then scanArgs rest [] (args ++ [trim cur]) 0
      else scanArgs rest (cur ++ [t]) args depth
    | .lparen => scanArgs rest (cur ++ [t]) args (depth + 1)
    | .rparen =>
      if depth = 0 then .ok (rest, args ++ [trim cur])
      else scanArgs rest (cur ++ [t]) args (depth - 1)
    | _ => scanArgs rest (cur ++ [t]) args depth

/-- `split_macro_args`: returns (tokens after the closing parenthesis, arguments) -/
def splitArgs (name : String) (remaining : List PTok) : Except Err (List PTok × List (List PTok)) :=
  match trimStartAll remaining with
  | ⟨.lparen, _⟩ :: rest => scanArgs rest [] [] 0
  | _ => .error (.macroRequiresArguments name)

/-! ## `find_single_macro` -/

structure Entry where
  m : Macro
  disabled : Bool
  deriving DecidableEq, Repr, Inhabited

/-- `MacroSearchPosition`; `lastFn = none` is `usize::MAX` -/
structure SearchPos where
  next : Nat
  early : Nat
  lastFn : Option Nat
  deriving DecidableEq, Repr, Inhabited

def SearchPos.start : SearchPos := ⟨0, 0, none⟩

inductive Found where
  | user (mi pos : Nat)
  | concat (l r : Nat)
  | none
  deriving DecidableEq, Repr, Inhabited

/-- index of the `(` that follows token `i` after white space (blanks, comments and -- since fix f08088c -- line ends),
if that is what follows: `trim_whitespace_and_endlines_start(&tokens[i + 1..])`,
`activate_pos = tokens.len() - trimmed.len()` -/
def parenAfter (toks : List PTok) (i : Nat) : Option Nat :=
  match trimStartAll (toks.drop (i + 1)) with
  | ⟨.lparen, _⟩ :: tail => some (toks.length - (tail.length + 1))
  | _ => none

/-- the `for macro_index in 0..macros.len()` loop for the identifier `name` at index `i` -/
def matchMacro (toks : List PTok) (i : Nat) (name : String) (sp : SearchPos) :
    Nat → List Entry → Option Nat
  | _, [] => none
  | mi, e :: es =>
    if e.disabled then matchMacro toks i name sp (mi + 1) es
    else if sp.lastFn = some mi ∧ i < sp.next then matchMacro toks i name sp (mi + 1) es
    else if name = e.m.name then
      if e.m.isFunction then
        match parenAfter toks i with
        | some activate =>
          if activate < sp.next then matchMacro toks i name sp (mi + 1) es else some mi
        | none => matchMacro toks i name sp (mi + 1) es
      else if i < sp.next then matchMacro toks i name sp (mi + 1) es
      else some mi
    else matchMacro toks i name sp (mi + 1) es

/-- index of the last non-whitespace token (`iter().rev().position(..)`) -/
def lastNonWs : List PTok → Nat → Option Nat → Option Nat
  | [], _, acc => acc
  | t :: r, i, acc => lastNonWs r (i + 1) (if t.tok.isWhitespace then acc else some i)

/-- index of the first non-whitespace token -/
def firstNonWs : List PTok → Nat → Option Nat
  | [], _ => none
  | t :: r, i => if t.tok.isWhitespace then firstNonWs r (i + 1) else some i

/-- the `while i < tokens.len()` loop; the second list is `tokens[i..]` -/
def scanFrom (toks : List PTok) (sp : SearchPos) (env : List Entry) :
    List PTok → Nat → Except Err Found
  | [], _ => .ok .none
  | t :: rest, i =>
    match t.tok with
    | .id name =>
      match matchMacro toks i name sp 0 env with
      | some mi => .ok (.user mi i)
      | none => scanFrom toks sp env rest (i + 1)
    | .concat =>
      if i < sp.next then .error .hang
      else
        match lastNonWs (toks.take i) 0 none with
        | none => .error .concatMissingLeftToken
        | some l =>
          match firstNonWs rest (i + 1) with
          | none => .error .concatMissingRightToken
          | some r => .ok (.concat l r)
    | _ => scanFrom toks sp env rest (i + 1)

def findSingle (toks : List PTok) (sp : SearchPos) (env : List Entry) : Except Err Found :=
  if sp.early ≤ sp.next then scanFrom toks sp env (toks.drop sp.early) sp.early
  else .error (.panic "assert early_function_pos <= next_pos")

/-! ## `##` -/

def isDigitString (s : String) : Bool := !s.isEmpty && s.toList.all Char.isDigit

/-- two one-character operators whose concatenation lexes as one operator token -/
def punctMerges : List (String × String) :=
  [("+", "+"), ("-", "-"), ("+", "="), ("-", "="), ("*", "="), ("=", "=")]

/-- a token that is neither white space nor word-like and is spelled with operator characters only -/
def Tok.isSymbol : Tok → Bool
  | .punct _ | .lparen | .rparen | .comma | .hashhash | .concat => true
  | _ => false

def Tok.isWord : Tok → Bool
  | .id _ | .int _ => true
  | _ => false

/-- `TokenStream::new(text, ..).read_to_end()` (C10's model of lexer.rs) answers `[token, Endline]`: that token -/
def lexOne (s : String) : Option RsslVerif.Model.Lexer.Token :=
  match RsslVerif.Model.Lexer.readToEnd (RsslVerif.Model.Lexer.str s) with
  | .ok [t, e] => if e.tok = .simple .Endline then some t.tok else none
  | _ => none

def isIntLiteral : RsslVerif.Model.Lexer.Token → Bool
  | .litInt _ | .litIntU32 _ | .litIntU64 _ | .litIntS64 _ => true
  | _ => false

/-- Unlex both operands, join the texts, lex the result in a scratch file, expect exactly one token.
Numbers are joined by their source spellings (`0x1 ## 0` is `0x10` = 16, `00 ## 7` is `007` = 7, `1u ## 2` is no token).
Word-like operands give an identifier or a number; a symbol next to a word, or two symbols that do not form a
longer operator, lex as two tokens (`ConcatFailed`).  The merged token has a location (the scratch file). -/
def pasteTokens (l r : PTok) : Except Err PTok :=
  if !l.located || !r.located then
    .error (.panic "preprocess/src/unlexer.rs: unlex does not support unlocated tokens")
  else
    match l.tok, r.tok with
    | .id a, .id b | .id a, .int b =>
      if keywords.contains (a ++ b) then .error (.unsupported "paste makes a keyword")
      else .ok ⟨.id (a ++ b), true⟩
    | .int a, .int b =>
      -- the joined spelling is lexed: a lexer error or another number of tokens is `ConcatFailed`
      if (lexOne (a ++ b)).isNone then .error .concatFailed
      else if !(lexOne (a ++ b)).any isIntLiteral then .error (.unsupported "paste of two numbers makes a token that is no integer literal")
      else .ok ⟨.int (a ++ b), true⟩
    | .punct a, .punct b =>
      if punctMerges.contains (a, b) then .ok ⟨.punct (a ++ b), true⟩ else .error .concatFailed
    | a, b =>
      if (a.isSymbol && (b.isSymbol || b.isWord)) || (a.isWord && b.isSymbol) then .error .concatFailed
      else .error (.unsupported "paste of a number with an identifier")

/-! ## `apply_single_macro` / `apply_macros_internal` -/

/-- "Generate macro body into a local array" -/
def substitute : List PTok → List (List PTok) → Except Err (List PTok)
  | [], _ => .ok []
  | t :: rest, args =>
    match t.tok with
    | .arg i =>
      match args[i]? with
      | none => .error (.panic "index out of bounds: args[i]")
      | some a =>
        match substitute rest args with
        | .ok r => .ok (a ++ r)
        | .error e => .error e
    | _ =>
      match substitute rest args with
      | .ok r => .ok (t :: r)
      | .error e => .error e

/-- `tokens.splice(s..e, mid)` -/
def splice (toks : List PTok) (s e : Nat) (mid : List PTok) : List PTok :=
  toks.take s ++ mid ++ toks.drop e

def mapE {α β : Type} (f : α → Except Err β) : List α → Except Err (List β)
  | [] => .ok []
  | a :: r =>
    match f a with
    | .error e => .error e
    | .ok b =>
      match mapE f r with
      | .error e => .error e
      | .ok bs => .ok (b :: bs)

def enabledCount (env : List Entry) : Nat := env.countP (fun e => !e.disabled)

def disable (env : List Entry) (mi : Nat) : List Entry :=
  env.modify mi (fun e => { e with disabled := true })

/-- argument reading and arity check of the `FoundMacro::User` arm -/
def readArgs (m : Macro) (remaining : List PTok) : Except Err (List PTok × List (List PTok)) :=
  if m.isFunction then
    match splitArgs m.name remaining with
    | .error e => .error e
    | .ok (rest, args) =>
      if m.numParams = 0 then
        -- `args.len() == 1 && trim_whitespace_and_endlines_start(args[0]).is_empty()`: the empty argument list may
        -- still hold a line break (fix f08088c; blanks were already removed by `split_macro_args`)
        match args with
        | [a] =>
          if (trimStartAll a).isEmpty then .ok (rest, args)
          else .error .macroExpectsDifferentNumberOfArguments
        | _ => .error .macroExpectsDifferentNumberOfArguments
      else if args.length ≠ m.numParams then .error .macroExpectsDifferentNumberOfArguments
      else .ok (rest, args)
  else .ok (remaining, [])

theorem enabledCount_disable_lt (env : List Entry) (mi : Nat) (e : Entry)
    (h : env[mi]? = some e) (hd : e.disabled = false) :
    enabledCount (disable env mi) < enabledCount env := by
  induction env generalizing mi with
  | nil => simp at h
  | cons a as ih =>
    cases mi with
    | zero =>
      simp at h
      subst h
      simp [enabledCount, disable, List.modify, hd]
    | succ n =>
      simp at h
      have := ih n h
      simp only [enabledCount, disable, List.modify_succ_cons, List.countP_cons] at this ⊢
      omega

theorem splice_length_sub (toks mid : List PTok) (s e : Nat) (hs : s ≤ e) (he : e ≤ toks.length) :
    (splice toks s e mid).length - (s + mid.length) = toks.length - e := by
  simp only [splice, List.length_append, List.length_take, List.length_drop]
  omega

/-- The `while pos.next_pos < tokens.len()` loop of `apply_macros_internal`, each iteration being one
`apply_single_macro`.  `apply_macros_internal(toks, env)` is `applyLoop env toks SearchPos.start`. -/
def applyLoop (env : List Entry) (toks : List PTok) (sp : SearchPos) : Except Err (List PTok) :=
  if _hlt : sp.next < toks.length then
    match findSingle toks sp env with
    | .error e => .error e
    | .ok .none => .ok toks
    | .ok (.concat l r) =>
      match toks[l]?, toks[r]? with
      | some lt, some rt =>
        if l + 1 < r then
          match pasteTokens lt rt with
          | .error e => .error e
          | .ok merged =>
            if _hg : sp.next < r ∧ r < toks.length then
              applyLoop env (splice toks l (r + 1) [merged]) ⟨l, l, none⟩
            else .error (.guard "concat: right operand not beyond next_pos")
        else .error (.panic "assert left_token_pos + 1 < right_token_pos")
      | _, _ => .error (.panic "index out of bounds: tokens[left/right]")
    | .ok (.user mi p) =>
      match _hmi : env[mi]? with
      | none => .error (.panic "index out of bounds: macro_defs[macro_index]")
      | some e =>
        match readArgs e.m (toks.drop (p + 1)) with
        | .error er => .error er
        | .ok (rest, args) =>
          let end_ := toks.length - rest.length
          match mapE (fun a =>
              if _ha : a.length < toks.length - sp.next then applyLoop env a SearchPos.start
              else .error (.guard "argument not shorter than the unscanned suffix")) args with
          | .error er => .error er
          | .ok args' =>
            match substitute e.m.body args' with
            | .error er => .error er
            | .ok output =>
              if _hd : e.disabled = false then
                match applyLoop (disable env mi) output SearchPos.start with
                | .error er => .error er
                | .ok output' =>
                  if _hp : p < end_ then
                    if _hg : sp.next < end_ then
                      applyLoop env (splice toks p end_ output')
                        ⟨p + output'.length, p, if e.m.isFunction then some mi else none⟩
                    else .error (.guard "invocation does not reach beyond next_pos")
                  else .error (.panic "assert end > pos")
              else .error (.panic "assert !macro_disabled[macro_index]")
  else .ok toks
termination_by (enabledCount env, toks.length - sp.next)
decreasing_by
  · -- `##`: the tokens right of the merged token were right of `r`
    apply Prod.Lex.right
    have h1 : (splice toks l (r + 1) [merged]).length - (l + [merged].length) = toks.length - (r + 1) :=
      splice_length_sub toks [merged] l (r + 1) (by omega) (by omega)
    simp only [List.length_singleton] at h1
    show (splice toks l (r + 1) [merged]).length - l < toks.length - sp.next
    have h2 : (splice toks l (r + 1) [merged]).length ≥ l + 1 := by
      simp only [splice, List.length_append, List.length_take, List.length_drop, List.length_singleton]
      omega
    omega
  · -- an argument: same flags, shorter than the unscanned suffix
    apply Prod.Lex.right
    simpa [SearchPos.start] using _ha
  · -- the substituted body: one more macro disabled
    apply Prod.Lex.left
    exact enabledCount_disable_lt env mi e _hmi _hd
  · -- continue after the replacement: what is right of `new_end` was right of `end`
    apply Prod.Lex.right
    have h1 := splice_length_sub toks output' p (toks.length - rest.length) (by omega) (by omega)
    show (splice toks p (toks.length - rest.length) output').length - (p + output'.length) < toks.length - sp.next
    omega

/-- `apply_macros`: all macros enabled -/
def applyMacros (defs : List Macro) (toks : List PTok) : Except Err (List PTok) :=
  applyLoop (defs.map (⟨·, false⟩)) toks SearchPos.start

end RsslVerif.Model.Macro

/-!
# `Model.FixpointNames` — how the front end looks up the paths the HLSL exporter prints

The exporter prints every namespace-level symbol (global, function, struct, enum, enum value) with its full path
from the root, but as a *relative* identifier (`scoped_name_to_identifier` of hlsl/src/ast_generate.rs: `base:
ScopedIdentifierBase::Relative`, "Technically should be absolute but that generates uglier paths in the common case").
Whether the second generation finds the same entity again therefore depends on the lookup discipline of
`Context::find_identifier` (typer/src/typer/scopes.rs):

```text
let (leaf_name, scopes) = id.identifiers.split_last().unwrap();
let mut scope_index = match id.base { Relative => self.current_scope, Absolute => 0 };
loop {
    if let Some(scope_index) = self.walk_into_scopes(scope_index, scopes) {
        if let Some(ve) = self.find_identifier_in_scope(&self.scopes[scope_index], leaf_name) { return Ok(ve); }
    }
    scope_index = self.scopes[scope_index].parent_scope;
    if scope_index == usize::MAX { break; }
}
Err(TyperError::UnknownIdentifier(id.clone()))
```

i.e. an outward walk over the enclosing scopes that retries the **whole path** from every scope of the chain and
takes the first scope in which the whole path resolves.  This file mirrors

* `ScopeData` (what lookup reads of it: `parent_scope`, the `VariableBlock`, `symbols`, `owning_struct`) — `Scope`,
* `walk_into_scopes` with its two `assert_eq!` — `stepFold` / `walkInto` (a failed assertion is `Except.error`),
* `find_identifier_in_scope` (locals first, then the symbol loop that gathers overloads and returns on the first value
  symbol, then struct members, then type symbols) — `findInScope`,
* `find_identifier` — `findFrom` / `find` (fuel = number of scopes + 1; running out of fuel is the endless loop of a
  cyclic parent chain, reported as an error),
* the symbol insertion of `enter_namespace`, `insert_global`, `insert_function_in_scope`, `begin_struct` (+ the scopes of
  `parse_struct_internal` / `parse_function_signature`), `begin_enum` / `register_enum_value` / `end_enum`,
  `register_typedef`, `insert_variable`, block scopes — the machine `exec` over a descriptor (`Instr`),
* the exporter's choice of path and base — `emitPath`,
* and `exportInstrs`: the program the second generation sees (printed names, emitted paths, no typedefs, no namespace
  block without a printed declaration).

`findStopFrom` is **not** the code: it is the lookup discipline of seeded mutant C04-3 (stop walking outward at the
innermost scope in which the first qualifier resolves), kept for the negation witness of `Thm.C04`.

The transcriptions at the end (`findIdentifierSource` …) are compared with the re-extracted `Gen.PathLookup` on every
run (`Thm.C04.path_lookup_as_modelled`).
-/
namespace RsslVerif.Model.FixpointNames

deriving instance DecidableEq for Except

/-- `ScopeSymbol`, as far as lookup distinguishes the variants -/
inductive Sym where
  /-- `Function(id)`: gathered into the overload set -/
  | fn (id : Nat)
  /-- `GlobalVariable` / `EnumValue` / `EnumValueUntyped` / `ConstantBufferMember` / `Constant`: returned at once -/
  | val (id : Nat)
  /-- `Type(id)`: looked at last -/
  | ty (id : Nat)
  /-- `Namespace(index)` / `EnumScope(index)`: only `walk_into_scopes` follows them -/
  | scope (idx : Nat)
deriving DecidableEq, Repr, Inhabited

/-- `VariableExpression`, by the id of the entity -/
inductive Res where
  | loc (id : Nat)
  | fns (ids : List Nat)
  | val (id : Nat)
  | member (name : String)
  | ty (id : Nat)
deriving DecidableEq, Repr, Inhabited

/-- `ScopeData` -/
structure Scope where
  /-- `parent_scope`; `none` = `usize::MAX` -/
  parent : Option Nat
  /-- `variables: VariableBlock` -/
  vars : List (String × Nat) := []
  /-- `symbols: HashMap<String, Vec<ScopeSymbol>>` (keys unique, vectors in insertion order) -/
  syms : List (String × List Sym) := []
  /-- `owning_struct`: the member and method names of the struct -/
  members : Option (List String) := none
deriving DecidableEq, Repr, Inhabited

abbrev Table := List Scope

def assoc {β : Type} (n : String) : List (String × β) → Option β
  | [] => none
  | (k, v) :: r => if k = n then some v else assoc n r

/-- `symbols.get(name)`; an absent key behaves like an empty vector in both readers -/
def Scope.symsOf (s : Scope) (n : String) : List Sym := (assoc n s.syms).getD []

/-- the `for symbol in symbols` loop of `find_identifier_in_scope`: `inl` = returned from inside the loop, `inr` = the
    overloads gathered -/
def scanSyms : List Sym → List Nat → Sum Res (List Nat)
  | [], acc => .inr acc
  | .fn id :: r, acc => scanSyms r (acc ++ [id])
  | .val id :: _, _ => .inl (.val id)
  | .ty _ :: r, acc => scanSyms r acc
  | .scope _ :: r, acc => scanSyms r acc

def firstTy : List Sym → Option Res
  | [] => none
  | .ty id :: _ => some (.ty id)
  | _ :: r => firstTy r

/-- `find_identifier_in_scope` -/
def findInScope (s : Scope) (n : String) : Option Res :=
  match assoc n s.vars with
  | some v => some (.loc v)
  | none =>
    match scanSyms (s.symsOf n) [] with
    | .inl r => some r
    | .inr (f :: fs) => some (.fns (f :: fs))
    | .inr [] =>
      match s.members with
      | some ms => if ms.contains n then some (.member n) else firstTy (s.symsOf n)
      | none => firstTy (s.symsOf n)

/-- one name of `walk_into_scopes`: the loop over the symbols of that name with `assert_eq!(current, step_start)` in
    front of every step into a namespace / enum scope -/
def stepFold (start : Nat) : Nat → List Sym → Except String Nat
  | cur, [] => .ok cur
  | cur, .scope idx :: r =>
    if cur = start then stepFold start idx r else .error "assertion `left == right` failed (walk_into_scopes)"
  | cur, _ :: r => stepFold start cur r

/-- `walk_into_scopes` -/
def walkInto (T : Table) : Nat → List String → Except String (Option Nat)
  | cur, [] => .ok (some cur)
  | cur, n :: ns =>
    match T[cur]? with
    | none => .error "scope index out of bounds"
    | some sc =>
      match stepFold cur cur (sc.symsOf n) with
      | .error e => .error e
      | .ok nxt => if nxt = cur then .ok none else walkInto T nxt ns

/-- one round of the loop of `find_identifier`: the whole path from scope `idx` -/
def resolveAt (T : Table) (idx : Nat) (quals : List String) (leaf : String) : Except String (Option Res) :=
  match walkInto T idx quals with
  | .error e => .error e
  | .ok none => .ok none
  | .ok (some j) =>
    match T[j]? with
    | none => .error "scope index out of bounds"
    | some sc => .ok (findInScope sc leaf)

/-- the loop of `find_identifier` -/
def findFrom (T : Table) (quals : List String) (leaf : String) : Nat → Nat → Except String (Option Res)
  | 0, _ => .error "the parent chain does not end"
  | fuel + 1, idx =>
    match resolveAt T idx quals leaf with
    | .error e => .error e
    | .ok (some r) => .ok (some r)
    | .ok none =>
      match T[idx]? with
      | none => .error "scope index out of bounds"
      | some sc =>
        match sc.parent with
        | none => .ok none
        | some p => findFrom T quals leaf fuel p

/-- `ast::ScopedIdentifier`: `base` (`Absolute` = leading `::`) and `identifiers.split_last()` -/
structure Path where
  abs : Bool
  quals : List String
  leaf : String
deriving DecidableEq, Repr, Inhabited

/-- `find_identifier` called while `current_scope = cur`; `none` = `Err(UnknownIdentifier)` -/
def find (T : Table) (cur : Nat) (p : Path) : Except String (Option Res) :=
  findFrom T p.quals p.leaf (T.length + 1) (if p.abs then 0 else cur)

/-- **not the code**: the loop of seeded mutant C04-3, which leaves the loop at the innermost scope in which the first
    qualifier alone resolves to a namespace / enum scope -/
def findStopFrom (T : Table) (quals : List String) (leaf : String) : Nat → Nat → Except String (Option Res)
  | 0, _ => .error "the parent chain does not end"
  | fuel + 1, idx =>
    match resolveAt T idx quals leaf with
    | .error e => .error e
    | .ok (some r) => .ok (some r)
    | .ok none =>
      match walkInto T idx (quals.take 1) with
      | .error e => .error e
      | .ok w =>
        if quals ≠ [] ∧ w.isSome then .ok none else
        match T[idx]? with
        | none => .error "scope index out of bounds"
        | some sc =>
          match sc.parent with
          | none => .ok none
          | some p => findStopFrom T quals leaf fuel p

def findStop (T : Table) (cur : Nat) (p : Path) : Except String (Option Res) :=
  findStopFrom T p.quals p.leaf (T.length + 1) (if p.abs then 0 else cur)

/-- `scoped_name_to_identifier`: the segments of `get_name_qualified` with `base: Relative` -/
def emitPath (full : List String) : Option Path :=
  match full.reverse with
  | [] => none
  | leaf :: rq => some ⟨false, rq.reverse, leaf⟩

/-! ## building the table: the declarations of a descriptor, in order -/

inductive EKind where
  | gvar | func | param | struct | enum | enumVal | localv
deriving DecidableEq, Repr, Inhabited

/-- the form of a use: `PATH = K;` / `r_ = PATH(K);` / `PATH tK;` / `(int)PATH` / `PATH yK = (PATH)0;` /
    `static PATH gK;` at namespace level / the type of a `typedef` -/
inductive UKind where
  | v | f | t | e | y | g | td
deriving DecidableEq, Repr, Inhabited

inductive Instr where
  | ns (n : String)
  | «end»
  | gv (n : String)
  | fn (n p : String)
  | st (n : String)
  | en (n : String) (vals : List String)
  | td (n : String) (p : Path)
  | lv (n : String)
  | bl
  | use (k : UKind) (p : Path)
deriving DecidableEq, Repr, Inhabited

inductive Frame where
  | ns | fn | st | bl
deriving DecidableEq, Repr, Inhabited

structure UseRec where
  kind : UKind
  scope : Nat
  path : Path
  res : Except String (Option Res)
deriving Repr, Inhabited

structure St where
  T : Table := [{ parent := none }]
  cur : Nat := 0
  nextId : Nat := 0
  /-- entity id ↦ kind -/
  kinds : List EKind := []
  frames : List Frame := []
  uses : List UseRec := []
  /-- the descriptor is not one the stream produces (unbalanced `end`, a second local of the same name in one block) -/
  bad : Option String := none
  /-- the first declaration the front end refuses (`register_enum_value`: `Err(ValueAlreadyDefined)`), with the number
      of uses in front of it: the compilation ends there.  Until fix fe5dd8d a value named like a namespace of the scope
      that contains the enum passed `register_enum_value` and ran into `assert_eq!(symbols.len(), 1)` of `end_enum`
      (this field was `panic`); the assertion is gone and the name is refused. -/
  refused : Option (Nat × String) := none
deriving Repr, Inhabited

def pushSym (n : String) (s : Sym) : List (String × List Sym) → List (String × List Sym)
  | [] => [(n, [s])]
  | (k, v) :: r => if k = n then (k, v ++ [s]) :: r else (k, v) :: pushSym n s r

def modifyAt (T : Table) (i : Nat) (f : Scope → Scope) : Table :=
  match T, i with
  | [], _ => []
  | s :: r, 0 => f s :: r
  | s :: r, i + 1 => s :: modifyAt r i f

def addSym (T : Table) (i : Nat) (n : String) (s : Sym) : Table :=
  modifyAt T i fun sc => { sc with syms := pushSym n s sc.syms }

def firstScope : List Sym → Option Nat
  | [] => none
  | .scope i :: _ => some i
  | _ :: r => firstScope r

def parentOf (T : Table) (i : Nat) : Nat := ((T[i]?.bind (·.parent))).getD 0

def paramName (p : String) : String := if p = "-" then "p_" else p

def structMembers (id : Nat) : List String := ["a_", "i" ++ toString (1000 + id), "m_"]

def registerVals (T : Table) (parent enumScope : Nat) : List String → Nat → Table
  | [], _ => T
  | v :: r, id => registerVals (addSym (addSym T enumScope v (.val id)) parent v (.val id)) parent enumScope r (id + 1)

def isScopeSym : Sym → Bool
  | .scope _ => true
  | _ => false

/-- the checks of `register_enum_value` in front of the insertion of the value `v` (`some why` = `Err(ValueAlreadyDefined)`;
    the outer `none` = a scope index that does not exist):

    1. the enum scope (`current_scope`) — `find_identifier_in_scope` gives `EnumValueUntyped`: a value of this enum;
    2. the scope that contains the enum — `find_identifier_in_scope` gives `Local` / `Global` / `ConstantBufferMember` /
       `EnumValue` / `Type` / `Function`;
    3. (fix fe5dd8d) the symbols of that name in the scope that contains the enum have a `ScopeSymbol::Namespace`.
       `Sym.scope` stands for `Namespace` and `EnumScope` alike; an `EnumScope` symbol is inserted together with the
       `Type` symbol of the enum (`begin_enum`), which check 2 refuses before, so the two readings agree on every table
       the machine builds. -/
def enumValueRefused (T : Table) (parent enumScope : Nat) (v : String) : Option (Option String) :=
  match T[enumScope]?, T[parent]? with
  | some es, some ps =>
    match findInScope es v with
    | some (.val _) => some (some "value already defined in this enum")
    | _ =>
      match findInScope ps v with
      | some (.loc _) => some (some "value already defined: local")
      | some (.val _) => some (some "value already defined: global / enum value")
      | some (.ty _) => some (some "value already defined: type")
      | some (.fns _) => some (some "value already defined: function")
      | _ => if (ps.symsOf v).any isScopeSym then some (some "value already defined: namespace") else some none
  | _, _ => none

/-- the values of an enum are registered one after the other (`registerVals`); the first refusal ends the compilation -/
def firstRefusal (T : Table) (parent enumScope : Nat) : List String → Nat → Option (Option String)
  | [], _ => some none
  | v :: r, id =>
    match enumValueRefused T parent enumScope v with
    | none => none
    | some (some why) => some (some why)
    | some none => firstRefusal (addSym (addSym T enumScope v (.val id)) parent v (.val id)) parent enumScope r (id + 1)

def exec (st : St) : Instr → St
  | .ns n =>
    match firstScope ((st.T[st.cur]?.map (·.symsOf n)).getD []) with
    | some idx => { st with cur := idx, frames := .ns :: st.frames }
    | none =>
      let idx := st.T.length
      let T := addSym (st.T ++ [{ parent := some st.cur }]) st.cur n (.scope idx)
      { st with T := T, cur := idx, frames := .ns :: st.frames }
  | .end =>
    match st.frames with
    | [] => { st with bad := some "unbalanced end" }
    | .st :: fr => { st with cur := parentOf st.T (parentOf st.T st.cur), frames := fr }
    | _ :: fr => { st with cur := parentOf st.T st.cur, frames := fr }
  | .gv n =>
    { st with T := addSym st.T st.cur n (.val st.nextId), nextId := st.nextId + 1, kinds := st.kinds ++ [.gvar] }
  | .fn n p =>
    let idx := st.T.length
    let T := addSym (st.T ++ [{ parent := some st.cur, vars := [(paramName p, st.nextId + 1)] }]) st.cur n (.fn st.nextId)
    { st with T := T, cur := idx, nextId := st.nextId + 2, kinds := st.kinds ++ [.func, .param], frames := .fn :: st.frames }
  | .st n =>
    let sIdx := st.T.length
    let T := addSym (st.T ++ [{ parent := some st.cur },
                              { parent := some sIdx, members := some (structMembers st.nextId) }]) st.cur n (.ty st.nextId)
    { st with T := T, cur := sIdx + 1, nextId := st.nextId + 1, kinds := st.kinds ++ [.struct], frames := .st :: st.frames }
  | .en n vals =>
    let idx := st.T.length
    let T0 := addSym (addSym (st.T ++ [{ parent := some st.cur }]) st.cur n (.scope idx)) st.cur n (.ty st.nextId)
    let T := registerVals T0 st.cur idx vals (st.nextId + 1)
    -- `end_enum` promotes the `EnumValueUntyped` symbols of the parent scope whatever else has the name (no assertion)
    match firstRefusal T0 st.cur idx vals (st.nextId + 1) with
    | none => { st with bad := some "no current scope" }
    | some r =>
      { st with T := T, nextId := st.nextId + 1 + vals.length,
                kinds := st.kinds ++ (.enum :: vals.map fun _ => .enumVal),
                refused := st.refused.orElse fun _ => r.map fun why => (st.uses.length, why) }
  | .td n p =>
    let r := find st.T st.cur p
    let T := match r with
      | .ok (some (.ty id)) => addSym st.T st.cur n (.ty id)
      | _ => st.T
    { st with T := T, uses := st.uses ++ [⟨.td, st.cur, p, r⟩] }
  | .lv n =>
    match st.T[st.cur]? with
    | none => { st with bad := some "no current scope" }
    | some sc =>
      if (assoc n sc.vars).isSome then { st with bad := some "local declared twice in one block" } else
      { st with T := modifyAt st.T st.cur (fun sc => { sc with vars := sc.vars ++ [(n, st.nextId)] }),
                nextId := st.nextId + 1, kinds := st.kinds ++ [.localv] }
  | .bl =>
    { st with T := st.T ++ [{ parent := some st.cur }], cur := st.T.length, frames := .bl :: st.frames }
  | .use k p => { st with uses := st.uses ++ [⟨k, st.cur, p, find st.T st.cur p⟩] }

def run (is : List Instr) : St := is.foldl exec {}

/-! ## reading a descriptor -/

/-- the tokens up to `;` and the rest -/
def splitSemi : List String → Option (List String × List String)
  | [] => none
  | t :: r => if t = ";" then some ([], r) else (splitSemi r).map fun (a, b) => (t :: a, b)

def splitEnd : List String → Option (List String × List String)
  | [] => none
  | t :: r => if t = "end" then some ([], r) else (splitEnd r).map fun (a, b) => (t :: a, b)

def mkPath : List String → Option Path
  | b :: segs =>
    match segs.reverse with
    | [] => none
    | leaf :: rq => if b = "a" then some ⟨true, rq.reverse, leaf⟩ else if b = "r" then some ⟨false, rq.reverse, leaf⟩ else none
  | [] => none

def useKind? (t : String) : Option UKind :=
  if t = "uv" then some .v else if t = "uf" then some .f else if t = "ut" then some .t else if t = "ue" then some .e
  else if t = "uy" then some .y else if t = "ug" then some .g else none

def parseInstrs : Nat → List String → Option (List Instr)
  | 0, _ => none
  | _ + 1, [] => some []
  | fuel + 1, t :: r =>
    if t = "end" then (parseInstrs fuel r).map (.end :: ·) else
    if t = "bl" then (parseInstrs fuel r).map (.bl :: ·) else
    if t = "ns" then match r with | n :: r' => (parseInstrs fuel r').map (.ns n :: ·) | _ => none else
    if t = "gv" then match r with | n :: r' => (parseInstrs fuel r').map (.gv n :: ·) | _ => none else
    if t = "st" then match r with | n :: r' => (parseInstrs fuel r').map (.st n :: ·) | _ => none else
    if t = "lv" then match r with | n :: r' => (parseInstrs fuel r').map (.lv n :: ·) | _ => none else
    if t = "fn" then match r with | n :: p :: r' => (parseInstrs fuel r').map (.fn n p :: ·) | _ => none else
    if t = "en" then
      match r with
      | n :: r' => match splitEnd r' with
        | some (vals, r'') => (parseInstrs fuel r'').map (.en n vals :: ·)
        | none => none
      | _ => none else
    if t = "td" then
      match r with
      | n :: r' => match splitSemi r' with
        | some (ps, r'') => match mkPath ps with
          | some p => (parseInstrs fuel r'').map (.td n p :: ·)
          | none => none
        | none => none
      | _ => none else
    match useKind? t with
    | some k => match splitSemi r with
      | some (ps, r') => match mkPath ps with
        | some p => (parseInstrs fuel r').map (.use k p :: ·)
        | none => none
      | none => none
    | none => none

def parseDescriptor (s : String) : Option (List Instr) :=
  let toks := (s.splitOn " ").filter (· ≠ "")
  parseInstrs (toks.length + 1) toks

/-! ## the exported program -/

/-- does the namespace block that starts after this point print anything?  (`instrs` = what follows the `ns`) -/
def blockPrints : List Instr → Nat → Bool
  | [], _ => false
  | .ns _ :: r, d => blockPrints r (d + 1)
  | .td _ _ :: r, d => blockPrints r d
  | .end :: r, d => match d with | 0 => false | d + 1 => blockPrints r d
  | _ :: _, _ => true

def resId : Res → Option Nat
  | .loc id => some id
  | .val id => some id
  | .ty id => some id
  | .fns [id] => some id
  | _ => none

structure Ex where
  names : List String
  nsStack : List String := []
  frames : List Frame := []
  nextId : Nat := 0
  nextUse : Nat := 0
  /-- entity id ↦ printed full path -/
  paths : List (Nat × List String) := []
  skip : Nat := 0
  out : List Instr := []
  bad : Option String := none

def lookupNat {β : Type} (n : Nat) : List (Nat × β) → Option β
  | [] => none
  | (k, v) :: r => if k = n then some v else lookupNat n r

def Ex.pop (e : Ex) : String × Ex :=
  match e.names with
  | [] => ("?", { e with bad := some "too few printed names" })
  | n :: r => (n, { e with names := r })

def enumPaths (base : List String) : List String → Nat → List (Nat × List String)
  | [], _ => []
  | v :: r, id => (id, base ++ [v]) :: enumPaths base r (id + 1)

def popN (e : Ex) : Nat → List String × Ex
  | 0 => ([], e)
  | k + 1 => let (n, e1) := e.pop; let (ns, e2) := popN e1 k; (n :: ns, e2)

/-- one declaration / use of the first generation as the second generation sees it; `uses` = what the first generation
    resolved the uses to, `rest` = the instructions that follow (for `blockPrints`) -/
def exportStep (uses : List UseRec) (e : Ex) (i : Instr) (rest : List Instr) : Ex :=
  if e.skip > 0 then
    -- inside a namespace block that prints nothing: only `ns`, `td`, `end` can occur; names are consumed
    match i with
    | .ns _ => { (e.pop).2 with skip := e.skip + 1 }
    | .td _ _ => { (e.pop).2 with nextUse := e.nextUse + 1 }
    | .end => { e with skip := e.skip - 1 }
    | _ => { e with bad := some "declaration in a block that prints nothing" }
  else
  match i with
  | .ns _ =>
    let (pn, e) := e.pop
    if blockPrints rest 0 then { e with nsStack := e.nsStack ++ [pn], frames := .ns :: e.frames, out := e.out ++ [.ns pn] }
    else { e with skip := 1 }
  | .end =>
    match e.frames with
    | [] => { e with bad := some "unbalanced end" }
    | .ns :: fr => { e with nsStack := e.nsStack.dropLast, frames := fr, out := e.out ++ [.end] }
    | _ :: fr => { e with frames := fr, out := e.out ++ [.end] }
  | .gv _ =>
    let (pn, e) := e.pop
    { e with paths := (e.nextId, e.nsStack ++ [pn]) :: e.paths, nextId := e.nextId + 1, out := e.out ++ [.gv pn] }
  | .fn _ _ =>
    let (pn, e) := e.pop
    let (pp, e) := e.pop
    { e with paths := (e.nextId + 1, [pp]) :: (e.nextId, e.nsStack ++ [pn]) :: e.paths, nextId := e.nextId + 2,
             frames := .fn :: e.frames, out := e.out ++ [.fn pn pp] }
  | .st _ =>
    let (pn, e) := e.pop
    { e with paths := (e.nextId, e.nsStack ++ [pn]) :: e.paths, nextId := e.nextId + 1, frames := .st :: e.frames,
             out := e.out ++ [.st pn] }
  | .en _ vals =>
    let (pn, e) := e.pop
    let (pvs, e) := popN e vals.length
    { e with paths := enumPaths (e.nsStack ++ [pn]) pvs (e.nextId + 1) ++ ((e.nextId, e.nsStack ++ [pn]) :: e.paths),
             nextId := e.nextId + 1 + vals.length, out := e.out ++ [.en pn pvs] }
  | .td _ _ => { (e.pop).2 with nextUse := e.nextUse + 1 }
  | .lv _ =>
    let (pn, e) := e.pop
    { e with paths := (e.nextId, [pn]) :: e.paths, nextId := e.nextId + 1, out := e.out ++ [.lv pn] }
  | .bl => { e with frames := .bl :: e.frames, out := e.out ++ [.bl] }
  | .use k _ =>
    let e := { e with nextUse := e.nextUse + 1 }
    let found : Option (Except String (Option Res)) := (uses[e.nextUse - 1]?).map (·.res)
    match found with
    | some (Except.ok (some r)) =>
      match (resId r).bind fun id => (lookupNat id e.paths).bind emitPath with
      | some p => { e with out := e.out ++ [.use k p] }
      | none => { e with bad := some "a use resolved to something the exporter prints no path for" }
    | _ => { e with bad := some "unresolved use" }

def exportGo (uses : List UseRec) : Ex → List Instr → Ex
  | e, [] => e
  | e, i :: r => exportGo uses (exportStep uses e i r) r

def exportInstrs (is : List Instr) (uses : List UseRec) (printed : List String) : Except String (List Instr) :=
  let e := exportGo uses { names := printed } is
  match e.bad with
  | some m => .error m
  | none => .ok e.out

/-! ## what the correspondence stream compares -/

def kindOk (kinds : List EKind) (k : UKind) (r : Res) : Bool :=
  match k, r with
  | .v, .loc _ => true
  | .v, .val id => kinds[id]? == some .gvar
  | .f, .fns [_] => true
  | .t, .ty id => kinds[id]? == some .struct
  | .g, .ty id => kinds[id]? == some .struct
  | .e, .val id => kinds[id]? == some .enumVal
  | .y, .ty id => kinds[id]? == some .enum
  | .td, .ty _ => true
  | _, _ => false

def showRes : Res → String
  | .loc id => "l" ++ toString id
  | .fns ids => "f" ++ "+".intercalate (ids.map toString)
  | .val id => "v" ++ toString id
  | .member n => "m:" ++ n
  | .ty id => "t" ++ toString id

inductive Verdict where
  | resolved (shown : List String)
  | reject
  | panic (msg : String)
  | confusion
deriving Repr, DecidableEq

/-- all uses of one generation: every one found with the kind its form needs, or the first reason why not -/
def verdict (st : St) : Verdict :=
  let rec go : List UseRec → List String → Verdict
    | [], acc => .resolved acc.reverse
    | u :: r, acc =>
      match u.res with
      | .error m => .panic m
      | .ok none => .reject
      | .ok (some res) =>
        if kindOk st.kinds u.kind res then go r (if u.kind = .td then acc else showRes res :: acc) else .confusion
  go st.uses []

/-- the verdict of a compilation: a refused declaration ends it, so only the uses in front of it are looked up -/
def verdictOf (st : St) : Verdict :=
  match st.refused with
  | none => verdict st
  | some (n, _) =>
    match verdict { st with uses := st.uses.take n } with
    | .resolved _ => .reject
    | v => v

def showUses (xs : List String) : String :=
  ",".intercalate (xs.zipIdx.map fun (s, i) => "u" ++ toString i ++ "=" ++ s)

/-- the answer to `C04.names <descriptor> <printed names>` -/
def predict (desc printed : String) : String :=
  match parseDescriptor desc with
  | none => "bad-request"
  | some is =>
    let s1 := run is
    if s1.bad.isSome then "unsupported:descriptor" else
    match verdictOf s1 with
    | .panic _ => "g1:panic"
    | .reject => "g1:reject"
    | .confusion => "unsupported:kind"
    | .resolved xs =>
      if printed = "?" then "g1:" ++ showUses xs else
      match exportInstrs is s1.uses ((printed.splitOn " ").filter (· ≠ "")) with
      | .error m => "unsupported:export:" ++ m
      | .ok is2 =>
        let s2 := run is2
        if s2.bad.isSome then "unsupported:exported descriptor" else
        match verdictOf s2 with
        | .panic _ => "g1:" ++ showUses xs ++ " g2:panic"
        | .reject => "g1:" ++ showUses xs ++ " g2:reject"
        | .confusion => "unsupported:kind in the second generation"
        | .resolved ys => "g1:" ++ showUses xs ++ " g2:" ++ showUses ys

/-! ## transcriptions compared with the re-extracted source (`Gen.PathLookup`) -/

/-- body of `Context::find_identifier`, comments removed, white space normalised -/
def findIdentifierSource : String :=
  "let (leaf_name, scopes) = id.identifiers.split_last().unwrap(); let mut scope_index = match id.base { ast::ScopedIdentifierBase::Relative => self.current_scope, ast::ScopedIdentifierBase::Absolute => 0, }; loop { if let Some(scope_index) = self.walk_into_scopes(scope_index, scopes) { let scope = &self.scopes[scope_index]; if let Some(ve) = self.find_identifier_in_scope(scope, leaf_name) { return Ok(ve); } } scope_index = self.scopes[scope_index].parent_scope; if scope_index == usize::MAX { break; } } Err(TyperError::UnknownIdentifier(id.clone()))"

/-- body of `Context::walk_into_scopes` -/
def walkIntoScopesSource : String :=
  "let mut current = start; for scope in names { let step_start = current; if let Some(symbols) = self.scopes[step_start].symbols.get(&scope.node) { for symbol in symbols { match symbol { ScopeSymbol::Namespace(index) => { assert_eq!(current, step_start); current = *index } ScopeSymbol::EnumScope(index) => { assert_eq!(current, step_start); current = *index } _ => {} } } } if current == step_start { return None; } } Some(current)"

/-- body of `scoped_name_to_identifier` (hlsl/src/ast_generate.rs) -/
def scopedNameToIdentifierSource : String :=
  "ast::ScopedIdentifier { base: ast::ScopedIdentifierBase::Relative, identifiers: scoped_name .0 .into_iter() .map(Located::none) .collect::<Vec<_>>(), }"

/-- `find_identifier_in_scope`: the order of its stages and what each symbol variant does inside the loop -/
def findInScopeStages : List String :=
  ["variables", "symbols", "overloads", "owning_struct", "types"]

def findInScopeArms : List (String × String) :=
  [("Function", "gather"), ("ConstantBuffer", "skip"), ("ConstantBufferMember", "return"), ("GlobalVariable", "return"),
   ("EnumValueUntyped", "return"), ("EnumValue", "return"), ("Type", "skip"), ("TemplateType", "return"),
   ("TemplateValue", "return"), ("Constant", "return"), ("Namespace", "skip"), ("EnumScope", "skip")]

/-- `register_enum_value`: (what is looked at, what is found, what happens) in the order of the checks — what
    `enumValueRefused` mirrors.  The two `panic` rows are the assertions of the typed / untyped bookkeeping (a typed value
    of the enum being declared, an untyped value in the scope that contains it without one in the enum scope): `Sym.val`
    does not tell typed from untyped and neither row is reachable (the enum scope holds the untyped values of this enum
    only, and each of them is inserted into both scopes, so the first row comes first).  The last row is fix fe5dd8d. -/
def enumValueChecks : List (String × String × String) :=
  [("enum-scope", "EnumValueUntyped", "refuse"), ("enum-scope", "EnumValue", "panic"),
   ("parent-scope", "Local", "refuse"), ("parent-scope", "Global", "refuse"), ("parent-scope", "ConstantBufferMember", "refuse"),
   ("parent-scope", "EnumValue", "refuse"), ("parent-scope", "Type", "refuse"), ("parent-scope", "Function", "refuse"),
   ("parent-scope", "EnumValueUntyped", "panic"), ("parent-symbols", "Namespace", "refuse")]

/-- `end_enum`: the promotion loop — no assertion about the other symbols of the name (until fix fe5dd8d:
    `assert_eq!(symbols.len(), 1)`, the panic of `namespace A {} enum E { A };`) -/
def endEnumPromotion : String :=
  "for (name, _) in &enum_values { let symbols = self.scopes[parent_scope].symbols.get_mut(name).unwrap(); for symbol in symbols { if let ScopeSymbol::EnumValueUntyped(id) = symbol { *symbol = ScopeSymbol::EnumValue(*id); replacements += 1; } } }"

end RsslVerif.Model.FixpointNames

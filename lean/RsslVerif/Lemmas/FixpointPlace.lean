import RsslVerif.Model.Fixpoint
set_option linter.unusedSimpArgs false
/-!
Lemmas for C04 `reelab_no_new_casts`, part 0: `Expression::get_type` of a first-generation node is the same in the
environment of the exported program (same variables, same signatures, other function names).  Since fix batch 2
(4575004, b359800, 3758fdd) the type checker asks `get_type` of the written operand of `=` / `++` / `--` and of every
argument given for an `out` / `inout` parameter (`check_mutable_place`); the second generation asks the same question
about the same node.
-/
namespace RsslVerif.Lemmas.FixpointPlace
open RsslVerif.Gen.RankTable RsslVerif.Gen.TypingTables
open RsslVerif.Model.Conv RsslVerif.Model.Overload RsslVerif.Model.IrTyping RsslVerif.Model.Elab
open RsslVerif.Model.Fixpoint

variable {Γ Γ' : Env}

mutual
/-- a node that has a type in the first generation has the same type in the exported environment -/
theorem typeOf_renamed (hR : Renamed Γ Γ') : ∀ (e : IExpr) (τ : ETy), typeOf Γ e = .ok τ → typeOf Γ' e = .ok τ
  | .lit _, _, h => by simpa [typeOf] using h
  | .var i, _, h => by simpa [typeOf, hR.vars] using h
  | .tern _ a b, τ, h => by
    simp only [typeOf] at h ⊢
    split at h
    · simp at h
    · rename_i ta ha
      split at h
      · simp at h
      · rename_i tb hb
        rw [typeOf_renamed hR a ta ha, typeOf_renamed hR b tb hb]
        exact h
  | .seq _ b, τ, h => by
    simp only [typeOf] at h ⊢
    exact typeOf_renamed hR b τ h
  | .call f _, τ, h => by
    simp only [typeOf] at h ⊢
    split at h
    · rename_i s hs
      obtain ⟨s', hs', _, _, hret⟩ := hR.sig f s hs
      simp only [hs', hret]
      exact h
    · simp at h
  | .cast _ _, _, h => by simpa [typeOf] using h
  | .op o args, τ, h => by
    simp only [typeOf] at h ⊢
    split at h
    · simp at h
    · rename_i ts hts
      rw [typesOf_renamed hR args ts hts]
      exact h
theorem typesOf_renamed (hR : Renamed Γ Γ') : ∀ (as : IArgs) (ts : List ETy), typesOf Γ as = .ok ts →
    typesOf Γ' as = .ok ts
  | .nil, _, h => by simpa [typesOf] using h
  | .cons e r, ts, h => by
    simp only [typesOf] at h ⊢
    split at h
    · simp at h
    · rename_i t ht
      split at h
      · simp at h
      · rename_i tr hr
        rw [typeOf_renamed hR e t ht, typesOf_renamed hR r tr hr]
        exact h
end

/-- `Cast` nodes are rvalues: `get_type` answers `ExpressionType(ty, Rvalue)` -/
theorem typeOf_cast (t : Ty) (e : IExpr) : typeOf Γ (.cast t e) = .ok t.r := by simp [typeOf]

/-! ## `check_mutable_place` / `check_output_arguments` in the exported environment -/

theorem checkMutablePlace_renamed (hR : Renamed Γ Γ') {e : IExpr} (h : checkMutablePlace Γ e = .ok ()) :
    checkMutablePlace Γ' e = .ok () := by
  unfold checkMutablePlace at h ⊢
  split at h
  · simp at h
  · rename_i τ hτ
    rw [typeOf_renamed hR e τ hτ]
    exact h

theorem checkOutArgs_renamed (hR : Renamed Γ Γ') : ∀ (ps : List Param) (as : IArgs),
    checkOutArgs Γ ps as = .ok () → checkOutArgs Γ' ps as = .ok ()
  | p :: ps, .cons e r, h => by
    simp only [checkOutArgs] at h ⊢
    split at h
    · rename_i hio
      simp only [hio, if_true]
      split at h
      · simp at h
      · rename_i hm
        rw [checkMutablePlace_renamed hR hm]
        exact checkOutArgs_renamed hR ps r h
    · rename_i hio
      simp only [hio]
      exact checkOutArgs_renamed hR ps r h
  | [], _, _ => by simp [checkOutArgs]
  | _ :: _, .nil, _ => by simp [checkOutArgs]

/-- `check_output_arguments` looks at the parameters `From<InputModifier> for ValueType` maps to an lvalue -/
theorem isOutputParam_needsLvalue (io : InputModifier) : isOutputParam io = io.needsLvalue := by cases io <;> rfl

/-- a `Cast` node is never a mutable place: its type is an rvalue (`LvalueRequired`) -/
theorem checkMutablePlace_not_cast {e : IExpr} (h : checkMutablePlace Γ e = .ok ()) : isCast e = false := by
  cases e <;> simp [isCast]
  simp [checkMutablePlace, typeOf, Ty.r] at h

/-- **since fix 3758fdd no accepted call passes a `Cast` for an `out` / `inout` parameter** -/
theorem outArgsPlain_of_checkOutArgs : ∀ (ps : List Param) (as : IArgs),
    checkOutArgs Γ ps as = .ok () → outArgsPlain ps as = true
  | p :: ps, .cons e r, h => by
    simp only [checkOutArgs] at h
    simp only [outArgsPlain, Bool.and_eq_true, Bool.not_eq_true', Bool.and_eq_false_iff]
    split at h
    · split at h
      · simp at h
      · rename_i hm
        exact ⟨Or.inr (checkMutablePlace_not_cast hm), outArgsPlain_of_checkOutArgs ps r h⟩
    · rename_i hio
      rw [isOutputParam_needsLvalue] at hio
      exact ⟨Or.inl (by simpa using hio), outArgsPlain_of_checkOutArgs ps r h⟩
  | [], _, _ => by simp [outArgsPlain]
  | _ :: _, .nil, _ => by simp [outArgsPlain]

end RsslVerif.Lemmas.FixpointPlace

import RsslVerif.Model.Include
import RsslVerif.Model.MacroTame
import RsslVerif.Driver.Util
/-! Line-protocol front end of the C12 model (request syntax: see harness/src/c12.rs). -/
namespace RsslVerif.Driver.C12
open RsslVerif.Model.Macro RsslVerif.Model.Include RsslVerif.Model.MacroTame RsslVerif.Driver

def isIdentString (s : String) : Bool :=
  match s.toList with
  | [] => false
  | c :: r => (c.isAlpha || c == '_') && r.all (fun d => d.isAlphanum || d == '_')

/-- a spelling that the lexer model reads as one integer literal -/
def isIntSpelling (s : String) : Bool :=
  s.length ≤ 24 && (match s.toList with | c :: _ => c.isDigit | [] => false) && s.toList.all Char.isAlphanum &&
    (lexOne s).any isIntLiteral

def parseTok (s : String) : Option Tok :=
  if s == "~" then some .ws
  else if s == "/**/" then some .ws
  -- wave 5, white space in other spellings: line continuation (`Token::PhysicalEndline`), tab, line comment, a block
  -- comment that holds a line end: each is ONE white-space token that is not a line end
  else if s == "~c" || s == "~t" || s == "//c" || s == "/*n*/" then some .ws
  else if s == "(" then some .lparen
  else if s == ")" then some .rparen
  else if s == "," then some .comma
  else if s == "##" then some .hashhash
  else if ["+", "-", "*", ";", "=", "{", "}"].contains s then some (.punct s)
  else if isDigitString s && !(s.length > 1 && s.startsWith "0") && s.length ≤ 18 then some (.int s)
  else if isIdentString s then (if RsslVerif.Gen.MacroTables.keywords.contains s then none else some (.id s))
  -- an integer literal in another spelling (hex, octal, leading zeros, suffixes): kept by spelling
  else if isIntSpelling s then some (.int s)
  else none

/-- the value of an API define may hold a line end (`~n`); a line of a file can not -/
def parseApiTok (s : String) : Option Tok :=
  if s == "~n" then some .endline else parseTok s

def parseToks (s : String) : Option (List Tok) :=
  sequenceOpt (((s.splitOn " ").filter (· ≠ "")).map parseTok)

def parseLine (s : String) : Option Line :=
  let s := s.trimAscii.toString
  let (k, rest) := match s.splitOn " " with
    | [] => ("", "")
    | k :: r => (k, " ".intercalate r)
  match k with
  | "D" => (parseToks rest).map (fun t => .define (located t))
  | "U" => (parseToks rest).map (fun t => .undef (located t))
  | "I" =>
    -- `I name` = `#include "name"`, `I <name>` = `#include <name>` (`Token::HeaderName`): the same file name
    let n := rest.trimAscii.toString
    some (.incl (if n.startsWith "<" && n.endsWith ">" then ((n.drop 1).dropEnd 1).toString else n))
  | "O" => some .pragmaOnce
  | "W" => some .pragmaWarning
  | "N" => some .null
  | "T" => (parseToks rest).map (fun t => .text (located t))
  -- a directive line that is rejected: `X P` = `#pragma foo`, `X P0` = `#pragma`, `X C` = `#foo`, `X I0` = `#include`,
  -- `X I1` = `#include foo`, `X I2` = `#include "f1" x`
  | "X" =>
    match rest.trimAscii.toString with
    | "P" | "P0" => some (.rejected .unknownPragma)
    | "C" | "C1" => some (.rejected .unknownCommand)
    | "I0" | "I1" | "I2" => some (.rejected .invalidInclude)
    | _ => none
  | _ => none

/-- a file entry `name|lines` or `name>real|lines`: (include name, (real name the handler reports, lines)) -/
def parseFile (s : String) : Option (String × String × List Line) :=
  match s.splitOn "|" with
  | [] => none
  | head :: ls =>
    -- `!` + letters behind the name: how the file's text is spelled (CR LF, no final line end, `# define`): same tokens
    let head := (head.trimAscii.toString.splitOn "!").headD ""
    let (name, real) := match head.splitOn ">" with
      | [n] => (n, n)
      | n :: r :: _ => (n, r)
      | [] => ("", "")
    (sequenceOpt (ls.map parseLine)).map (fun l => (name, real, l))

/-- an API entry is `NAME value-tokens`, or `name-tokens := value-tokens` when the name is not one identifier -/
def parseApi (s : String) : Option (List ApiDefine) :=
  if s == "-" then some []
  else sequenceOpt ((s.splitOn "|").map fun e =>
    let ws := (e.trimAscii.toString.splitOn " ").filter (· ≠ "")
    match ws.span (· ≠ ":=") with
    | (n, _ :: v) =>
      match sequenceOpt (n.map parseTok), sequenceOpt (v.map parseApiTok) with
      | some n, some v => some ⟨n, v⟩
      | _, _ => none
    | (_, []) =>
      match ws with
      | [] => none
      | n :: v =>
        match parseTok n, sequenceOpt (v.map parseApiTok) with
        | some n, some v => some ⟨[n], v⟩
        | _, _ => none)

def handlerOf (files : List (String × String × List Line)) : Handler :=
  fun n => (files.find? (·.1 == n)).map (·.2)

/-- one content per real name (the assumption under which `FileLoader`'s content cache is not observable) -/
def consistent : List (String × String × List Line) → Bool
  | [] => true
  | (_, real, lines) :: r => r.all (fun f => f.2.1 != real || f.2.2 == lines) && consistent r

/-- the observation form of an integer literal: kind and VALUE, as the lexer model reads the spelling -/
def showInt (s : String) : String :=
  match lexOne s with
  | some (.litInt v) => toString v
  | some (.litIntU32 v) => "?LiteralIntUnsigned32(" ++ toString v ++ ")"
  | some (.litIntU64 v) => "?LiteralIntUnsigned64(" ++ toString v ++ ")"
  | some (.litIntS64 v) => "?LiteralIntSigned64(" ++ toString v ++ ")"
  | _ => "?not-an-integer-literal(" ++ s ++ ")"

def showTok : Tok → String
  | .int s => showInt s
  | .id s | .punct s => s
  | .lparen => "("
  | .rparen => ")"
  | .comma => ","
  | .ws => "~"
  | .endline => "~"
  | .hashhash => "##"
  | .concat => "?Concat"
  | .arg i => "?MacroArg(" ++ toString i ++ ")"

def showErr : Err → String
  | .invalidDefine => "err InvalidDefine"
  | .invalidUndef => "err InvalidUndef"
  | .macroRequiresArguments n => "err MacroRequiresArguments(" ++ n ++ ")"
  | .macroArgumentsNeverEnd => "err MacroArgumentsNeverEnd"
  | .macroExpectsDifferentNumberOfArguments => "err MacroExpectsDifferentNumberOfArguments"
  | .concatMissingLeftToken => "err ConcatMissingLeftToken"
  | .concatMissingRightToken => "err ConcatMissingRightToken"
  | .concatFailed => "err ConcatFailed"
  | .failedToFindFile n => "err FailedToFindFile(" ++ n ++ ")"
  | .unknownPragma => "err UnknownPragma"
  | .unknownCommand => "err UnknownCommand"
  | .invalidInclude => "err InvalidInclude"
  | .panic site => "panic " ++ site
  | .hang => "model-hang"
  | .guard w => "model-guard " ++ w
  | .unsupported w => "unsupported " ++ w
  | .includeFuel => "err IncludeDepthExceeded"

def run (api : List ApiDefine) (files : List (String × String × List Line)) : String :=
  match files with
  | [] => "bad-request"
  | (entry, _) :: _ =>
    if !consistent files then "unsupported two contents for one real file name" else
    match preprocess (handlerOf files) RsslVerif.Gen.MacroTables.maxIncludeDepth api entry with
    | .error e => showErr e
    | .ok ts =>
      match prepare ts with
      | .error e => showErr e
      | .ok out => (" ".intercalate ("ok" :: out.map showTok))


/-! ## classification: is every block of the program in the class of `Thm.C12.expand_refines_spec_with_paste_decided`?

The same walk over the lines as `Model.Include` (`stepLine` / `runFile` / `includeFile`), carrying a flag: every block
of text lines is expanded under a table with pairwise distinct names and well-formed replacement lists
(`wfPB`), and `tameRunP` accepts it. -/

def namesDistinct : List String → Bool
  | [] => true
  | n :: r => !r.contains n && namesDistinct r

/-- is this block in the class? -/
def blockTame (macros : List Macro) (active : List PTok) : Bool :=
  namesDistinct (macros.map (·.name)) && macros.all wfPB && active.all (fun t => t.tok != .concat) &&
    (tameRunP (16 * active.length + 256) (macros.map (⟨·, false⟩)) active).isSome

structure TState where
  st : State
  tame : Bool

/-- `boundary`: the block ends where a file is included or an included file ends.  C has no block boundary there
(inclusion is textual), so the class also requires that such a block does not end in the name of a function-like macro
(an invocation that would span the boundary of a file). -/
def tflush (ts : TState) (active : List PTok) (boundary : Bool := false) : Except Err TState :=
  let ok := ts.tame && blockTame ts.st.macros active
  match flush ts.st active with
  | .error e => .error e
  | .ok st =>
    let produced := st.out.drop ts.st.out.length
    let spans := boundary &&
      (match lastTok produced with
       | some (.id g) => ts.st.macros.any (fun m => m.name == g && m.isFunction)
       | _ => false)
    .ok ⟨st, ok && !spans⟩

def tstepLine (inc : String → TState → Except Err TState) (cur : String) :
    TState × List PTok → Line → Except Err (TState × List PTok)
  | (ts, active), .text toks => .ok (ts, active ++ toks ++ [eol])
  | (ts, active), .define cmd =>
    match tflush ts active with
    | .error e => .error e
    | .ok ts =>
      match doDefine ts.st.macros cmd with
      | .error e => .error e
      | .ok ms => .ok (⟨{ ts.st with macros := ms }, ts.tame⟩, [])
  | (ts, active), .undef cmd =>
    match tflush ts active with
    | .error e => .error e
    | .ok ts =>
      match doUndef ts.st.macros cmd with
      | .error e => .error e
      | .ok ms => .ok (⟨{ ts.st with macros := ms }, ts.tame⟩, [])
  | (ts, active), .pragmaWarning =>
    match tflush ts active with
    | .error e => .error e
    | .ok ts => .ok (ts, [])
  | (ts, active), .pragmaOnce =>
    match tflush ts active with
    | .error e => .error e
    | .ok ts => .ok (⟨{ ts.st with once := cur :: ts.st.once }, ts.tame⟩, [])
  | (ts, active), .incl name =>
    match tflush ts active true with
    | .error e => .error e
    | .ok ts =>
      match inc name ts with
      | .error e => .error e
      | .ok ts => .ok (ts, [])
  | (ts, active), .rejected e =>
    match tflush ts active with
    | .error e' => .error e'
    | .ok _ => .error e
  | (ts, active), .null =>
    match tflush ts active with
    | .error e => .error e
    | .ok ts => .ok (ts, [eol])

def tfoldLines (inc : String → TState → Except Err TState) (cur : String) :
    TState × List PTok → List Line → Except Err (TState × List PTok)
  | s, [] => .ok s
  | s, l :: rest =>
    match tstepLine inc cur s l with
    | .error e => .error e
    | .ok s' => tfoldLines inc cur s' rest

def trunFile (inc : String → TState → Except Err TState) (cur : String) (ts : TState) (lines : List Line) :
    Except Err TState :=
  match tfoldLines inc cur (ts, fileStart lines) lines with
  | .error e => .error e
  | .ok (ts, active) => tflush ts active true

def tincludeFile (h : Handler) : Nat → String → TState → Except Err TState
  | 0, _, _ => .error .includeFuel
  | fuel + 1, name, ts =>
    match h name with
    | none => .error (.failedToFindFile name)
    | some (real, lines) =>
      if ts.st.once.contains real then trunFile (tincludeFile h fuel) real ts []
      else trunFile (tincludeFile h fuel) real ts lines

/-- `tame`: every block is in the class and the model's run succeeds; `not-tame` otherwise -/
def classify (api : List ApiDefine) (files : List (String × String × List Line)) : String :=
  match files with
  | [] => "bad-request"
  | (_, entry, lines) :: _ =>
    if !consistent files then "not-tame" else
    match initialMacros [] api with
    | .error _ => "not-tame"
    | .ok ms =>
      match trunFile (tincludeFile (handlerOf files) RsslVerif.Gen.MacroTables.maxIncludeDepth) entry ⟨{ macros := ms, out := [], once := [] }, true⟩ lines with
      | .error _ => "not-tame"
      | .ok ts => if ts.tame then "tame" else "not-tame"

def handle (op : String) (args : List String) : String :=
  match op, args with
  | "C12.run", api :: files =>
    match parseApi api, sequenceOpt (files.map parseFile) with
    | some api, some files => run api files
    | _, _ => "unsupported token outside the model (float literal, keyword, string literal, another operator) or malformed request"
  | "C12.hof", api :: files =>
    -- the same program semantics as `C12.run`; the harness judges these requests strictly (no known deviation accepted)
    match parseApi api, sequenceOpt (files.map parseFile) with
    | some api, some files => run api files
    | _, _ => "unsupported token outside the model (float literal, keyword, string literal, another operator) or malformed request"
  | "C12.tame", api :: files =>
    match parseApi api, sequenceOpt (files.map parseFile) with
    | some api, some files => classify api files
    | _, _ => "not-tame"
  | "C12.limit", _ => "unsupported (resource test on the real code only)"
  | _, _ => "unsupported-op"

end RsslVerif.Driver.C12

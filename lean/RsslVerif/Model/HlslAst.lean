import RsslVerif.Gen.HlslGenTables
import RsslVerif.Model.Ir
/-!
# `Model.HlslAst` — compact model of the `rssl_ast` fragment the HLSL exporter emits for the scalar subset

`Literal` (with its suffix kind), `Identifier`, `UnaryOperation`, `BinaryOperation` (incl. `Sequence`),
`TernaryConditional`, `Cast`, `Call`; statements `Expression`, `Var` (one `InitDeclarator` list), `Block`, `If`,
`IfElse`, `For`, `While`, `DoWhile`, `Break`, `Continue`, `Return`.  Types are the printed scalar names.
-/
namespace RsslVerif.Model.HlslAst
open RsslVerif.Gen.HlslGenTables

/-- `ast::Literal` (subset): the constructor is the suffix kind -/
inductive Lit where
  | bool (b : Bool)
  | intUntyped (n : Nat)          -- `3`
  | intUnsigned32 (n : Nat)       -- `3u`
  | float32 (bits : BitVec 32)    -- `1.0f`
  | floatUntyped (bits : BitVec 64) -- `1.0`
  deriving DecidableEq, Repr, Inhabited

mutual
inductive Expr where
  | lit (l : Lit)
  | ident (s : String)
  | un (op : UnaryOp) (e : Expr)
  | bin (op : BinOp) (a b : Expr)
  | tern (c t f : Expr)
  | cast (ty : String) (e : Expr)
  | call (f : String) (args : Exprs)
  deriving Repr, Inhabited
inductive Exprs where
  | nil
  | cons (e : Expr) (r : Exprs)
  deriving Repr, Inhabited
end

def Exprs.toList : Exprs → List Expr
  | .nil => []
  | .cons e r => e :: r.toList

/-- `InitStatement` -/
inductive ForInit where
  | empty
  | expr (e : Expr)
  | decl (ty : String) (defs : List (String × Option Expr))
  deriving Repr, Inhabited

mutual
inductive Stmt where
  | expr (e : Expr)
  | var (ty : String) (name : String) (init : Option Expr)
  | block (b : Stmts)
  | ifThen (c : Expr) (b : Stmt)
  | ifElse (c : Expr) (t f : Stmt)
  | for (init : ForInit) (cond inc : Option Expr) (b : Stmt)
  | while (c : Expr) (b : Stmt)
  | doWhile (b : Stmt) (c : Expr)
  | break
  | continue
  | ret (e : Option Expr)
  | empty                                  -- `;`
  | switch (c : Expr) (b : Stmt)
  | caseLabel (e : Expr) (s : Stmt)        -- `case e: s` (the label owns the next statement)
  | defaultLabel (s : Stmt)
  deriving Repr, Inhabited
inductive Stmts where
  | nil
  | cons (s : Stmt) (r : Stmts)
  deriving Repr, Inhabited
end

/-- the tail of `generate_scope_block`'s loop body: a new statement fills the still-empty slot of a label that is the
last statement so far, otherwise it is appended -/
def pushStmt : Stmts → Stmt → Stmts
  | .nil, s => .cons s .nil
  | .cons x .nil, s =>
    match x with
    | .caseLabel e .empty => .cons (.caseLabel e s) .nil
    | .defaultLabel .empty => .cons (.defaultLabel s) .nil
    | _ => .cons x (.cons s .nil)
  | .cons x (.cons y r), s => .cons x (pushStmt (.cons y r) s)

/-- `FunctionDefinition` (name, return type name, parameters with `in`/`out`/`inout` modifier and type name, body) -/
structure Func where
  name : String
  ret : String
  params : List (String × Ir.Dir × String)
  body : Stmts
  deriving Repr, Inhabited

end RsslVerif.Model.HlslAst

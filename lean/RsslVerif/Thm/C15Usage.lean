import RsslVerif.Thm.C15
import RsslVerif.Gen.UsageTables
import RsslVerif.Gen.UsageOperands
/-!
# C15 — the usage analysis that feeds `NameMap::build` sees a symbol wherever its use sits

`NameMap::build` keeps locals off the emitted names of the functions / globals in `GlobalUsageAnalysis` (`Input.used` of the
model; `locals_apart_from_used`).  `Input.used` is an input of the model: what ties it to "every function / global some body
mentions" is that `gather_usage_for_expression` descends into **every operand field of every `Expression` variant**.  The two
tables below are re-extracted on every run: `Gen.UsageOperands.exprOperandFields` (from `enum Expression`: which fields hold
sub-expressions) and `Gen.UsageTables.exprArms` (from the match arms of `gather_usage_for_expression`, per or-pattern
alternative: which bound fields are passed on to a `gather_usage_*` call).
-/
namespace RsslVerif.Thm.C15
open RsslVerif.Gen.UsageTables RsslVerif.Gen.UsageOperands

/-- one step from an expression to a sub-expression: (variant of the parent, index of the field the child sits in) -/
abbrev Step := String × Nat

/-- the steps the IR allows: operand fields of `enum Expression` -/
def operandSteps : List Step :=
  exprOperandFields.flatMap fun r => ((List.range r.2.length).filter fun i => r.2.getD i false).map fun i => (r.1, i)

/-- does the arm of `gather_usage_for_expression` for `s.1` recurse into field `s.2` -/
def stepDescended (arms : List (String × List Bool)) (s : Step) : Bool :=
  match arms.lookup s.1 with
  | some fl => fl.getD s.2 false
  | none => false

/-- a mention of a function / global at the end of `path` (root expression of a statement first) is reached by the recursive
walk iff every step of the path is descended into; the mention itself is recorded when its variant inserts the symbol -/
def mentionRecorded (arms : List (String × List Bool)) (inserts : List (String × String)) (path : List Step) (leaf : String) : Bool :=
  path.all (stepDescended arms) && (inserts.lookup leaf).isSome

/-- **usage_visits_all_operands** (Gen fact on the regenerated tables): every operand field of every `Expression` variant —
`ArraySubscript`'s INDEX (field 1) as much as its object — is passed on by its arm of `gather_usage_for_expression`; the arms
cover exactly the variants of the enum; `Global` records a global, `Call` a function.  An arm that binds an operand with `_`
(seed C15-7: `ArraySubscript(ref object, _)`) makes this false. -/
theorem usage_visits_all_operands :
    operandSteps.all (stepDescended exprArms) = true ∧
    exprArms.map (·.1) = exprOperandFields.map (·.1) ∧
    exprArms.map (·.2.length) = exprOperandFields.map (·.2.length) ∧
    ("ArraySubscript", 1) ∈ operandSteps ∧ ("ArraySubscript", 0) ∈ operandSteps ∧
    symbolInserts.lookup "Global" = some "GlobalVariable" ∧ symbolInserts.lookup "Call" = some "Function" ∧
    functionBodyGathered = true := by decide

/-- **used_symbols_include_index_positions**: a function call / global mention at ANY position of an expression — any path of
operand steps of any length, e.g. index of an index of a ternary arm — is recorded by `gather_usage_for_expression`. -/
theorem used_symbols_include_index_positions (path : List Step) (hp : ∀ s ∈ path, s ∈ operandSteps) :
    mentionRecorded exprArms symbolInserts path "Global" = true ∧
    mentionRecorded exprArms symbolInserts path "Call" = true := by
  have hall : path.all (stepDescended exprArms) = true := by
    refine List.all_eq_true.mpr fun s hs => ?_
    exact List.all_eq_true.mp usage_visits_all_operands.1 s (hp s hs)
  have hg : (symbolInserts.lookup "Global").isSome = true := by decide
  have hc : (symbolInserts.lookup "Call").isSome = true := by decide
  simp [mentionRecorded, hall, hg, hc]

/-- non-vacuity: `a[b[g]]` inside a ternary arm inside an intrinsic argument is such a path; and the statement is about the
table — with the index field of `ArraySubscript` not descended (the mutant's table) the same mention is NOT recorded -/
example : (∀ s ∈ [("IntrinsicOp", 1), ("TernaryConditional", 1), ("ArraySubscript", 1), ("ArraySubscript", 1)], s ∈ operandSteps) ∧
    mentionRecorded (exprArms.map fun r => if r.1 == "ArraySubscript" then (r.1, [true, false]) else r) symbolInserts
      [("ArraySubscript", 1)] "Global" = false := by decide

/-- **locals_apart_from_mentioned**: composition with `locals_apart_from_used`.  If the module's usage input contains every
symbol that has a recorded mention (what `GlobalUsageAnalysis` yields), then no local is printed under the name of a function /
global that is mentioned at any operand path in some body — wherever the mention sits. -/
theorem locals_apart_from_mentioned {reserved : List String} {inp : Model.Names.Input} {names : List Model.Names.Named}
    (h : Model.Names.build reserved inp = .ok names) (hwf : ∀ e, e ∈ inp.entries → e.sym.kind ≠ .localVar)
    (mentions : List (Model.Names.Sym × List Step × String))
    (hpaths : ∀ m ∈ mentions, (∀ s ∈ m.2.1, s ∈ operandSteps) ∧ (m.2.2 = "Global" ∨ m.2.2 = "Call"))
    (hused : ∀ m ∈ mentions, mentionRecorded exprArms symbolInserts m.2.1 m.2.2 = true → m.1 ∈ inp.used) :
    ∀ l ∈ names, ∀ g ∈ names, l.sym.kind = .localVar → (g.sym.kind = .func ∨ g.sym.kind = .global) →
      (∃ m ∈ mentions, m.1 = g.sym) → l.name ≠ g.name := by
  intro l hl g hg hkl hkg ⟨m, hm, hmg⟩
  refine locals_apart_from_used h hwf l hl g hg hkl hkg ?_
  rw [← hmg]
  refine hused m hm ?_
  have := used_symbols_include_index_positions m.2.1 (hpaths m hm).1
  rcases (hpaths m hm).2 with e | e <;> rw [e]
  · exact this.1
  · exact this.2

end RsslVerif.Thm.C15

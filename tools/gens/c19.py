"""Translator plugin for C19: Gen.LayoutTables.

Reads ir/src/layout_checker.rs (`get_type_layout`, `check_layout`) and ir/src/ir_types.rs
(`ScalarType`, `ScalarType::get_size`, `TypeLayer`) and writes the per-layer size/alignment rule
selectors as small straight-line programs over a fixed op vocabulary.  The Lean model interprets these
programs, so an edit of an arm (dropping the power-of-two rounding, adding a final round-up, comparing
something else ...) changes the model on the next run; a statement outside the vocabulary is an
ExtractError (= broken obligation), never a silent pass.
"""
import re

# statement (whitespace-normalised, spaces removed) -> op constructor
STMT_OPS = {
    "layout.size*=x": "mulSizeX",
    "x=x.next_power_of_two()": "xNextPow2",
    "layout.align=layout.size": "alignGetsSize",
    "layout.size=layout.size.next_multiple_of(member_layout.align)": "alignUpToMember",
    "layout.size+=member_layout.size": "addMemberSize",
    "layout.align=layout.align.max(member_layout.align)": "maxAlign",
    "layout.size=layout.size.next_multiple_of(layout.align)": "roundSizeToAlign",
    "layout.size*=u32::try_from(count).unwrap()": "mulSizeCount",
    # since fix 24ea36f: the checked forms, `None` (= "unknown size") instead of a panic
    "layout.size=layout.size.checked_next_multiple_of(member_layout.align)?": "alignUpToMemberChecked",
    "layout.size=layout.size.checked_add(member_layout.size)?": "addMemberSizeChecked",
    "layout.size=layout.size.checked_next_multiple_of(layout.align)?": "roundSizeToAlignChecked",
    "layout.size=layout.size.checked_mul(u32::try_from(count).ok()?)?": "mulSizeCountChecked",
}
# since fix d25724e: `if def.members.is_empty() && matches!(mode, PackingMode::Metal) { layout.size = 1; }` in the tail of
# the Struct arm: an op of the named mode only
EMPTY_STRUCT_RX = re.compile(r"ifdef\.members\.is_empty\(\)&&matches!\(mode,PackingMode::([A-Za-z]+)\)\{layout\.size=1;\}")
EMPTY_STRUCT_OP = "sizeOneIfNoMembers"
# the statements of the global loop of `check_layout` that peel the global's type before the `Object` test
PEEL_OPS = {"remove_modifier": "removeModifier", "get_non_array_id": "nonArray"}
# since fix bdddd35: the loop that removes a modifier after every array layer
PEEL_WHILE = "whileletTypeLayer::Array(inner,_)=module.type_registry.get_type_layer(ty){ty=module.type_registry.remove_modifier(inner);}"
PEEL_WHILE_OP = "whileArrayRemoveModifier"
MODES = ["HlslStructuredBuffer", "Metal"]


def register(gen, T):
    from rustsrc import (ExtractError, fn_body, impl_fn_body, enum_variants, first_match, match_arms,
                         split_top, normws, matching)

    def squeeze(s):
        return re.sub(r"\s+", "", s)

    def statements(block):
        """top-level statements of a `{ ... }` block body; `match` blocks are kept whole"""
        out, i, n = [], 0, len(block)
        start = 0
        while i < n:
            c = block[i]
            if c in "([{":
                j = matching(block, i)
                if c == "{":
                    # a block statement (match ... { }) ends here unless followed by more expression
                    k = j + 1
                    while k < n and block[k] in " \t\r\n":
                        k += 1
                    if k >= n or block[k] not in ".;?":
                        out.append(block[start:j + 1].strip())
                        start = j + 1
                i = j + 1
                continue
            if c == ";":
                out.append(block[start:i].strip())
                start = i + 1
            i += 1
        tail = block[start:].strip()
        if tail:
            out.append(tail)
        return [s for s in out if s]

    def ops_of(stmts, what):
        """translate statements into {mode: [ops]}; `match mode {..}` gives per-mode ops"""
        per = {m: [] for m in MODES}
        for s in stmts:
            if s.startswith("match"):
                scrut, arms_text, _ = first_match(s, None, 0)
                if scrut != "mode":
                    raise ExtractError(f"{what}: match on {scrut!r} unsupported")
                seen = set()
                for pats, guard, result in match_arms(arms_text):
                    if guard is not None:
                        raise ExtractError(f"{what}: guard unsupported")
                    body = result.strip()
                    if body.startswith("{"):
                        inner = statements(body[1:matching(body, 0)])
                    else:
                        inner = [body]
                    for p in pats:
                        mm = re.fullmatch(r"PackingMode::([A-Za-z]+)", p)
                        if not mm or mm.group(1) not in MODES:
                            raise ExtractError(f"{what}: mode pattern {p!r} unsupported")
                        seen.add(mm.group(1))
                        for st in inner:
                            k = squeeze(st)
                            if k not in STMT_OPS:
                                raise ExtractError(f"{what}: statement {normws(st)!r} is outside the op vocabulary")
                            per[mm.group(1)].append(STMT_OPS[k])
                if seen != set(MODES):
                    raise ExtractError(f"{what}: match mode covers {sorted(seen)}")
            else:
                k = squeeze(s)
                em = EMPTY_STRUCT_RX.fullmatch(k)
                if em and what == "Struct arm tail" and em.group(1) in MODES:
                    per[em.group(1)].append(EMPTY_STRUCT_OP)
                    continue
                if k not in STMT_OPS:
                    raise ExtractError(f"{what}: statement {normws(s)!r} is outside the op vocabulary")
                for m in MODES:
                    per[m].append(STMT_OPS[k])
        return per

    def lean_ops(per):
        return {m: T.lean_list("." + o for o in per[m]) for m in MODES}


    # statement (squeezed) -> op of the member loop of `offsets_match`
    OFF_OPS = {
        "lethlsl=get_type_layout(module,member.type_id,PackingMode::HlslStructuredBuffer)?": "getHlsl",
        "letmetal=get_type_layout(module,member.type_id,PackingMode::Metal)?": "getMetal",
        "offset_hlsl=offset_hlsl.next_multiple_of(hlsl.align)": "alignHlsl",
        "offset_metal=offset_metal.next_multiple_of(metal.align)": "alignMetal",
        "ifoffset_hlsl!=offset_metal||!offsets_match(module,member.type_id)?{returnSome(false);}": "requireEqualThenRecurse",
        "offset_hlsl+=hlsl.size": "advanceHlsl",
        "offset_metal+=metal.size": "advanceMetal",
        "offset_hlsl=offset_hlsl.checked_next_multiple_of(hlsl.align)?": "alignHlslChecked",
        "offset_metal=offset_metal.checked_next_multiple_of(metal.align)?": "alignMetalChecked",
        "offset_hlsl=offset_hlsl.checked_add(hlsl.size)?": "advanceHlslChecked",
        "offset_metal=offset_metal.checked_add(metal.size)?": "advanceMetalChecked",
    }
    ARR_OPS = {
        "ifcount==0{returnSome(true);}": "zeroCountTrue",
        "lethlsl=get_type_layout(module,inner,PackingMode::HlslStructuredBuffer)?": "getHlsl",
        "letmetal=get_type_layout(module,inner,PackingMode::Metal)?": "getMetal",
        "ifcount>1&&hlsl.size.next_multiple_of(hlsl.align)!=metal.size.next_multiple_of(metal.align){returnSome(false);}":
            "requireEqualStrideIfSeveral",
        "ifcount>1&&hlsl.size.checked_next_multiple_of(hlsl.align)?!=metal.size.checked_next_multiple_of(metal.align)?{returnSome(false);}":
            "requireEqualStrideIfSeveralChecked",
        "offsets_match(module,inner)": "recurse",
    }

    def offsets_match_tables(lc):
        """`offsets_match`: per-layer behaviour; the struct member loop and the array arm as op lists"""
        names = sorted(set(OFF_OPS.values()) | set(ARR_OPS.values()))
        out = ["/-- one statement of `offsets_match` (fixed vocabulary of the translator) -/\n"
               "inductive OffOp where\n" + "".join(f"  | {o}\n" for o in names) +
               "  deriving DecidableEq, Repr, Inhabited\n\n"]
        try:
            body = fn_body(lc, "offsets_match")
        except ExtractError:
            # the function does not exist (pre-fix source): nothing below a type is compared
            out.append("def hasOffsetsMatch : Bool := false\n"
                       "def offsetsInit : Nat × Nat := (0, 0)\n"
                       "def offsetsMemberOps : List OffOp := []\n"
                       "def offsetsArrayOps : List OffOp := []\n"
                       "def offsetsModifierIsInner : Bool := false\n")
            return "".join(out)
        scrut, arms_text, _ = first_match(body, None, 0)
        if squeeze(scrut) != "module.type_registry.get_type_layer(ty)":
            raise ExtractError(f"offsets_match: scrutinee {scrut!r}")
        member_ops = array_ops = init = None
        modifier_inner = default_true = False
        for pats, guard, result in match_arms(arms_text):
            if guard is not None or len(pats) != 1:
                raise ExtractError("offsets_match: guard / alternative patterns unsupported")
            p, res = squeeze(pats[0]), result.strip()
            if p == "TypeLayer::Struct(sid)":
                st = statements(res[1:matching(res, 0)])
                if squeeze(st[0]) != "letdef=&module.struct_registry[sid.0asusize]":
                    raise ExtractError("offsets_match: Struct arm first statement changed")
                mi = re.fullmatch(r"let\(mutoffset_hlsl,mutoffset_metal\)=\((\d+)u32,(\d+)u32\)", squeeze(st[1]))
                if not mi:
                    raise ExtractError("offsets_match: initial offsets not literals")
                init = (int(mi.group(1)), int(mi.group(2)))
                lm = re.match(r"for\s+member\s+in\s+&def\.members\s*\{", st[2])
                if not lm or len(st) != 4 or squeeze(st[3]) != "Some(true)":
                    raise ExtractError("offsets_match: Struct arm frame changed")
                lb = st[2][lm.end() - 1:]
                member_ops = []
                for x in statements(lb[1:matching(lb, 0)]):
                    k = squeeze(x)
                    if k not in OFF_OPS:
                        raise ExtractError(f"offsets_match: member statement {normws(x)!r} is outside the vocabulary")
                    member_ops.append(OFF_OPS[k])
            elif p == "TypeLayer::Array(inner,Some(count))":
                array_ops = []
                for x in statements(res[1:matching(res, 0)]):
                    k = squeeze(x)
                    if k not in ARR_OPS:
                        raise ExtractError(f"offsets_match: array statement {normws(x)!r} is outside the vocabulary")
                    array_ops.append(ARR_OPS[k])
            elif p == "TypeLayer::Modifier(_,ty)":
                if squeeze(res) != "offsets_match(module,ty)":
                    raise ExtractError("offsets_match: Modifier arm changed")
                modifier_inner = True
            elif p == "_":
                if squeeze(res) != "Some(true)":
                    raise ExtractError("offsets_match: default arm changed")
                default_true = True
            else:
                raise ExtractError(f"offsets_match: arm {pats[0]!r} unsupported")
        if member_ops is None or array_ops is None or not default_true:
            raise ExtractError("offsets_match: struct/array/default arm missing")
        out.append("/-- `check_layout` calls `offsets_match` -/\ndef hasOffsetsMatch : Bool := true\n\n")
        out.append(f"/-- initial `(offset_hlsl, offset_metal)` of the Struct arm -/\n"
                   f"def offsetsInit : Nat × Nat := ({init[0]}, {init[1]})\n\n")
        out.append("/-- Struct arm of `offsets_match`: the member loop body -/\n"
                   "def offsetsMemberOps : List OffOp := " + T.lean_list("." + o for o in member_ops) + "\n\n")
        out.append("/-- Array(inner, Some(count)) arm of `offsets_match` -/\n"
                   "def offsetsArrayOps : List OffOp := " + T.lean_list("." + o for o in array_ops) + "\n\n")
        out.append(f"/-- `Modifier(_, ty) => offsets_match(module, ty)`; every other layer is `Some(true)` -/\n"
                   f"def offsetsModifierIsInner : Bool := {'true' if modifier_inner else 'false'}\n")
        return "".join(out)

    def peel_ops(text):
        """the `let ty = module.type_registry.<f>(..);` statements at the head of the global loop -> peel ops"""
        ops = []
        rest = text
        first = True
        while rest:
            if not first and rest.startswith(PEEL_WHILE):
                ops.append(PEEL_WHILE_OP)
                rest = rest[len(PEEL_WHILE):]
                continue
            m = re.match(r"let(?:mut)?ty=module\.type_registry\.([a-z_]+)\(([a-z_.]+)\);", rest)
            if not m or m.group(1) not in PEEL_OPS or m.group(2) != ("global.type_id" if first else "ty"):
                raise ExtractError("check_layout: the statements that peel the global's type changed: " + rest[:80])
            ops.append(PEEL_OPS[m.group(1)])
            rest = rest[m.end():]
            first = False
        if not ops:
            raise ExtractError("check_layout: the global loop no longer derives `ty` from `global.type_id`")
        return ops

    WANT_DEPENDENT = ("matchmodule.type_registry.get_type_layer(ty){TypeLayer::TemplateParam(_)=>true,"
                      "TypeLayer::Vector(inner,_)|TypeLayer::Matrix(inner,_,_)|TypeLayer::Array(inner,_)"
                      "|TypeLayer::Modifier(_,inner)=>is_dependent_type(module,inner),_=>false,}")

    def dependent_skip(text, lc):
        """the optional `if is_dependent_type(module, ty) { continue; }` of the function loop"""
        if text == "":
            return False
        if text != "ifis_dependent_type(module,ty){continue;}":
            raise ExtractError("check_layout: unexpected statement before types_seen.insert(ty): " + text[:80])
        if squeeze(fn_body(lc, "is_dependent_type")) != WANT_DEPENDENT:
            raise ExtractError("is_dependent_type changed")
        return True

    def peel_helpers_pinned(ir_types):
        """the hand-modelled helpers of the type registry the global loop uses"""
        want = {
            "extract_modifier": "matchself.get_type_layer(id){TypeLayer::Modifier(modifier,inner)=>(inner,modifier),"
                                "_=>(id,TypeModifier::default()),}",
            "remove_modifier": "self.extract_modifier(id).0",
            "get_non_array_id": "matchself.get_type_layer(id){TypeLayer::Array(inner,_)=>self.get_non_array_id(inner),_=>id,}",
        }
        for name, text in want.items():
            if squeeze(fn_body(ir_types, name)) != text:
                raise ExtractError(f"TypeRegistry::{name} changed")

    # ------------------------------------------------------------------------------------------
    # LayoutSites: where could a structure be the element type of a buffer access (inventory taken from the
    # type checker's tables, independent of layout_checker.rs), and the shape of check_layout's collection loops
    # ------------------------------------------------------------------------------------------
    @gen("LayoutSites")
    def gen_layout_sites():
        ir_types = T.src("ir/src/ir_types.rs")
        idata = T.src("ir/src/intrinsic_data.rs")
        lc = T.src("ir/src/layout_checker.rs")
        typer_types = T.src("typer/src/typer/types.rs")
        out = [T.header("LayoutSites", ["ir/src/ir_types.rs", "ir/src/intrinsic_data.rs", "typer/src/typer/types.rs",
                                        "ir/src/layout_checker.rs", "ir/src/ir_module.rs", "src/compile.rs"])]

        # ---- ObjectType variants and their payload
        objs = []
        for v, payload in enum_variants(ir_types, "ObjectType"):
            pl = squeeze(payload or "")
            objs.append((v, pl == "(TypeId)"))
        out.append("/-- every `ObjectType` variant; `true` = it carries an element `TypeId` -/\n"
                   "def objectTypes : List (String × Bool) := " +
                   T.lean_list(f"({T.lean_str(v)}, {'true' if e else 'false'})" for v, e in objs) + "\n\n")

        # ---- parse_object_type: which object type names take their element through get_structured_type
        pb = fn_body(typer_types, "parse_object_type")
        structured = re.findall(r'"([A-Za-z0-9]+)"\s*=>\s*Some\(\s*ir::TypeLayer::Object\(\s*ir::ObjectType::([A-Za-z0-9]+)\(\s*'
                                r'get_structured_type\(', pb)
        for name, variant in structured:
            if name != variant:
                raise ExtractError(f"parse_object_type: {name!r} constructs ObjectType::{variant}")
        if not structured:
            raise ExtractError("parse_object_type: table not recognised")
        gs = fn_body(pb, "get_structured_type")
        if "ir::TypeLayer::Struct(_)" not in gs:
            raise ExtractError("get_structured_type no longer admits structs")
        gd = fn_body(pb, "get_data_type")
        if "Struct" in gd:
            raise ExtractError("get_data_type admits structs")
        out.append("/-- object types whose element type may be a structure (`get_structured_type`) -/\n"
                   "def structElementObjects : List String := " +
                   T.lean_list(T.lean_str(n) for n, _ in structured) + "\n\n")

        # ---- method tables: which methods are templated on a type `T`
        gm = fn_body(idata, "get_methods")
        _, arms_text, _ = first_match(gm, None, 0)
        table_of = {}
        for pats, guard, result in match_arms(arms_text):
            if pats == ["_"]:
                continue
            for pat in pats:
                mm = re.fullmatch(r"ObjectType::([A-Za-z0-9]+)(\(_\))?", pat.strip())
                if not mm or not re.fullmatch(r"[A-Z0-9_]+", result.strip()):
                    raise ExtractError(f"get_methods: arm {pat!r} => {result!r}")
                table_of[mm.group(1)] = result.strip()
        typed = []
        n_methods = 0
        for obj, table in table_of.items():
            mt = re.search(r"const\s+" + table + r"\s*:\s*&\[IntrinsicDefinition\]\s*=\s*&\[", idata)
            if not mt:
                raise ExtractError(f"method table {table} not found")
            body = idata[mt.end() - 1: matching(idata, mt.end() - 1) + 1]
            for em in re.finditer(r"f!\s*\{", body):
                j = matching(body, em.end() - 1)
                entry = body[em.end():j]
                sm = re.fullmatch(r"\s*([A-Za-z0-9_]+)\s*\b([A-Za-z0-9_]*)\s*\((.*)\)\s*=>\s*([A-Za-z0-9_]+)\s*(\|.*)?", entry, re.S)
                if not sm:
                    raise ExtractError(f"{table}: entry {normws(entry)!r} not understood")
                n_methods += 1
                ret, name, params, intrinsic = sm.group(1), sm.group(2), sm.group(3), sm.group(4)
                ptypes = [x.strip().split()[-1] for x in params.split(",") if x.strip()]
                if ret == "T" or "T" in ptypes:
                    typed.append((obj, name, intrinsic, len(ptypes)))
        out.append(f"/-- number of object methods in the tables of `get_methods` -/\ndef methodCount : Nat := {n_methods}\n\n")
        out.append("/-- the object methods with the function template argument `T` in their signature:\n"
                   "    (object type, method, intrinsic, number of parameters) -/\n"
                   "def typedMethods : List (String × String × String × Nat) := " +
                   T.lean_list(f"({T.lean_str(o)}, {T.lean_str(n)}, {T.lean_str(i)}, {k})" for o, n, i, k in typed) + "\n\n")

        # ---- the shape of check_layout's two collection loops (everything but the two lists is fixed text)
        cb = squeeze(fn_body(lc, "check_layout"))
        want_head = "letmuttypes_to_check=Vec::new();letmuttypes_seen=HashSet::new();"
        want_globals = ("forglobalin&module.global_registry{"
                        "@PEEL@"
                        "lettyl=module.type_registry.get_type_layer(ty);"
                        "leto=matchtyl{TypeLayer::Object(o)=>o,_=>continue,};"
                        "matcho{@OBJS@=>{iftypes_seen.insert(st){types_to_check.push((st,global.name.location));}}_=>{}}}")
        want_fns = ("foriin0..module.function_registry.get_function_count(){letid=FunctionId(i);"
                    "letintrinsic_data=matchmodule.function_registry.get_intrinsic_data(id){"
                    "Some(intrinsic_data)=>intrinsic_data,None=>continue,};"
                    "if!matches!(intrinsic_data,@INTR@){continue;}"
                    "lettemplate_data=matchmodule.function_registry.get_template_instantiation_data(id){"
                    "Some(template_data)=>template_data,None=>continue,};"
                    "iftemplate_data.template_args.len()!=1{panic!(\"invalid{:?}intrinsic\",intrinsic_data);}"
                    "letty=matchtemplate_data.template_args[0]{TypeOrConstant::Type(ty)=>ty,"
                    "TypeOrConstant::Constant(_)=>panic!(\"invalid{:?}intrinsic\",intrinsic_data),};"
                    "@DEP@"
                    "iftypes_seen.insert(ty){types_to_check.push((ty,module.get_type_location(ty)));}}")
        def pattern(template):
            parts = re.split(r"@[A-Z]+@", template)
            return "(.*?)".join(re.escape(x) for x in parts)
        rx = re.compile("^" + re.escape(want_head) + pattern(want_globals) + pattern(want_fns) +
                        r"for\(ty,loc\)intypes_to_check\{")
        mm = rx.match(cb)
        if not mm:
            raise ExtractError("check_layout: the collection loops changed (globals: remove_modifier, Object test, "
                               "types_seen; functions: intrinsic list, template data, one type argument)")
        peel = peel_ops(mm.group(1))
        if not re.fullmatch(r"ObjectType::[A-Za-z0-9]+\(st\)(\|ObjectType::[A-Za-z0-9]+\(st\))*", mm.group(2)):
            raise ExtractError("check_layout: object patterns changed")
        if not re.fullmatch(r"Intrinsic::[A-Za-z0-9]+(\|Intrinsic::[A-Za-z0-9]+)*", mm.group(3)):
            raise ExtractError("check_layout: intrinsic patterns changed")
        dependent_skip(mm.group(4), lc)
        peel_helpers_pinned(ir_types)
        gloc = fn_body(T.src("ir/src/ir_module.rs"), "get_type_location")
        want_loc = ("letid=self.type_registry.remove_modifier(id);matchself.type_registry.get_type_layer(id){"
                    "TypeLayer::Struct(id)=>{assert!(id.0<self.struct_registry.lenasu32);"
                    "self.struct_registry[id.0asusize].name.location}_=>SourceLocation::UNKNOWN,}")
        if squeeze(gloc).replace("len()", "len") != want_loc:
            raise ExtractError("get_type_location changed")
        out.append("/-- the global loop looks below a `Modifier` layer (`remove_modifier`) before it requires an `Object` layer -/\n"
                   f"def globalLoopStripsModifier : Bool := {'true' if 'removeModifier' in peel else 'false'}\n"
                   "/-- it looks below `Array` layers (`get_non_array_id` since fix d99f90e; a loop that also removes a\n"
                   "    modifier after every array layer since fix bdddd35) -/\n"
                   f"def globalLoopStripsArray : Bool := {'true' if ('nonArray' in peel or PEEL_WHILE_OP in peel) else 'false'}\n"

                   "/-- both loops skip a type id that was collected before (`types_seen`) -/\n"
                   "def dedupByTypeId : Bool := true\n"
                   "/-- the function loop needs template instantiation data with exactly one type argument -/\n"
                   "def fnLoopOneTypeArgument : Bool := true\n"
                   "/-- a typed load / store is located at the struct's definition; other types have no location -/\n"
                   "def fnLocationIsStructDefinition : Bool := true\n")
        # ---- compile(): when is check_layout run
        comp = squeeze(fn_body(T.src("src/compile.rs"), "compile"))
        guard_stmt = ("ifargs.validate_layout_consistency&&letErr(err)=ir::layout_checker::check_layout(&ir)"
                      "{returnErr(CompileError::Text(format!(\"{}\",err.display(&source_manager))));}")
        at = comp.find(guard_stmt)
        if at < 0 or comp.count("check_layout") != 1:
            raise ExtractError("compile(): the layout validation statement changed")
        if not (0 <= comp.find("letir=matchtyper::type_check(&pl)") < at < comp.find("letbinding_params=matchargs.target")):
            raise ExtractError("compile(): layout validation is no longer between type checking and target selection")
        out.append("/-- `compile` runs `check_layout` on the type-checked module iff this flag is set, before anything\n"
                   "    depends on the target or the pipeline mode, and fails with its message -/\n"
                   "def validationGuard : String := \"args.validate_layout_consistency\"\n"
                   "def validationBeforeTargetSelection : Bool := true\n\n")
        # ---- the diagnostics
        pr = squeeze(impl_fn_body(lc, r"CompileError\s+for\s+LayoutError", "print"))
        mu = re.search(r'LayoutError::UnknownLayout\(loc\)=>w\.write_message\(&\|f\|write!\(f,"([^"]*)"\),\*loc,Severity::Error,?\)', pr)
        mm2 = re.search(r'LayoutError::MismatchedLayout\(loc,lhs,rhs\)=>w\.write_message\(&\|f\|\{write!\(f,"([^"]*)",([a-z.,]*?),?\)\},\*loc,Severity::Error,?\)', pr)
        if not mu or not mm2:
            raise ExtractError("LayoutError::print changed")
        src_pr = impl_fn_body(lc, r"CompileError\s+for\s+LayoutError", "print")
        fm = re.findall(r'"((?:[^"\\]|\\.)*)"', src_pr)
        if len(fm) != 2:
            raise ExtractError("LayoutError::print: expected two format strings")
        out.append("/-- the two diagnostics of `LayoutError::print` (format string, arguments) -/\n"
                   f"def unknownMessage : String := {T.lean_str(fm[0])}\n"
                   f"def mismatchMessage : String := {T.lean_str(fm[1])}\n"
                   "def mismatchArgs : List String := " +
                   T.lean_list(T.lean_str(a) for a in mm2.group(2).split(",") if a) + "\n")
        out.append(T.footer("LayoutSites"))
        return "".join(out)


    # ------------------------------------------------------------------------------------------
    # LayoutPurity: the layout functions keep no state between two queries.  Unlike the other two generators this
    # one *describes* what it finds (signatures, mutable locals, tokens of shared / interior-mutable state, the
    # accessors called on the module) instead of refusing unknown text: a cache threaded through the functions, a
    # `static`, a `RefCell` ... still translates, and then `Thm.C19.layout_functions_are_pure` no longer checks.
    # ------------------------------------------------------------------------------------------
    STATE_TOKENS = ["static", "thread_local", "lazy_static", "RefCell", "Cell", "UnsafeCell", "OnceCell", "OnceLock",
                    "LazyLock", "LazyCell", "Mutex", "RwLock", "Atomic", "unsafe", "HashMap", "BTreeMap", "IndexMap",
                    "borrow_mut", "Rc", "Arc", "Box", "transmute", "extern"]

    def fn_items(text):
        """every `fn name(params) -> ret {` item of the (comment-free) source: (name, [(pattern, type)], ret, body)"""
        out = []
        for m in re.finditer(r"\bfn\s+([A-Za-z0-9_]+)\s*(<[^>(]*>)?\s*\(", text):
            i = m.end() - 1
            j = matching(text, i)
            params = []
            for part in split_top(text[i + 1:j], ","):
                part = normws(part).strip()
                if not part:
                    continue
                if ":" in part:
                    pat, ty = part.split(":", 1)
                    params.append((pat.strip(), squeeze(ty)))
                else:
                    params.append((part, ""))      # `&self`, `&mut self`, `self`
            k = j + 1
            while k < len(text) and text[k] not in "{;":
                k += 1
            ret = squeeze(text[j + 1:k])
            if ret.startswith("->"):
                ret = ret[2:]
            body = text[k + 1:matching(text, k)] if k < len(text) and text[k] == "{" else ""
            out.append((m.group(1), params, ret, body, (m.group(2) or "")))
        return out

    @gen("LayoutPurity")
    def gen_layout_purity():
        lc = T.src("ir/src/layout_checker.rs")
        ir_types = T.src("ir/src/ir_types.rs")
        out = [T.header("LayoutPurity", ["ir/src/layout_checker.rs", "ir/src/ir_types.rs"])]
        items = fn_items(lc)
        if not items:
            raise ExtractError("layout_checker.rs: no function found")

        def pairs(ps):
            return T.lean_list(f"({T.lean_str(a)}, {T.lean_str(b)})" for a, b in ps)
        out.append("/-- every function of `layout_checker.rs`: (name, generics, [(parameter pattern, type)], return type) -/\n"
                   "def functions : List (String × String × List (String × String) × String) := " +
                   T.lean_list(f"({T.lean_str(n)}, {T.lean_str(squeeze(g))}, {pairs(ps)}, {T.lean_str(r)})"
                               for n, ps, r, _, g in items) + "\n\n")
        # parameters through which a callee could change something of the caller: `&mut` anywhere in the type, a
        # `mut` pattern is only a local copy and is listed with the mutable locals
        muts = [(n, a) for n, ps, _, _, _ in items for a, b in ps if "&mut" in b or "*mut" in b or "&mut" in a]
        out.append("/-- parameters of a mutable reference / pointer type: (function, parameter) -/\n"
                   "def mutableParameters : List (String × String) := " +
                   T.lean_list(f"({T.lean_str(n)}, {T.lean_str(a)})" for n, a in muts) + "\n\n")
        locs = []
        for n, ps, _, body, _ in items:
            names = [a for a, _ in ps if a.startswith("mut ")]
            names += ["let " + normws(x) for x in re.findall(r"\blet\s+(\(?\s*mut\s+[A-Za-z0-9_]+(?:\s*,\s*mut\s+[A-Za-z0-9_]+)*\s*\)?)", body)]
            # a `mut` binding inside a pattern (`Vector(ty, mut x)`, `Some(mut v)`, closures `|mut a|` ...)
            names += ["pattern " + x for x in re.findall(r"[(,|]\s*(mut\s+[A-Za-z0-9_]+)\s*[,)|]", body)
                      if ("let (" + x) not in " ".join(names)]
            locs.append((n, sorted(set(names))))
        out.append("/-- the mutable bindings of every function (parameters, `let mut`, `mut` inside patterns) -/\n"
                   "def mutableLocals : List (String × List String) := " +
                   T.lean_list(f"({T.lean_str(n)}, {T.lean_list(T.lean_str(x) for x in xs)})" for n, xs in locs) + "\n\n")
        # a closure could capture a mutable local of its function (state without a parameter): where are closures?
        clos = [n for n, _, _, body, _ in items
                if re.search(r"(?:[(,=&{;]|\bmove|\breturn)\s*\|[^|]*\|", body) or re.search(r"(?:[(,=&{;]|\bmove)\s*\|\|", body)]
        out.append("/-- the functions that contain a closure expression -/\n"
                   "def functionsWithClosures : List String := " + T.lean_list(T.lean_str(n) for n in clos) + "\n\n")
        found = [t for t in STATE_TOKENS if re.search(r"\b" + t + (r"[A-Za-z0-9]*" if t == "Atomic" else "") + r"\b", lc)]
        out.append("/-- tokens of shared, global or interior-mutable state (and of containers that could hold a cache) that\n"
                   "    occur anywhere in `layout_checker.rs`; looked for: " + ", ".join(STATE_TOKENS) + " -/\n"
                   "def stateTokens : List String := " + T.lean_list(T.lean_str(t) for t in found) + "\n\n")
        # what the file reads from the module
        acc = set()
        for m in re.finditer(r"\bmodule\s*\.\s*([a-z_]+)(\s*\.\s*([a-z_]+)\s*\(|\s*\[|\s*\()?", lc):
            if m.group(3):
                acc.add(m.group(1) + "." + m.group(3))
            elif m.group(2) and m.group(2).strip() == "[":
                acc.add(m.group(1) + "[]")
            elif m.group(2):
                acc.add(m.group(1) + "()")
            else:
                acc.add(m.group(1))
        out.append("/-- everything `layout_checker.rs` touches of the module: registry fields, accessor calls, indexing -/\n"
                   "def moduleAccesses : List String := " + T.lean_list(T.lean_str(a) for a in sorted(acc)) + "\n\n")
        # macros that could hide state or calls
        macros = sorted(set(re.findall(r"\b([a-z_]+)!\s*[(\[{]", lc)))
        out.append("/-- the macros invoked in `layout_checker.rs` -/\n"
                   "def macros : List String := " + T.lean_list(T.lean_str(a) for a in macros) + "\n\n")
        # the type registry keeps its layers in a RefCell: the accessor the layout functions use only reads it
        gtl = squeeze(impl_fn_body(ir_types, r"TypeRegistry", "get_type_layer"))
        sig = re.search(r"pub\s+fn\s+get_type_layer\s*\(\s*&self\s*,\s*id\s*:\s*TypeId\s*\)\s*->\s*TypeLayer", ir_types)
        out.append("/-- `TypeRegistry::get_type_layer(&self, id)` is `self.layers.borrow()[id.0 as usize]`: a read of the interned layers -/\n"
                   f"def typeLayerIsARead : Bool := {'true' if (gtl == 'self.layers.borrow()[id.0asusize]' and sig) else 'false'}\n")
        out.append(T.footer("LayoutPurity"))
        return "".join(out)

    @gen("LayoutTables")
    def gen_layout_tables():
        ir_types = T.src("ir/src/ir_types.rs")
        lc = T.src("ir/src/layout_checker.rs")
        out = [T.header("LayoutTables", ["ir/src/ir_types.rs", "ir/src/layout_checker.rs"])]

        # ---- ScalarType and get_size
        scalars = [v for v, _ in enum_variants(ir_types, "ScalarType")]
        out.append("inductive Scalar where\n" + "".join(f"  | {s}\n" for s in scalars) +
                   "  deriving DecidableEq, Repr, Inhabited\n\n")
        out.append("def Scalar.all : List Scalar := " + T.lean_list("." + s for s in scalars) + "\n\n")
        gs = impl_fn_body(ir_types, r"ScalarType", "get_size")
        _, arms_text, _ = first_match(gs, r"^self$")
        out.append("/-- `ScalarType::get_size` -/\ndef scalarSize : Scalar → Option Nat\n")
        seen = set()
        for pats, guard, result in match_arms(arms_text):
            if guard is not None:
                raise ExtractError("get_size: guard unsupported")
            mm = re.fullmatch(r"Some\((\d+)\)", result)
            if mm:
                r = f"some {mm.group(1)}"
            elif result == "None":
                r = "none"
            else:
                raise ExtractError(f"get_size result {result!r} unsupported")
            for p in pats:
                km = re.fullmatch(r"ScalarType::([A-Za-z0-9_]+)", p)
                if not km or km.group(1) not in scalars:
                    raise ExtractError(f"get_size pattern {p!r} unsupported")
                seen.add(km.group(1))
                out.append(f"  | .{km.group(1)} => {r}\n")
        if seen != set(scalars):
            raise ExtractError(f"get_size: arms for {sorted(seen)}, variants {scalars}")
        out.append("\n")

        # ---- op vocabulary
        ops = sorted(set(STMT_OPS.values()) | {EMPTY_STRUCT_OP})
        out.append("/-- one `u32` statement of `get_type_layout` (fixed vocabulary of the translator) -/\n"
                   "inductive Op where\n" + "".join(f"  | {o}\n" for o in ops) +
                   "  deriving DecidableEq, Repr, Inhabited\n\n")
        out.append("inductive Mode where | hlsl | metal deriving DecidableEq, Repr, Inhabited\n\n")

        # ---- get_type_layout arms
        body = fn_body(lc, "get_type_layout")
        scrut, arms_text, _ = first_match(body, r"^tyl$")
        arms = match_arms(arms_text)
        layers = [v for v, _ in enum_variants(ir_types, "TypeLayer")]
        # layer behaviours: none | panic | scalar | vector | struct | enum | array | modifier
        kinds = {}
        bool_none = False
        vec_ops = struct_init = member_ops = struct_final = array_ops = None
        for pats, guard, result in arms:
            if guard is not None:
                raise ExtractError("get_type_layout: guard unsupported")
            for p in pats:
                mm = re.fullmatch(r"TypeLayer::([A-Za-z]+)(\(.*\))?", p)
                if not mm or mm.group(1) not in layers:
                    raise ExtractError(f"get_type_layout pattern {p!r} unsupported")
                layer, argp = mm.group(1), (mm.group(2) or "")
                res = result.strip()
                if layer == "Scalar" and "ScalarType::Bool" in argp:
                    if res != "None":
                        raise ExtractError("get_type_layout: Scalar(Bool) arm is not None")
                    bool_none = True
                    continue
                if layer == "Scalar":
                    want = ("match st.get_size() { Some(size) => Some(Layout { size, align: size, }), "
                            "None => panic!(\"unexpected unsized scalar\"), }")
                    if squeeze(res).replace(",}", "}") != squeeze(want).replace(",}", "}"):
                        raise ExtractError(f"get_type_layout: Scalar arm changed: {res[:80]!r}")
                    kinds[layer] = "scalar"
                    continue
                if layer == "Array":
                    key = "ArraySized" if "Some(" in argp else "ArrayUnsized"
                else:
                    key = layer
                if res == "None":
                    kinds[key] = "none"
                elif res.startswith("panic!("):
                    kinds[key] = "panic"
                elif key == "Vector":
                    if squeeze(argp) != "(ty,mutx)":
                        raise ExtractError(f"Vector arm binds {argp!r}")
                    st = statements(res[1:matching(res, 0)])
                    if squeeze(st[0]) != "letmutlayout=get_type_layout(module,ty,mode)?" or squeeze(st[-1]) != "Some(layout)":
                        raise ExtractError("Vector arm: unexpected frame")
                    vec_ops = ops_of(st[1:-1], "Vector arm")
                    kinds[key] = "vector"
                elif key == "Struct":
                    st = statements(res[1:matching(res, 0)])
                    if squeeze(st[0]) != "letdef=&module.struct_registry[sid.0asusize]":
                        raise ExtractError("Struct arm: unexpected first statement")
                    mi = re.fullmatch(r"letmutlayout=Layout\{size:(\d+),align:(\d+),?\}", squeeze(st[1]))
                    if not mi:
                        raise ExtractError("Struct arm: initial layout not a literal")
                    struct_init = (int(mi.group(1)), int(mi.group(2)))
                    loop = st[2]
                    lm = re.match(r"for\s+member\s+in\s+&def\.members\s*\{", loop)
                    if not lm:
                        raise ExtractError("Struct arm: member loop not found")
                    lb = loop[lm.end() - 1:]
                    ls = statements(lb[1:matching(lb, 0)])
                    if squeeze(ls[0]) != "letmember_layout=get_type_layout(module,member.type_id,mode)?":
                        raise ExtractError("Struct arm: member recursion changed")
                    member_ops = ops_of(ls[1:], "Struct member loop")
                    if squeeze(st[-1]) != "Some(layout)":
                        raise ExtractError("Struct arm: does not end in Some(layout)")
                    struct_final = ops_of(st[3:-1], "Struct arm tail")
                    kinds[key] = "struct"
                elif key == "ArraySized":
                    if squeeze(argp) != "(ty,Some(count))":
                        raise ExtractError(f"Array arm binds {argp!r}")
                    st = statements(res[1:matching(res, 0)])
                    if squeeze(st[0]) != "letmutlayout=get_type_layout(module,ty,mode)?" or squeeze(st[-1]) != "Some(layout)":
                        raise ExtractError("Array arm: unexpected frame")
                    array_ops = ops_of(st[1:-1], "Array arm")
                    kinds[key] = "array"
                elif key == "Enum":
                    want = "{letunderlying=module.enum_registry.get_underlying_type_id(enum_id);get_type_layout(module,underlying,mode)}"
                    if squeeze(res) != want:
                        raise ExtractError("Enum arm changed")
                    kinds[key] = "underlying"
                elif key == "Modifier":
                    if squeeze(res) != "get_type_layout(module,ty,mode)":
                        raise ExtractError("Modifier arm changed")
                    kinds[key] = "inner"
                else:
                    raise ExtractError(f"get_type_layout: arm for {key} unsupported: {res[:60]!r}")
        need = set(l for l in layers if l != "Array") | {"ArraySized", "ArrayUnsized"}
        if set(kinds) != need:
            raise ExtractError(f"get_type_layout: arms {sorted(kinds)} vs layers {sorted(need)}")
        if None in (vec_ops, struct_init, member_ops, struct_final, array_ops):
            raise ExtractError("get_type_layout: vector/struct/array arm not found")
        out.append("inductive LayerKind where | none | panic | scalar | vector | struct | underlying | array | inner\n"
                   "  deriving DecidableEq, Repr, Inhabited\n\n")
        out.append("inductive Layer where\n" + "".join(f"  | {k}\n" for k in sorted(kinds)) +
                   "  deriving DecidableEq, Repr, Inhabited\n\n")
        out.append("/-- what the arm of `get_type_layout` for this `TypeLayer` does -/\ndef layerKind : Layer → LayerKind\n" +
                   "".join(f"  | .{k} => .{v}\n" for k, v in sorted(kinds.items())) + "\n")
        out.append(f"/-- `TypeLayer::Scalar(ScalarType::Bool) => None` precedes the scalar arm -/\n"
                   f"def boolHasNoLayout : Bool := {'true' if bool_none else 'false'}\n\n")

        def per_mode(name, doc, per):
            lo = lean_ops(per)
            out.append(f"/-- {doc} -/\ndef {name} : Mode → List Op\n  | .hlsl => {lo['HlslStructuredBuffer']}\n"
                       f"  | .metal => {lo['Metal']}\n\n")
        per_mode("vectorOps", "Vector arm, after the recursive call on the scalar; `x` = component count", vec_ops)
        out.append(f"/-- `Layout {{ size, align }}` the Struct arm starts from -/\n"
                   f"def structInit : Nat × Nat := ({struct_init[0]}, {struct_init[1]})\n\n")
        per_mode("structMemberOps", "Struct arm, per member, after the recursive call on the member type", member_ops)
        per_mode("structFinalOps", "Struct arm, after the member loop", struct_final)
        per_mode("arrayOps", "Array(ty, Some(count)) arm, after the recursive call on the element", array_ops)

        # ---- check_layout
        cb = fn_body(lc, "check_layout")
        objs = []
        m = re.search(r"ObjectType::StructuredBuffer\(st\)", cb)
        _, oarms, _ = first_match(cb, r"^o$")
        for pats, guard, result in match_arms(oarms):
            if pats == ["_"]:
                continue
            for p in pats:
                mm = re.fullmatch(r"ObjectType::([A-Za-z0-9]+)\(st\)", p)
                if not mm:
                    raise ExtractError(f"check_layout: object pattern {p!r}")
                objs.append(mm.group(1))
        mi = re.search(r"!\s*matches!\(\s*intrinsic_data\s*,([^)]*)\)", cb)
        if not mi:
            raise ExtractError("check_layout: intrinsic list not found")
        intr = re.findall(r"Intrinsic::([A-Za-z0-9]+)", mi.group(1))
        cbs = squeeze(cb)
        gm = re.search(r"forglobalin&module\.global_registry\{(.*?)lettyl=module\.type_registry\.get_type_layer\(ty\);", cbs)
        dm = re.search(r"TypeOrConstant::Constant\(_\)=>panic!\(\"invalid\{:\?\}intrinsic\",intrinsic_data\),\};(.*?)"
                       r"iftypes_seen\.insert\(ty\)", cbs)
        if not gm or not dm:
            raise ExtractError("check_layout: collection loops not found")
        peel = peel_ops(gm.group(1))
        skips_dependent = dependent_skip(dm.group(1), lc)
        out.append("/-- one statement of the global loop that peels the global's type before the `Object` test -/\n"
                   "inductive PeelOp where\n" + "".join(f"  | {o}\n" for o in sorted(set(PEEL_OPS.values()) | {PEEL_WHILE_OP})) +
                   "  deriving DecidableEq, Repr, Inhabited\n\n"
                   "/-- `let ty = module.type_registry.<f>(..);` at the head of the global loop, in order -/\n"
                   "def globalPeelOps : List PeelOp := " + T.lean_list("." + o for o in peel) + "\n\n"
                   "/-- the function loop skips a type argument that still depends on a template parameter\n"
                   "    (`if is_dependent_type(module, ty) { continue; }`; since fix c062f2e) -/\n"
                   f"def fnLoopSkipsDependent : Bool := {'true' if skips_dependent else 'false'}\n\n")
        out.append("/-- object kinds whose element type `check_layout` validates -/\n"
                   "def checkedObjects : List String := " + T.lean_list(T.lean_str(o) for o in objs) + "\n\n")
        out.append("/-- intrinsics whose template argument `check_layout` validates -/\n"
                   "def checkedIntrinsics : List String := " + T.lean_list(T.lean_str(o) for o in intr) + "\n\n")
        # final loop
        lm = re.search(r"for\s*\(\s*ty\s*,\s*loc\s*\)\s*in\s+types_to_check\s*\{", cb)
        if not lm:
            raise ExtractError("check_layout: final loop not found")
        lb = cb[lm.end() - 1:]
        ls = statements(lb[1:matching(lb, 0)])
        want_get = {
            "HlslStructuredBuffer": "letmutlayout_hlsl=matchget_type_layout(module,ty,PackingMode::HlslStructuredBuffer){Some(layout)=>layout,None=>returnErr(LayoutError::UnknownLayout(loc)),}",
            "Metal": "letmutlayout_metal=matchget_type_layout(module,ty,PackingMode::Metal){Some(layout)=>layout,None=>returnErr(LayoutError::UnknownLayout(loc)),}",
        }
        if len(ls) < 3 or squeeze(ls[0]) != want_get["HlslStructuredBuffer"] or squeeze(ls[1]) != want_get["Metal"]:
            raise ExtractError("check_layout: the two get_type_layout calls changed")
        top = {"HlslStructuredBuffer": [], "Metal": []}
        want_offsets = ("letoffsets_match=matchoffsets_match(module,ty){Some(same)=>same,"
                        "None=>returnErr(LayoutError::UnknownLayout(loc)),}")
        calls_offsets = False
        for s in ls[2:-1]:
            k = squeeze(s)
            if k == want_offsets:
                # must come after the size adjustments (it is the last statement before the comparison)
                if s is not ls[-2]:
                    raise ExtractError("check_layout: offsets_match is not called right before the comparison")
                calls_offsets = True
                continue
            hit = False
            for mode, var in (("HlslStructuredBuffer", "layout_hlsl"), ("Metal", "layout_metal")):
                k2 = k.replace(var, "layout")
                if var in k and k2 in STMT_OPS:
                    top[mode].append(STMT_OPS[k2])
                    hit = True
            if not hit:
                raise ExtractError(f"check_layout: statement {normws(s)!r} is outside the op vocabulary")
        per_mode("checkTopOps", "`check_layout`: adjustments of the two layouts before they are compared", top)
        last = squeeze(ls[-1])
        cm = re.match(r"if(.*?)\{returnErr\(LayoutError::MismatchedLayout\(loc,layout_hlsl,layout_metal,?\)\);?\}$", last)
        if not cm:
            raise ExtractError("check_layout: comparison statement changed")
        cond = cm.group(1)
        conds = {"layout_hlsl.size!=layout_metal.size": "sizeOnly",
                 "layout_hlsl!=layout_metal": "sizeAndAlign",
                 "layout_hlsl.size!=layout_metal.size||!offsets_match": "sizeAndOffsets"}
        if cond not in conds:
            raise ExtractError(f"check_layout: comparison {cond!r} unsupported")
        if (conds[cond] == "sizeAndOffsets") != calls_offsets:
            raise ExtractError("check_layout: offsets_match call and comparison do not belong together")
        out.append("inductive Compare where | sizeOnly | sizeAndAlign | sizeAndOffsets\n"
                   "  deriving DecidableEq, Repr, Inhabited\n\n")
        out.append(f"/-- what `check_layout` compares -/\ndef checkCompare : Compare := .{conds[cond]}\n\n")
        out.append(offsets_match_tables(lc))
        out.append(T.footer("LayoutTables"))
        return "".join(out)

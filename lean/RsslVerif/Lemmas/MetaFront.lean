import RsslVerif.Model.MetaFront
/-!
Lemmas about the pipeline front end (`parse_pipeline` / `add_stage`) and about reading names out of the name map.
-/
namespace RsslVerif.Lemmas.MetaFront
open RsslVerif.Gen.CompileTables RsslVerif.Model.Meta RsslVerif.Model.MetaFront
open RsslVerif.Model

/-- every index `fnIndices` returns is the position (shifted by the start index) of a registered function with that
    name -/
theorem mem_fnIndices : ∀ (funcs : List FnSrc) (n : String) (off i : Nat), i ∈ fnIndices funcs n off →
    off ≤ i ∧ ∃ f, funcs[i - off]? = some f ∧ f.name = n ∧ f.registered = true := by
  intro funcs
  induction funcs with
  | nil => intro n off i h; simp [fnIndices] at h
  | cons f r ih =>
    intro n off i h
    unfold fnIndices at h
    split at h
    · rename_i hn
      rcases List.mem_cons.1 h with rfl | h'
      · simp only [Bool.and_eq_true, beq_iff_eq] at hn
        exact ⟨Nat.le_refl _, f, by simp, hn.2, hn.1⟩
      · obtain ⟨hle, g, hg, hgn⟩ := ih n (off + 1) i h'
        refine ⟨by omega, g, ?_, hgn⟩
        have : i - off = (i - (off + 1)) + 1 := by omega
        rw [this]; simpa using hg
    · obtain ⟨hle, g, hg, hgn⟩ := ih n (off + 1) i h
      refine ⟨by omega, g, ?_, hgn⟩
      have : i - off = (i - (off + 1)) + 1 := by omega
      rw [this]; simpa using hg

/-- `add_stage` succeeds only for a name that exactly one function of the registry carries; that function has a
    body, is no template, and the recorded thread group size is its last `numthreads` attribute -/
theorem addStage_ok {funcs : List FnSrc} {st : Stage} {n : String} {s : StageRec}
    (h : addStage funcs st n = .ok s) :
    s.stage = st ∧ fnIndices funcs n 0 = [s.entry] ∧
    ∃ f, funcs[s.entry]? = some f ∧ f.name = n ∧ f.isTemplate = false ∧ f.hasBody = true ∧ f.registered = true ∧
      s.threadGroupSize = lastNumThreads f.attrs := by
  unfold addStage at h
  split at h
  · rename_i i hi
    split at h
    · cases h
    · rename_i f hf
      split at h
      · cases h
      · rename_i ht
        split at h
        · cases h
        · rename_i hb
          simp only [Except.ok.injEq] at h
          subst h
          have hm := mem_fnIndices funcs n 0 i (by rw [hi]; exact List.mem_cons_self ..)
          obtain ⟨_, g, hg, hgn, hgr⟩ := hm
          simp only [Nat.sub_zero] at hg
          rw [hf] at hg
          cases hg
          exact ⟨rfl, hi, f, hf, hgn, by simpa using ht, by simpa using hb, hgr, rfl⟩
  · cases h

/-- the stage records come one per stage property, in property order -/
theorem addStages_ok {funcs : List FnSrc} : ∀ {ps : List (Stage × String)} {ss : List StageRec},
    addStages funcs ps = .ok ss →
    ss.map (·.stage) = ps.map (·.1) ∧
    ∀ s ∈ ss, ∃ q ∈ ps, addStage funcs q.1 q.2 = .ok s := by
  intro ps
  induction ps with
  | nil => intro ss h; simp [addStages] at h; subst h; simp
  | cons q r ih =>
    intro ss h
    obtain ⟨st, n⟩ := q
    unfold addStages at h
    split at h
    · cases h
    · rename_i s hs
      split at h
      · cases h
      · rename_i rest hrest
        simp only [Except.ok.injEq] at h
        subst h
        obtain ⟨h1, h2⟩ := ih hrest
        refine ⟨by simp [h1, (addStage_ok hs).1], ?_⟩
        intro x hx
        rcases List.mem_cons.1 hx with rfl | hx'
        · exact ⟨(st, n), List.mem_cons_self .., hs⟩
        · obtain ⟨q', hq', hq''⟩ := h2 x hx'
          exact ⟨q', List.mem_cons_of_mem _ hq', hq''⟩

/-- what a successfully parsed `Pipeline` block records -/
theorem parsePipeline_ok {funcs : List FnSrc} {earlier : List String} {p : PipeSrc} {d : PipeDef}
    (h : parsePipeline funcs earlier p = .ok d) :
    d.name = p.name ∧ p.name ∉ earlier ∧ d.dflt = p.dflt.getD 0 ∧
    d.stages.map (·.stage) = p.stages.map (·.1) ∧ d.stages ≠ [] ∧
    (∀ s ∈ d.stages, ∃ q ∈ p.stages, addStage funcs q.1 q.2 = .ok s) ∧
    (d.graphics = true ↔ (d.stages.head?.map (·.stage)) ≠ some .Compute) := by
  unfold parsePipeline at h
  split at h
  · cases h
  · rename_i hname
    split at h
    · cases h
    · split at h
      · cases h
      · cases h
      · rename_i s rest hst
        obtain ⟨hmap, hall⟩ := addStages_ok hst
        dsimp only at h
        split at h
        · cases h
        · split at h
          · cases h
          · split at h
            · cases h
            · simp only [Except.ok.injEq] at h
              subst h
              refine ⟨rfl, by simpa using hname, rfl, hmap, by simp, hall, ?_⟩
              simp

/-- the pipelines of a file are parsed in order; names are pairwise different -/
theorem parsePipelines_names {funcs : List FnSrc} : ∀ {ps : List PipeSrc} {earlier : List String} {ds : List PipeDef},
    parsePipelines funcs earlier ps = .ok ds →
    ds.map (·.name) = ps.map (·.name) ∧ (earlier ++ ps.map (·.name)).Pairwise (· ≠ ·) ∨
    ¬ earlier.Pairwise (· ≠ ·) := by
  intro ps
  induction ps with
  | nil =>
    intro earlier ds h
    simp [parsePipelines] at h
    subst h
    by_cases he : earlier.Pairwise (· ≠ ·)
    · left; simpa using he
    · right; exact he
  | cons p r ih =>
    intro earlier ds h
    unfold parsePipelines at h
    split at h
    · cases h
    · rename_i d hd
      split at h
      · cases h
      · rename_i rest hrest
        simp only [Except.ok.injEq] at h
        subst h
        obtain ⟨hn, hne, _⟩ := parsePipeline_ok hd
        rcases ih hrest with ⟨h1, h2⟩ | h3
        · left
          refine ⟨by simp [hn, h1], ?_⟩
          simpa [List.append_assoc] using h2
        · by_cases he : earlier.Pairwise (· ≠ ·)
          · exfalso
            apply h3
            rw [List.pairwise_append]
            refine ⟨he, by simp, ?_⟩
            intro a ha b hb
            simp only [List.mem_singleton] at hb
            subst hb
            intro hab
            exact hne (hab ▸ ha)
          · right; exact he

/-! ## a file in source order: functions (attributes given once) and pipelines -/

/-- `parse_function_attributes` accepts a list of `numthreads` attributes only when it adds at most one to the
    ones already accepted, and then returns all of them unchanged -/
theorem parseFunctionAttributes_ok : ∀ {attrs acc out : List (Nat × Nat × Nat)},
    parseFunctionAttributes acc attrs = .ok out → out = acc ++ attrs ∧ (attrs = [] ∨ (acc = [] ∧ attrs.length = 1)) := by
  intro attrs
  induction attrs with
  | nil => intro acc out h; simp [parseFunctionAttributes] at h; subst h; simp
  | cons a r ih =>
    intro acc out h
    unfold parseFunctionAttributes at h
    split at h
    · cases h
    · rename_i hacc
      have hacc' : acc = [] := by cases acc <;> simp_all
      subst hacc'
      obtain ⟨ho, hr⟩ := ih h
      rcases hr with hr | ⟨hr, _⟩
      · subst hr; exact ⟨by simpa using ho, Or.inr ⟨rfl, rfl⟩⟩
      · simp at hr

/-- a function the front end accepts carries at most one `numthreads` attribute -/
theorem parseFunctionAttributes_length {attrs out : List (Nat × Nat × Nat)}
    (h : parseFunctionAttributes [] attrs = .ok out) : out = attrs ∧ attrs.length ≤ 1 := by
  obtain ⟨ho, hr⟩ := parseFunctionAttributes_ok h
  refine ⟨by simpa using ho, ?_⟩
  rcases hr with hr | ⟨_, hr⟩
  · simp [hr]
  · omega

/-- and conversely: at most one attribute is accepted -/
theorem parseFunctionAttributes_of_length {attrs : List (Nat × Nat × Nat)} (h : attrs.length ≤ 1) :
    parseFunctionAttributes [] attrs = .ok attrs := by
  match attrs, h with
  | [], _ => rfl
  | [a], _ => rfl
  | _ :: _ :: _, h => simp at h

/-- what `regAt` shows of function `i`: name, attributes and template flag of the table; an implementation iff the
    table has one or the function is among the defined ones; registered iff the table says so or it is declared / defined -/
theorem regAt_getElem? {funcs : List FnSrc} {dc df : List Nat} {i : Nat} {g : FnSrc}
    (h : (regAt funcs dc df)[i]? = some g) :
    ∃ f, funcs[i]? = some f ∧ g.name = f.name ∧ g.attrs = f.attrs ∧ g.isTemplate = f.isTemplate ∧
      g.hasBody = (f.hasBody || df.contains i) ∧ g.registered = (f.registered || dc.contains i || df.contains i) := by
  unfold regAt at h
  rw [List.getElem?_mapIdx] at h
  cases hf : funcs[i]? with
  | none => simp [hf] at h
  | some f =>
    simp only [hf, Option.map_some, Option.some.injEq] at h
    subst h
    exact ⟨f, rfl, rfl, rfl, rfl, rfl, rfl⟩

theorem regAt_length (funcs : List FnSrc) (dc df : List Nat) : (regAt funcs dc df).length = funcs.length := by
  simp [regAt]

/-- an accepted file: every function it *defines* carries at most one `numthreads` attribute, and each of its pipeline
    definitions is a `Pipeline` block of the file, parsed against the registry of that moment — in which the functions
    with an implementation are those defined before the file position (`df`) or by an item of the file -/
theorem parseFile_ok {funcs : List FnSrc} : ∀ {items : List Item} {dc df : List Nat} {earlier : List String}
    {ds : List PipeDef}, parseFile funcs dc df earlier items = .ok ds →
    (∀ i ∈ itemDefs items, ∀ f, funcs[i]? = some f → f.attrs.length ≤ 1) ∧
    ∀ d ∈ ds, ∃ p ∈ itemPipes items, ∃ dc' df' e, parsePipeline (regAt funcs dc' df') e p = .ok d ∧
      ∀ i ∈ df', i ∈ df ∨ i ∈ itemDefs items := by
  intro items
  induction items with
  | nil => intro dc df earlier ds h; simp [parseFile] at h; subst h; simp [itemDefs]
  | cons it r ih =>
    intro dc df earlier ds h
    cases it with
    | decl i =>
      unfold parseFile at h
      obtain ⟨h1, h2⟩ := ih h
      exact ⟨by simpa [itemDefs] using h1, by simpa [itemPipes, itemDefs] using h2⟩
    | defn i =>
      unfold parseFile at h
      split at h
      · obtain ⟨h1, h2⟩ := ih h
        rename_i hnone
        refine ⟨?_, ?_⟩
        · intro k hk f hf
          simp only [itemDefs, List.mem_cons] at hk
          rcases hk with rfl | hk
          · rw [hnone] at hf; cases hf
          · exact h1 k hk f hf
        · intro d hd
          obtain ⟨p, hp, dc', df', e, hpe, hdf⟩ := h2 d hd
          refine ⟨p, by simpa [itemPipes] using hp, dc', df', e, hpe, ?_⟩
          intro k hk
          rcases hdf k hk with hk' | hk'
          · exact Or.inl hk'
          · exact Or.inr (by simp [itemDefs, hk'])
      · rename_i f hf
        split at h
        · cases h
        · rename_i out hout
          obtain ⟨h1, h2⟩ := ih h
          refine ⟨?_, ?_⟩
          · intro k hk g hg
            simp only [itemDefs, List.mem_cons] at hk
            rcases hk with rfl | hk
            · rw [hf] at hg; cases hg
              exact (parseFunctionAttributes_length hout).2
            · exact h1 k hk g hg
          · intro d hd
            obtain ⟨p, hp, dc', df', e, hpe, hdf⟩ := h2 d hd
            refine ⟨p, by simpa [itemPipes] using hp, dc', df', e, hpe, ?_⟩
            intro k hk
            rcases hdf k hk with hk' | hk'
            · rcases List.mem_cons.1 hk' with rfl | hk''
              · exact Or.inr (by simp [itemDefs])
              · exact Or.inl hk''
            · exact Or.inr (by simp [itemDefs, hk'])
    | pipe p =>
      unfold parseFile at h
      split at h
      · cases h
      · rename_i d0 hd0
        split at h
        · cases h
        · rename_i rest hrest
          simp only [Except.ok.injEq] at h
          subst h
          obtain ⟨h1, h2⟩ := ih hrest
          refine ⟨by simpa [itemDefs] using h1, ?_⟩
          intro d hd
          rcases List.mem_cons.1 hd with rfl | hd'
          · exact ⟨p, by simp [itemPipes], dc, df, earlier, hd0, fun k hk => Or.inl hk⟩
          · obtain ⟨q, hq, dc', df', e, hqe, hdf⟩ := h2 d hd'
            exact ⟨q, by simp [itemPipes, hq], dc', df', e, hqe, by simpa [itemDefs] using hdf⟩

/-- the pipeline definitions of an accepted file are its blocks in order; names are pairwise different -/
theorem parseFile_names {funcs : List FnSrc} : ∀ {items : List Item} {dc df : List Nat} {earlier : List String}
    {ds : List PipeDef}, parseFile funcs dc df earlier items = .ok ds →
    ds.map (·.name) = (itemPipes items).map (·.name) ∧
      (earlier ++ (itemPipes items).map (·.name)).Pairwise (· ≠ ·) ∨
    ¬ earlier.Pairwise (· ≠ ·) := by
  intro items
  induction items with
  | nil =>
    intro dc df earlier ds h
    simp [parseFile] at h
    subst h
    by_cases he : earlier.Pairwise (· ≠ ·)
    · left; simpa [itemPipes] using he
    · right; exact he
  | cons it r ih =>
    intro dc df earlier ds h
    cases it with
    | decl i =>
      unfold parseFile at h
      simpa [itemPipes] using ih h
    | defn i =>
      unfold parseFile at h
      split at h
      · simpa [itemPipes] using ih h
      · split at h
        · cases h
        · simpa [itemPipes] using ih h
    | pipe p =>
      unfold parseFile at h
      split at h
      · cases h
      · rename_i d hd
        split at h
        · cases h
        · rename_i rest hrest
          simp only [Except.ok.injEq] at h
          subst h
          obtain ⟨hn, hne, _⟩ := parsePipeline_ok hd
          rcases ih hrest with ⟨h1, h2⟩ | h3
          · left
            refine ⟨by simp [itemPipes, hn, h1], ?_⟩
            simpa [itemPipes, List.append_assoc] using h2
          · by_cases he : earlier.Pairwise (· ≠ ·)
            · exfalso
              apply h3
              rw [List.pairwise_append]
              refine ⟨he, by simp, ?_⟩
              intro a ha b hb
              simp only [List.mem_singleton] at hb
              subst hb
              intro hab
              exact hne (hab ▸ ha)
            · right; exact he

/-- **the first error in file order wins**: when a prefix of the file is refused, the file is refused with that error,
    whatever follows -/
theorem parseFile_prefix_error {funcs : List FnSrc} {e : FrontErr} : ∀ {pre : List Item} (post : List Item)
    {dc df : List Nat} {earlier : List String}, parseFile funcs dc df earlier pre = .error e →
    parseFile funcs dc df earlier (pre ++ post) = .error e := by
  intro pre
  induction pre with
  | nil => intro post dc df earlier h; simp [parseFile] at h
  | cons it r ih =>
    intro post dc df earlier h
    cases it with
    | decl i =>
      unfold parseFile at h
      simp only [List.cons_append]
      unfold parseFile
      exact ih post h
    | defn i =>
      unfold parseFile at h
      simp only [List.cons_append]
      unfold parseFile
      split at h
      · rename_i hnone
        exact ih post h
      · rename_i f hf
        split at h
        · rename_i e' he'
          exact h
        · rename_i out hout
          exact ih post h
    | pipe p =>
      unfold parseFile at h
      simp only [List.cons_append]
      unfold parseFile
      split at h
      · rename_i e' he'
        exact h
      · rename_i d hd
        split at h
        · rename_i e' he'
          simp only [Except.error.injEq] at h
          subst h
          rw [ih post he']
        · cases h

/-- every pipeline definition of an accepted file comes from one of its blocks, parsed against the names before it -/
theorem parsePipelines_mem {funcs : List FnSrc} : ∀ {ps : List PipeSrc} {earlier : List String} {ds : List PipeDef},
    parsePipelines funcs earlier ps = .ok ds →
    ∀ d ∈ ds, ∃ p ∈ ps, ∃ e, parsePipeline funcs e p = .ok d := by
  intro ps
  induction ps with
  | nil => intro earlier ds h d hd; simp [parsePipelines] at h; subst h; cases hd
  | cons p r ih =>
    intro earlier ds h d hd
    unfold parsePipelines at h
    split at h
    · cases h
    · rename_i d0 hd0
      split at h
      · cases h
      · rename_i rest hrest
        simp only [Except.ok.injEq] at h
        subst h
        rcases List.mem_cons.1 hd with rfl | hd'
        · exact ⟨p, List.mem_cons_self .., earlier, hd0⟩
        · obtain ⟨q, hq, e, he⟩ := ih hrest d hd'
          exact ⟨q, List.mem_cons_of_mem _ hq, e, he⟩

/-- with at most one attribute the last one is the only one -/
theorem lastNumThreads_of_length {attrs : List (Nat × Nat × Nat)} (h : attrs.length ≤ 1) :
    attrs = (lastNumThreads attrs).toList := by
  match attrs, h with
  | [], _ => rfl
  | [a], _ => rfl
  | _ :: _ :: _, h => simp at h

/-! ## reading the name map -/

theorem lookup_mem {names : List Names.Named} {s : Names.Sym} {a : Names.Named}
    (h : Names.lookup names s = some a) : a ∈ names ∧ a.sym = s := by
  unfold Names.lookup at h
  exact ⟨List.mem_of_find?_eq_some h, by simpa using List.find?_some h⟩

theorem leaf_ok {names : List Names.Named} {k : Names.Kind} {i : Nat} {n : String}
    (h : leaf names k i = .ok n) : ∃ a, Names.lookup names ⟨k, i⟩ = some a ∧ a.name = n := by
  unfold leaf at h
  split at h
  · rename_i a ha
    simp only [Except.ok.injEq] at h
    exact ⟨a, ha, h⟩
  · cases h

end RsslVerif.Lemmas.MetaFront

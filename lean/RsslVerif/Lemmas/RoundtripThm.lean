import RsslVerif.Lemmas.RoundtripCases
/-! Round trip: the induction over the tree. -/
set_option linter.unusedSimpArgs false
set_option linter.unusedVariables false
namespace RsslVerif.Lemmas.Roundtrip
open RsslVerif.Gen.FmtTables RsslVerif.Gen.ParseTables RsslVerif.Model.Format RsslVerif.Model.Parse
open RsslVerif.Lemmas.FmtParseTables

/-- a sub-expression read at level `k` in front of a `rest` that level `k` leaves alone comes back as itself -/
theorem rts_self {e : Expr} (hrt : RT e) (outer : Nat) (side : Side) (k : Nat) (term : Terminator) (rest : List Tok)
    (hterm : term ≠ .TypeList) (hk : k ≤ 15)
    (hpos : needParen e.prec outer side = false → e.lvl ≤ k ∧ TermFits e term)
    (hno : NoLow k term rest) (hin : k ≠ 0 → Inert k term rest) :
    Parses k term (toks (fmtSub e outer side) ++ rest) (e, rest) := by
  apply rts hrt outer side k term rest (e, rest) hterm hk hpos hno
  apply fin_self _ _ _ _ _ _ hin
  cases hp : needParen e.prec outer side with
  | true => simp
  | false => simpa using (hpos hp).1

theorem fin_of_conts (e : Expr) (lv k : Nat) (term : Terminator) (rest : List Tok) (out : Expr × List Tok)
    (hl : ¬ NonLoop k) (hc : Conts k term e rest out) : Fin e lv k term rest out := by
  unfold Fin
  rw [if_neg (fun h => hl h.2)]
  exact hc

theorem toks_bin (op : BinOp) (l r : Expr) :
    toks (fmtBody (.bin op l r)) =
      toks (fmtSub l (binPrec op) binLeftSide) ++ (binToks op ++ toks (fmtSub r (binPrec op) binRightSide)) := by
  simp only [fmtBody, fmtSub, needParen_top_bin, wrap_false, toks_append, toks_binPieces, toks_cons_sp]
  split <;> simp

theorem binLevel_ne13 (op : BinOp) : binLevel op ≠ 13 := by cases op <;> decide

theorem operandStart_fmt (e : Expr) (hwf : WF e) (outer : Nat) (side : Side) (rest : List Tok) :
    OperandStart (toks (fmtSub e outer side) ++ rest) := by
  obtain ⟨t, ts', h1, h2, _⟩ := head_fmt e hwf outer side
  rw [h1]; exact h2.1

/-- the invariant of a non-empty argument list: after `(`, `parseArgs1` reads the printed list up to `)` -/
def A1 : Args → Prop
  | .nil => True
  | .cons e r => ∀ rest, ∃ N, ∀ f, N ≤ f →
      parseArgs1 f (toks (fmtArgs (.cons e r)) ++ .p .RightParen :: rest) = some (.cons e r, rest)

mutual
theorem rt : (e : Expr) → WF e → RT e
  | .lit n, hwf => by
    intro k term rest out hterm hle hk htf hno hfin
    have htoks : toks (fmtBody (.lit n)) = [.lit n] := by
      simp only [fmtBody, fmtSub]
      rw [needParen_top_lit, wrap_false, litOk_toks n hwf]
    rw [htoks]
    have hl0 : (Expr.lit n).lvl = 0 := by simp [Expr.lvl, litOk_not_negative n hwf]
    rw [hl0] at hle hfin
    have hp : Parses 0 term ([.lit n] ++ rest) (.lit n, rest) :=
      ⟨1, fun f hf => by obtain ⟨f', rfl, _⟩ := succ_of_pos hf; simp [parseLvl]⟩
    exact finish_nonloop hp (Or.inl rfl) (Nat.zero_le _) (fun _ => by simp [NoPrefix, prefixOp]) hno hfin
  | .id n, hwf => by
    intro k term rest out hterm hle hk htf hno hfin
    have htoks : toks (fmtBody (.id n)) = [.id n] := by
      simp only [fmtBody, fmtSub]
      rw [show needParen precIdentifier topPrec topSide = false by decide, wrap_false]; rfl
    rw [htoks]
    have hp : Parses 0 term ([.id n] ++ rest) (.id n, rest) :=
      ⟨1, fun f hf => by obtain ⟨f', rfl, _⟩ := succ_of_pos hf; simp [parseLvl]⟩
    exact finish_nonloop hp (Or.inl rfl) (Nat.zero_le _) (fun _ => by simp [NoPrefix, prefixOp]) hno hfin
  | .un op x, hwf => by
    intro k term rest out hterm hle hk htf hno hfin
    have ihx := rt x hwf
    cases hpost : isPostfix op with
    | false =>
      have hlvl : (Expr.un op x).lvl = 2 := by simp [Expr.lvl, hpost]
      rw [hlvl] at hle hfin
      have htoks : toks (fmtBody (.un op x)) = unTok op :: toks (fmtSub x (unPrec op) prefixOperandSide) := by
        simp only [fmtBody, fmtSub, needParen_top_un, wrap_false, hpost, if_false, Bool.false_eq_true, toks_un_prefix]
      rw [htoks]
      have hx : Parses 2 term (toks (fmtSub x (unPrec op) prefixOperandSide) ++ rest) (x, rest) :=
        rts_self ihx _ _ 2 term rest hterm (by omega)
          (fun hp => ⟨pos_prefix op x hpost hp, fun h => by have := pos_prefix op x hpost hp; omega⟩)
          (hno.mono hle) (fun _ => inert2 term rest)
      have hp : Parses 2 term (unTok op :: toks (fmtSub x (unPrec op) prefixOperandSide) ++ rest) (.un op x, rest) := by
        obtain ⟨N, h⟩ := hx
        refine ⟨N + 1, fun f hf => ?_⟩
        obtain ⟨f', rfl, hf'⟩ := succ_of_pos hf
        have hpre : prefixOp (unTok op) = some op := by cases op <;> simp [isPostfix] at hpost <;> rfl
        unfold parseLvl
        simp [hpre, h f' hf']
      exact finish_nonloop hp (Or.inr (Or.inl rfl)) hle (fun h => by omega) hno hfin
    | true =>
      have hlvl : (Expr.un op x).lvl = 1 := by simp [Expr.lvl, hpost]
      rw [hlvl] at hle hfin
      have htoks : toks (fmtBody (.un op x)) = toks (fmtSub x (unPrec op) postfixOperandSide) ++ [unTok op] := by
        simp only [fmtBody, fmtSub, needParen_top_un, wrap_false, hpost, if_true, toks_append]
        simp [unPiece]
      rw [htoks]
      simp only [List.append_assoc, List.singleton_append]
      refine finish_loop (lv := 1) ?_ (by decide) hle ?_ hno hfin
      · intro out' hc
        apply rts ihx _ _ 1 term (unTok op :: rest) out' hterm (by omega)
        · exact fun hp => ⟨pos_postfix op x hpost hp, fun h => by have := pos_postfix op x hpost hp; omega⟩
        · exact fun i h1 h2 => by omega
        · apply fin_of_conts _ _ _ _ _ _ (by decide)
          · obtain ⟨N, h⟩ := hc
            refine ⟨N + 1, fun f hf => ?_⟩
            obtain ⟨f', rfl, hf'⟩ := succ_of_pos hf
            unfold cont
            cases op <;> simp [isPostfix] at hpost <;> simp [unTok, h f' hf']
      · intro _
        obtain ⟨t, ts', h1, h2, h3⟩ := head_fmt x hwf (unPrec op) postfixOperandSide
        rw [h1]
        simp only [List.cons_append, NoPrefix]
        apply h3
        cases hpx : needParen x.prec (unPrec op) postfixOperandSide with
        | true => exact Or.inl rfl
        | false => exact Or.inr (pos_postfix op x hpost hpx)
  | .bin op l r, hwf => by
    intro k term rest out hterm hle hk htf hno hfin
    have ihl := rt l hwf.1
    have ihr := rt r hwf.2
    have hlvl : (Expr.bin op l r).lvl = binLevel op := rfl
    rw [hlvl] at hle hfin
    have hp3 := binLevel_ge op
    have hp15 := binLevel_le op
    have hp13 := binLevel_ne13 op
    rw [toks_bin]
    simp only [List.append_assoc]
    have hOS : OperandStart (toks (fmtSub r (binPrec op) binRightSide) ++ rest) := operandStart_fmt r hwf.2 _ _ rest
    have hTermOk : TermOk op term :=
      ⟨fun hseq => htf (by subst hseq; rfl), fun _ => hterm⟩
    by_cases h14 : binLevel op = 14
    · -- assignment: p13 op p14
      have hI14 : Inert 14 term rest := by
        by_cases hk14 : k = 14
        · subst hk14
          have : Fin (.bin op l r) (binLevel op) 14 term rest out := hfin
          rw [h14] at this
          simp only [Fin, NonLoop] at this
          simp at this
          exact this.2
        · exact hno 14 (by omega) (by omega)
      have hR : Parses 14 term (toks (fmtSub r (binPrec op) binRightSide) ++ rest) (r, rest) :=
        rts_self ihr _ _ 14 term rest hterm (by omega)
          (fun hp => ⟨(pos_binR op r hp).2 h14, fun h => by have := (pos_binR op r hp).2 h14; omega⟩)
          (hno.mono (by omega)) (fun _ => hI14)
      have hL : Parses 13 term (toks (fmtSub l (binPrec op) binLeftSide) ++
          (binToks op ++ (toks (fmtSub r (binPrec op) binRightSide) ++ rest)))
          (l, binToks op ++ (toks (fmtSub r (binPrec op) binRightSide) ++ rest)) :=
        rts_self ihl _ _ 13 term _ hterm (by omega)
          (fun hp => ⟨by have := (pos_binL op l hp).2 h14; omega, fun h => by have := (pos_binL op l hp).2 h14; omega⟩)
          (fun i h1 h2 => inert_binToks op i term _ hOS (by omega))
          (fun _ => inert_binToks op 13 term _ hOS (by omega))
      have hC : Conts 14 term l (binToks op ++ (toks (fmtSub r (binPrec op) binRightSide) ++ rest)) (.bin op l r, rest) := by
        obtain ⟨N, h⟩ := hR
        refine ⟨N + 1, fun f hf => ?_⟩
        obtain ⟨f', rfl, hf'⟩ := succ_of_pos hf
        have hown := parseOpAt_own op term _ hOS hTermOk
        rw [h14] at hown
        unfold cont
        simp [hown, h f' hf']
      have hp14 : Parses 14 term _ (.bin op l r, rest) := lift hL hC (by omega)
      rw [h14] at hle hfin
      exact finish_nonloop hp14 (Or.inr (Or.inr (Or.inr rfl))) hle (fun h => by omega) hno hfin
    · -- left-associative loop
      have hnoP : NoLow (binLevel op) term rest := hno.mono hle
      refine finish_loop (lv := binLevel op) ?_ (by simp only [NonLoop]; omega) hle (fun h => by omega) hno hfin
      intro out' hc
      have hR : Parses (binLevel op - 1) term (toks (fmtSub r (binPrec op) binRightSide) ++ rest) (r, rest) :=
        rts_self ihr _ _ (binLevel op - 1) term rest hterm (by omega)
          (fun hp => ⟨(pos_binR op r hp).1 h14, fun h => by have := (pos_binR op r hp).1 h14; omega⟩)
          (hnoP.mono (by omega)) (fun _ => hnoP (binLevel op - 1) (by omega) (by omega))
      have hstep : Conts (binLevel op) term l (binToks op ++ (toks (fmtSub r (binPrec op) binRightSide) ++ rest)) out' := by
        obtain ⟨N1, h1⟩ := hR
        obtain ⟨N2, h2⟩ := hc
        refine ⟨max N1 N2 + 1, fun f hf => ?_⟩
        obtain ⟨f', rfl, hf'⟩ := succ_of_pos hf
        have hown := parseOpAt_own op term _ hOS hTermOk
        unfold cont
        have e1 : binLevel op ≠ 1 := by omega
        have e2 : binLevel op ≠ 2 := by omega
        simp only [e1, e2, hp13, h14, if_false, hown, h1 f' (by omega), h2 f' (by omega)]
      apply rts ihl _ _ (binLevel op) term _ out' hterm hp15
      · intro hp
        have := (pos_binL op l hp).1 h14
        exact ⟨this.1, fun h15 => htf (by rw [hlvl]; exact this.2 h15)⟩
      · exact fun i h1 h2 => inert_binToks op i term _ hOS h2
      · exact fin_of_conts _ _ _ _ _ _ (by simp only [NonLoop]; omega) hstep
  | .mem o n, hwf => by
    intro k term rest out hterm hle hk htf hno hfin
    have iho := rt o hwf
    have hlvl : (Expr.mem o n).lvl = 1 := rfl
    rw [hlvl] at hle hfin
    have hNP : NoPrefix (toks (fmtBody (.mem o n)) ++ rest) := by
      obtain ⟨t, ts', h1, h2, h3⟩ := head_fmt (.mem o n) hwf topPrec topSide
      have h1' : toks (fmtBody (.mem o n)) = t :: ts' := h1
      rw [h1']
      simp only [List.cons_append, NoPrefix]
      exact h3 (Or.inr (by simp [Expr.lvl]))
    have htoks : toks (fmtBody (.mem o n)) =
        toks (wrap (memObjParen o) (fmtSub o precMember memObjectSide)) ++ [.p .Period, .id n] := by
      simp only [fmtBody, fmtSub]
      rw [show needParen precMember topPrec topSide = false by decide, wrap_false]
      simp [pp]
    rw [htoks] at hNP ⊢
    simp only [List.append_assoc, List.cons_append, List.nil_append] at hNP ⊢
    refine finish_loop (lv := 1) ?_ (by decide) hle (fun _ => hNP) hno hfin
    intro out' hc
    have hfin' : ∀ lv, Fin o lv 1 term (.p .Period :: .id n :: rest) out' := by
      intro lv
      apply fin_of_conts _ _ _ _ _ _ (by decide)
      obtain ⟨N, h⟩ := hc
      refine ⟨N + 1, fun f hf => ?_⟩
      obtain ⟨f', rfl, hf'⟩ := succ_of_pos hf
      unfold cont
      simp [h f' hf']
    cases hmp : memObjParen o with
    | false =>
      rw [wrap_false]
      apply rts iho _ _ 1 term (.p .Period :: .id n :: rest) out' hterm (by omega)
      · exact fun hp => ⟨pos_postfixLike o _ (Or.inl rfl) hp, fun h => by have := pos_postfixLike o _ (Or.inl rfl) hp; omega⟩
      · exact fun i h1 h2 => by omega
      · exact hfin' _
    | true =>
      -- `(1).m`: the object is an integer literal, printed in parentheses of its own
      have hnp : needParen o.prec precMember memObjectSide = false := by
        cases o with
        | lit l =>
          have : LitOk l = true := hwf
          simp only [Expr.prec, litPrec_of_ok l this]; decide
        | _ => simp [memObjParen] at hmp
      rw [toks_wrap_true, fmtSub_eq, hnp, wrap_false]
      have h0 := parses_paren iho term (.p .Period :: .id n :: rest)
      simp only [List.cons_append, List.append_assoc, List.nil_append] at h0 ⊢
      exact finish_nonloop h0 (Or.inl rfl) (Nat.zero_le _) (fun _ => by simp [NoPrefix, prefixOp])
        (fun i h1 h2 => by omega) (hfin' 0)
  | .sub o i, hwf => by
    intro k term rest out hterm hle hk htf hno hfin
    have iho := rt o hwf.1
    have ihi := rt i hwf.2
    have hlvl : (Expr.sub o i).lvl = 1 := rfl
    rw [hlvl] at hle hfin
    have htoks : toks (fmtBody (.sub o i)) = toks (fmtSub o precArraySubscript subObjectSide) ++
        (.p .LeftSquareBracket :: (toks (fmtSub i precArraySubscript subIndexSide) ++ [.p .RightSquareBracket])) := by
      simp only [fmtBody, fmtSub]
      rw [show needParen precArraySubscript topPrec topSide = false by decide, wrap_false]
      simp [pp]
    rw [htoks]
    simp only [List.append_assoc, List.cons_append, List.nil_append]
    have hI : Parses 15 .Sequence (toks (fmtSub i precArraySubscript subIndexSide) ++ (.p .RightSquareBracket :: rest))
        (i, .p .RightSquareBracket :: rest) :=
      rts_self ihi _ _ 15 .Sequence _ (by decide) (Nat.le_refl _)
        (fun hp => ⟨by have := pos_postfixLike i _ (Or.inr rfl) hp; omega,
                    fun h => by have := pos_postfixLike i _ (Or.inr rfl) hp; omega⟩)
        (noLow_closes 15 _ _ _ (Or.inr (Or.inl rfl))) (fun _ => inert_closes 15 _ _ _ (Or.inr (Or.inl rfl)))
    refine finish_loop (lv := 1) ?_ (by decide) hle ?_ hno hfin
    · intro out' hc
      apply rts iho _ _ 1 term _ out' hterm (by omega)
      · exact fun hp => ⟨pos_postfixLike o _ (Or.inl rfl) hp, fun h => by have := pos_postfixLike o _ (Or.inl rfl) hp; omega⟩
      · exact fun i h1 h2 => by omega
      · apply fin_of_conts _ _ _ _ _ _ (by decide)
        obtain ⟨N1, h1⟩ := hI
        obtain ⟨N2, h2⟩ := hc
        refine ⟨max N1 N2 + 1, fun f hf => ?_⟩
        obtain ⟨f', rfl, hf'⟩ := succ_of_pos hf
        unfold cont
        simp [subscriptTerminator, h1 f' (by omega), h2 f' (by omega)]
    · intro _
      obtain ⟨t, ts', h1, h2, h3⟩ := head_fmt o hwf.1 precArraySubscript subObjectSide
      rw [h1]
      simp only [List.cons_append, NoPrefix]
      apply h3
      cases hpx : needParen o.prec precArraySubscript subObjectSide with
      | true => exact Or.inl rfl
      | false => exact Or.inr (pos_postfixLike o _ (Or.inl rfl) hpx)
  | .tern c a b, hwf => by
    intro k term rest out hterm hle hk htf hno hfin
    obtain ⟨wc, wa, wb⟩ := hwf
    have ihc := rt c wc
    have iha := rt a wa
    have ihb := rt b wb
    have hlvl : (Expr.tern c a b).lvl = 13 := rfl
    rw [hlvl] at hle hfin
    have hI13 : Inert 13 term rest := by
      by_cases hk13 : k = 13
      · subst hk13
        simp only [Fin, NonLoop] at hfin
        simp at hfin
        exact hfin.2
      · exact hno 13 (by omega) (by omega)
    have hno13 : NoLow 13 term rest := hno.mono hle
    -- tokens
    have htoks : toks (fmtBody (.tern c a b)) = toks (fmtSub c precTernaryConditional ternCondSide) ++
        (.p .QuestionMark :: (toks (fmtSub a precTernaryConditional ternTrueSide) ++
          (.p .Colon :: toks (wrap (falseIsAssignment b) (fmtSub b precTernaryConditional ternFalseSide))))) := by
      simp only [fmtBody, fmtSub]
      rw [show needParen precTernaryConditional topPrec topSide = false by decide, wrap_false]
      simp [pp]
    rw [htoks]
    simp only [List.append_assoc, List.cons_append]
    -- last operand
    have hB : Parses 13 term (toks (wrap (falseIsAssignment b) (fmtSub b precTernaryConditional ternFalseSide)) ++ rest) (b, rest) := by
      cases hfa : falseIsAssignment b with
      | true =>
        obtain ⟨hnp, _⟩ := falseIsAssignment_spec b hfa
        rw [toks_wrap_true, fmtSub_eq, hnp, wrap_false]
        have h0 := parses_paren ihb term rest
        simp only [List.cons_append, List.append_assoc, List.nil_append] at h0 ⊢
        exact finish_nonloop h0 (Or.inl rfl) (Nat.zero_le _) (fun _ => by simp [NoPrefix, prefixOp]) hno13
          (fin_self b 0 13 term rest (by omega) (fun _ => hI13))
      | false =>
        rw [wrap_false]
        exact rts_self ihb _ _ 13 term rest hterm (by omega)
          (fun hp => by
            have := pos_ternB b hp
            refine ⟨?_, fun h => by omega⟩
            rcases Nat.lt_or_ge b.lvl 14 with h | h
            · omega
            · have h14 : b.lvl = 14 := by omega
              have := this.2 h14
              rw [hfa] at this
              cases this)
          hno13 (fun _ => hI13)
    -- middle operand: read at the assignment level (delimited by `?` and `:`)
    have hA : Parses 14 term (toks (fmtSub a precTernaryConditional ternTrueSide) ++
        (.p .Colon :: (toks (wrap (falseIsAssignment b) (fmtSub b precTernaryConditional ternFalseSide)) ++ rest)))
        (a, .p .Colon :: (toks (wrap (falseIsAssignment b) (fmtSub b precTernaryConditional ternFalseSide)) ++ rest)) :=
      rts_self iha _ _ 14 term _ hterm (by omega)
        (fun hp => ⟨pos_ternA a hp, fun h => by have := pos_ternA a hp; omega⟩)
        (noLow_closes 14 term _ _ (Or.inr (Or.inr (Or.inl rfl))))
        (fun _ => inert_closes 14 term _ _ (Or.inr (Or.inr (Or.inl rfl))))
    -- condition
    have hC : Parses 12 term (toks (fmtSub c precTernaryConditional ternCondSide) ++
        (.p .QuestionMark :: (toks (fmtSub a precTernaryConditional ternTrueSide) ++
          (.p .Colon :: (toks (wrap (falseIsAssignment b) (fmtSub b precTernaryConditional ternFalseSide)) ++ rest)))))
        (c, .p .QuestionMark :: (toks (fmtSub a precTernaryConditional ternTrueSide) ++
          (.p .Colon :: (toks (wrap (falseIsAssignment b) (fmtSub b precTernaryConditional ternFalseSide)) ++ rest)))) :=
      rts_self ihc _ _ 12 term _ hterm (by omega)
        (fun hp => ⟨pos_ternC c hp, fun h => by have := pos_ternC c hp; omega⟩)
        (fun i h1 h2 => inert_question i term _ (by omega))
        (fun _ => inert_question 12 term _ (by omega))
    have hK : Conts 13 term c (.p .QuestionMark :: (toks (fmtSub a precTernaryConditional ternTrueSide) ++
          (.p .Colon :: (toks (wrap (falseIsAssignment b) (fmtSub b precTernaryConditional ternFalseSide)) ++ rest))))
        (.tern c a b, rest) := by
      obtain ⟨N1, h1⟩ := hA
      obtain ⟨N2, h2⟩ := hB
      refine ⟨max N1 N2 + 1, fun f hf => ?_⟩
      obtain ⟨f', rfl, hf'⟩ := succ_of_pos hf
      unfold cont
      simp [ternMiddleLevel, ternLastLevel, h1 f' (by omega), h2 f' (by omega)]
    have hp13 : Parses 13 term _ (.tern c a b, rest) := lift hC hK (by omega)
    exact finish_nonloop hp13 (Or.inr (Or.inr (Or.inl rfl))) hle (fun h => by omega) hno hfin
  | .call fn args, hwf => by
    intro k term rest out hterm hle hk htf hno hfin
    have ihf := rt fn hwf.1
    have iha := rt_args args hwf.2
    have hlvl : (Expr.call fn args).lvl = 1 := rfl
    rw [hlvl] at hle hfin
    have htoks : toks (fmtBody (.call fn args)) = toks (fmtSub fn callObjectPrec callObjectSide) ++
        (.p .LeftParen :: (toks (fmtArgs args) ++ [.p .RightParen])) := by
      simp only [fmtBody, fmtSub]
      rw [show needParen precCall topPrec topSide = false by decide, wrap_false]
      simp [pp]
    rw [htoks]
    simp only [List.append_assoc, List.cons_append, List.nil_append]
    have hArgs : ∃ N, ∀ f, N ≤ f → parseArgs f (toks (fmtArgs args) ++ .p .RightParen :: rest) = some (args, rest) := by
      match args, hwf.2, iha with
      | .nil, _, _ =>
        exact ⟨1, fun f hf => by obtain ⟨f', rfl, _⟩ := succ_of_pos hf; simp [fmtArgs, parseArgs]⟩
      | .cons e r, hw, ih =>
        obtain ⟨N, h⟩ := ih rest
        refine ⟨N + 1, fun f hf => ?_⟩
        obtain ⟨f', rfl, hf'⟩ := succ_of_pos hf
        -- the list does not start with `)`
        have hne : ∃ t ts', toks (fmtArgs (.cons e r)) ++ .p .RightParen :: rest = t :: ts' ∧ t ≠ .p .RightParen := by
          cases r with
          | nil =>
            obtain ⟨t, ts', h1, h2, _⟩ := head_fmt e hw.1 callArgPrec callArgSide
            exact ⟨t, ts' ++ .p .RightParen :: rest, by simp [fmtArgs, h1], h2.2⟩
          | cons e' r' =>
            obtain ⟨t, ts', h1, h2, _⟩ := head_fmt e hw.1 callArgMainPrec callArgMainSide
            exact ⟨t, _, by simp [fmtArgs, h1]; rfl, h2.2⟩
        obtain ⟨t, ts', hts, hne⟩ := hne
        have h' := h f' hf'
        rw [hts] at h' ⊢
        unfold parseArgs
        split
        · rename_i heq; cases heq; exact absurd rfl hne
        · exact h'
    refine finish_loop (lv := 1) ?_ (by decide) hle ?_ hno hfin
    · intro out' hc
      apply rts ihf _ _ 1 term _ out' hterm (by omega)
      · exact fun hp => ⟨pos_postfixLike fn _ (Or.inl rfl) hp, fun h => by have := pos_postfixLike fn _ (Or.inl rfl) hp; omega⟩
      · exact fun i h1 h2 => by omega
      · apply fin_of_conts _ _ _ _ _ _ (by decide)
        obtain ⟨N1, h1⟩ := hArgs
        obtain ⟨N2, h2⟩ := hc
        refine ⟨max N1 N2 + 1, fun f hf => ?_⟩
        obtain ⟨f', rfl, hf'⟩ := succ_of_pos hf
        unfold cont
        simp [h1 f' (by omega), h2 f' (by omega)]
    · intro _
      obtain ⟨t, ts', h1, h2, h3⟩ := head_fmt fn hwf.1 callObjectPrec callObjectSide
      rw [h1]
      simp only [List.cons_append, NoPrefix]
      apply h3
      cases hpx : needParen fn.prec callObjectPrec callObjectSide with
      | true => exact Or.inl rfl
      | false => exact Or.inr (pos_postfixLike fn _ (Or.inl rfl) hpx)
theorem rt_args : (a : Args) → WFA a → A1 a
  | .nil, _ => trivial
  | .cons e .nil, hw => by
    intro rest
    have ihe := rt e hw.1
    have hE : Parses 15 .Sequence (toks (fmtSub e callArgPrec callArgSide) ++ (.p .RightParen :: rest))
        (e, .p .RightParen :: rest) :=
      rts_self ihe _ _ 15 .Sequence _ (by decide) (Nat.le_refl _)
        (fun hp => ⟨by have := pos_arg e hp; omega, fun h => by have := pos_arg e hp; omega⟩)
        (noLow_closes 15 _ _ _ (Or.inl rfl)) (fun _ => inert_closes 15 _ _ _ (Or.inl rfl))
    obtain ⟨N, h⟩ := hE
    refine ⟨N + 1, fun f hf => ?_⟩
    obtain ⟨f', rfl, hf'⟩ := succ_of_pos hf
    unfold parseArgs1
    simp [fmtArgs, callArgTerminator, h f' hf']
  | .cons e (.cons e' r'), hw => by
    intro rest
    have ihe := rt e hw.1
    have ihr := rt_args (.cons e' r') hw.2 rest
    have hE : Parses 15 .Sequence (toks (fmtSub e callArgMainPrec callArgMainSide) ++
        (.p .Comma :: (toks (fmtArgs (.cons e' r')) ++ .p .RightParen :: rest)))
        (e, .p .Comma :: (toks (fmtArgs (.cons e' r')) ++ .p .RightParen :: rest)) :=
      rts_self ihe _ _ 15 .Sequence _ (by decide) (Nat.le_refl _)
        (fun hp => ⟨by have := pos_arg e hp; omega, fun h => by have := pos_arg e hp; omega⟩)
        (noLow_closes 15 _ _ _ (Or.inr (Or.inr (Or.inr (Or.inr ⟨rfl, rfl⟩)))))
        (fun _ => inert_closes 15 _ _ _ (Or.inr (Or.inr (Or.inr (Or.inr ⟨rfl, rfl⟩)))))
    obtain ⟨N1, h1⟩ := hE
    obtain ⟨N2, h2⟩ := ihr
    refine ⟨max N1 N2 + 1, fun f hf => ?_⟩
    obtain ⟨f', rfl, hf'⟩ := succ_of_pos hf
    unfold parseArgs1
    simp [fmtArgs, callArgTerminator, pp, h1 f' (by omega), h2 f' (by omega)]
end

end RsslVerif.Lemmas.Roundtrip

//! C02, stream `C02.dup`: the struct half of the Cast arm of the Metal `generate_expression` against its Lean model
//! (`Model.MslDup.structCastNow`: the side-effect test as a table, `get_member_count`, the decision repeat / refuse).
//!
//! request : C02.dup \t <source, one line> \t <cast> ;; <cast> …     with <cast> = <type shape> @ <operand>
//!           type shape  (leaf) | (arr T n) | (arr T none) | (struct T…)          — what `get_member_count` distinguishes
//!           operand     (Ctor field…), field = p (not an expression) | (one E) | (many E…)   — constructors of ir::Expression
//!           one entry per `Cast(struct type, operand of another type)` in the bodies, initialisers and default arguments
//!           of the module (on replay only the source is read)
//! observe : `casts n1 n2 …` — the numbers of clauses of the braced lists in the emitted module, sorted — or
//!           `diagnostic GenerateError(UnsupportedCast)`; a module rejected for another reason is skipped
//! oracle  : `ok` (the meaning of what is emitted is judged by the `C02.vfn` cases of the same program)
use crate::compile_util::*;
use crate::util::*;
use rssl::ir;

fn cty(m: &ir::Module, id: ir::TypeId, depth: u32) -> String {
    if depth > 16 {
        return "(leaf)".into();
    }
    let id = m.type_registry.remove_modifier(id);
    match m.type_registry.get_type_layer(id) {
        ir::TypeLayer::Array(inner, Some(len)) => format!("(arr {} {})", cty(m, inner, depth + 1), len),
        ir::TypeLayer::Array(inner, None) => format!("(arr {} none)", cty(m, inner, depth + 1)),
        ir::TypeLayer::Struct(sid) => {
            let sd = &m.struct_registry[sid.0 as usize];
            let ms: Vec<String> = sd.members.iter().map(|x| cty(m, x.type_id, depth + 1)).collect();
            format!("(struct{}{})", if ms.is_empty() { "" } else { " " }, ms.join(" "))
        }
        _ => "(leaf)".into(),
    }
}

fn one(e: &ir::Expression) -> String {
    format!("(one {})", dexpr(e))
}

fn many<'a>(es: impl Iterator<Item = &'a ir::Expression>) -> String {
    let v: Vec<String> = es.map(dexpr).collect();
    format!("(many{}{})", if v.is_empty() { "" } else { " " }, v.join(" "))
}

/// the constructor tree of an expression; payloads are not needed by the test
pub fn dexpr(e: &ir::Expression) -> String {
    use ir::Expression as E;
    match e {
        E::Literal(_) => "(Literal p)".into(),
        E::Variable(_) => "(Variable p)".into(),
        E::MemberVariable(_, _) => "(MemberVariable p p)".into(),
        E::Global(_) => "(Global p)".into(),
        E::ConstantVariable(_) => "(ConstantVariable p)".into(),
        E::EnumValue(_) => "(EnumValue p)".into(),
        E::TernaryConditional(c, t, f) => format!("(TernaryConditional {} {} {})", one(c), one(t), one(f)),
        E::Sequence(es) => format!("(Sequence {})", many(es.iter())),
        E::Swizzle(o, _) => format!("(Swizzle {} p)", one(o)),
        E::MatrixSwizzle(o, _) => format!("(MatrixSwizzle {} p)", one(o)),
        E::ArraySubscript(o, i) => format!("(ArraySubscript {} {})", one(o), one(i)),
        E::StructMember(o, _, _) => format!("(StructMember {} p p)", one(o)),
        E::ObjectMember(o, _) => format!("(ObjectMember {} p)", one(o)),
        E::Call(_, _, args) => format!("(Call p p {})", many(args.iter())),
        E::Constructor(_, slots) => format!("(Constructor p {})", many(slots.iter().map(|s| &s.expr))),
        E::Cast(_, x) => format!("(Cast p {})", one(x)),
        E::SizeOf(_) => "(SizeOf p)".into(),
        E::IntrinsicOp(_, args) => format!("(IntrinsicOp p {})", many(args.iter())),
    }
}

fn walk_expr(m: &ir::Module, e: &ir::Expression, out: &mut Vec<String>) {
    use ir::Expression as E;
    if let E::Cast(ty, inner) = e {
        let unmod = m.type_registry.remove_modifier(*ty);
        if let ir::TypeLayer::Struct(_) = m.type_registry.get_type_layer(unmod) {
            if let Ok(ety) = inner.get_type(m) {
                let input = m.type_registry.remove_modifier(ety.0);
                let from_cb = match m.type_registry.get_type_layer(input) {
                    ir::TypeLayer::Object(ir::ObjectType::ConstantBuffer(cb)) => m.type_registry.remove_modifier(cb) == unmod,
                    _ => false,
                };
                if input != unmod && !from_cb {
                    out.push(format!("{} @ {}", cty(m, unmod, 0), dexpr(inner)));
                }
            }
        }
    }
    match e {
        E::Literal(_) | E::Variable(_) | E::MemberVariable(_, _) | E::Global(_) | E::ConstantVariable(_) | E::EnumValue(_) | E::SizeOf(_) => {}
        E::TernaryConditional(c, t, f) => {
            walk_expr(m, c, out);
            walk_expr(m, t, out);
            walk_expr(m, f, out);
        }
        E::Sequence(es) | E::Call(_, _, es) | E::IntrinsicOp(_, es) => es.iter().for_each(|x| walk_expr(m, x, out)),
        E::Swizzle(o, _) | E::MatrixSwizzle(o, _) | E::StructMember(o, _, _) | E::ObjectMember(o, _) | E::Cast(_, o) => walk_expr(m, o, out),
        E::ArraySubscript(o, i) => {
            walk_expr(m, o, out);
            walk_expr(m, i, out);
        }
        E::Constructor(_, slots) => slots.iter().for_each(|s| walk_expr(m, &s.expr, out)),
    }
}

fn walk_init(m: &ir::Module, i: &ir::Initializer, out: &mut Vec<String>) {
    match i {
        ir::Initializer::Expression(e) => walk_expr(m, e, out),
        ir::Initializer::Aggregate(items) => items.iter().for_each(|x| walk_init(m, x, out)),
    }
}

fn walk_block(m: &ir::Module, b: &ir::ScopeBlock, out: &mut Vec<String>) {
    use ir::StatementKind as K;
    for st in &b.0 {
        match &st.kind {
            K::Expression(e) => walk_expr(m, e, out),
            K::Var(vd) => {
                if let Some(i) = &vd.init {
                    walk_init(m, i, out)
                }
            }
            K::Block(b) => walk_block(m, b, out),
            K::If(c, b) | K::While(c, b) | K::Switch(c, b) => {
                walk_expr(m, c, out);
                walk_block(m, b, out);
            }
            K::DoWhile(b, c) => {
                walk_block(m, b, out);
                walk_expr(m, c, out);
            }
            K::IfElse(c, t, f) => {
                walk_expr(m, c, out);
                walk_block(m, t, out);
                walk_block(m, f, out);
            }
            K::For(init, c, inc, b) => {
                match init {
                    ir::ForInit::Empty => {}
                    ir::ForInit::Expression(e) => walk_expr(m, e, out),
                    ir::ForInit::Definitions(ds) => {
                        for d in ds {
                            if let Some(i) = &d.init {
                                walk_init(m, i, out)
                            }
                        }
                    }
                }
                if let Some(c) = c {
                    walk_expr(m, c, out)
                }
                if let Some(i) = inc {
                    walk_expr(m, i, out)
                }
                walk_block(m, b, out);
            }
            K::Return(Some(e)) => walk_expr(m, e, out),
            K::Return(None) | K::Break | K::Continue | K::Discard | K::CaseLabel(_) | K::DefaultLabel => {}
        }
    }
}

/// every cast to a struct type from a value of another type, in the functions that have a body and are not templates
pub fn struct_casts(m: &ir::Module) -> Vec<String> {
    let mut out = Vec::new();
    for id in m.function_registry.iter() {
        if m.function_registry.get_intrinsic_data(id).is_some() {
            continue;
        }
        if !m.function_registry.get_function_signature(id).template_params.is_empty() {
            continue;
        }
        if let Some(imp) = m.function_registry.get_function_implementation(id) {
            walk_block(m, &imp.scope_block, &mut out);
        }
    }
    for g in m.global_registry.iter() {
        if let Some(i) = &g.init {
            walk_init(m, i, &mut out);
        }
    }
    out
}

fn count_binit(s: &super::sx::Sx, out: &mut Vec<usize>) {
    if let super::sx::Sx::L(items) = s {
        if s.head() == "binit" {
            out.push(s.args().len().saturating_sub(1));
        }
        for i in items {
            count_binit(i, out);
        }
    }
}

pub fn run_program(src: &str, out: &mut Out, hist: &mut Hist) {
    let src1 = one_line(src);
    let ir = match front_end_src(src) {
        Ok(m) => m,
        Err(_) => {
            out.case(&format!("C02.dup\t{}\t-", src1), "skip", "SKIP:front end");
            return;
        }
    };
    let casts = struct_casts(&ir);
    let req = format!("C02.dup\t{}\t{}", src1, if casts.is_empty() { "-".to_string() } else { casts.join(" ;; ") });
    match guard(|| rssl_msl::verif_generate_ast(&ir)) {
        Ok(Ok(m)) => {
            let mut counts = Vec::new();
            for item in super::vmconv::module(&m) {
                count_binit(&item, &mut counts);
            }
            counts.sort();
            hist.add("dup:exported");
            // text leg: the emitted TEXT of the module denotes the tree whose clauses were just counted
            let t = crate::c02::text::check_module(&ir, &m, hist);
            let tf = t.module_fails.iter().chain(t.per_fn.values().flatten()).next().cloned();
            let oracle = match tf {
                Some(f) => format!("FAIL:{}", f),
                None => "ok".to_string(),
            };
            out.case(&req, &format!("casts{}{}", if counts.is_empty() { "" } else { " " }, counts.iter().map(|c| c.to_string()).collect::<Vec<_>>().join(" ")), &oracle);
        }
        Ok(Err(e)) => {
            let text = one_line(&format!("{:?}", e));
            if text.contains("UnsupportedCast") {
                hist.add("dup:unsupported-cast");
                out.case(&req, &format!("diagnostic {}", text.chars().take(60).collect::<String>()), "ok");
            } else {
                hist.add("dup:other-diagnostic");
                out.case(&req, "skip", &format!("SKIP:rejected for another reason: {}", text.chars().take(60).collect::<String>()));
            }
        }
        Err(pn) => {
            hist.add("dup:panic");
            out.case(&req, "panic", &format!("FAIL:panic {}", pn));
        }
    }
}

pub fn run_request(line: &str, out: &mut Out, hist: &mut Hist) {
    let f: Vec<&str> = line.split('\t').collect();
    if f.len() < 2 || f[0] != "C02.dup" {
        return;
    }
    let src = super::unescape(f[1]);
    if let Err(pn) = guard(|| run_program(&src, out, hist)) {
        out.case(&format!("C02.dup\t{}\t-", f[1]), "harness-panic", &format!("SKIP:harness panic {}", pn));
    }
}

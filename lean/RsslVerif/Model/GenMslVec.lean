import RsslVerif.Gen.MslVecTables
import RsslVerif.Model.IrVec
import RsslVerif.Model.GenMsl
/-!
# `Model.GenMslVec` — `generate_expression`'s shape-changing arms in msl/src/generator.rs

The Metal exporter differs from the HLSL one exactly where Metal's vector rules differ from HLSL's:

* `Cast(type_id, expr)`: Metal has no vector → scalar and no vector → shorter-vector conversion, so
  `try_implicit_truncate(input_tyl, unmod_tyl, inner)` first selects `.x` / `.xy` / `.xyz` from a vector operand (decided on
  `expr.get_type()` — `getTy` below — and the target type); then `Cast(generate_type_id(type), inner)`.  Since fix b6f2da1 a
  one-component vector counts as the scalar it is on Metal on both sides: `.x` also for a `T1` target, and no member at all
  on a one-component operand.  Casts to the *scalar*
  literal types are dropped; a vector of a literal type panics in `generate_scalar_type` (as in the HLSL exporter).
* `Swizzle(object, slots)`: on a vector operand `Member(generate(object), letters)`; on a **scalar** operand (Metal has no
  members on scalars) all slots are asserted to be `X`, one slot gives the operand itself, several give the constructor
  call `T_n(object)` (literal kinds named as `int` / `float`).
* `Constructor(type, slots)`: `Call(Identifier(type name), [], [generate(slot.expr) …])`, slots in order.
* `generate_type_impl`, `Vector(st, x)`: the scalar's name with the dimension appended **unless it is 1** (`float1` is `float`).
* `IntrinsicOp`: the table `mslOpForm` of the scalar model; `%` on operands whose *scalar kind* is floating point is
  `metal::fmod(a, b)` — for vectors too (`extract_scalar`).
-/
namespace RsslVerif.Model.GenMslVec
open RsslVerif.Gen.HlslGenTables RsslVerif.Gen.HlslVecTables RsslVerif.Gen.MslGenTables RsslVerif.Gen.MslVecTables
open RsslVerif.Model RsslVerif.Model.IrVec
open RsslVerif.Model.GenMsl (Ctx typeName genExpr exprTy opRetTy scalarIn metalLib)
open RsslVerif.Model.GenHlsl (GenErr)
open RsslVerif.Model.Ir (Ty Var)

/-- `format!("{x}")` for the dimensions a vector type can have; dimension 1 adds nothing -/
def dimSuffix : Nat → Option String
  | 1 => some ""
  | 2 => some "2"
  | 3 => some "3"
  | 4 => some "4"
  | _ => none

/-- `generate_type_impl` for `Scalar` / `Vector` -/
def vtypeName : VTy → Except GenErr String
  | .sc t => typeName t
  | .vec t n =>
    match typeName t with
    | .error e => .error e
    | .ok s =>
      match dimSuffix n with
      | some d => .ok (s ++ d)
      | none => .error (.unsupported "vector dimension")

/-- the `member` string of the vector half of the Swizzle arm -/
def swizzleName (sl : List SwizzleSlot) : String := String.ofList (sl.map mslSwizzleChar)

/-- type of a swizzle with `k` slots on components of kind `t` (`Expression::get_type`) -/
def swzTy (t : Ty) (k : Nat) : VTy := if k = 1 then .sc t else .vec t k

mutual
/-- `Expression::get_type` on the vector layer (no checks: the module was type checked) -/
def getTy (cx : Ctx) (vvty : Var → VTy) : VExpr → Option VTy
  | .sc e => (exprTy cx e).map .sc
  | .vvar id => some (vvty (.loc id))
  | .vglobal id => some (vvty (.glob id))
  | .cast ty _ => some ty
  | .swz e sl => (getTy cx vvty e).map fun t => swzTy t.scalar sl.length
  | .ctor ty _ => some ty
  | .tern _ t _ => getTy cx vvty t
  | .op o args => getTyFirst cx vvty o args
def getTyFirst (cx : Ctx) (vvty : Var → VTy) (o : IntrinsicOp) : VExprs → Option VTy
  | .nil => none
  | .cons a _ => (getTy cx vvty a).map fun t => t.withScalar (opRetTy o t.scalar)
end

/-- `try_implicit_truncate` -/
def implicitTruncate (input target : VTy) (inner : VAExpr) : VAExpr :=
  match input with
  | .vec _ inDim =>
    match target with
    | .sc _ => if 1 < inDim then .member inner truncateToScalar else inner
    | .vec _ 1 => if 1 < inDim then .member inner truncateToScalar else inner
    | .vec _ 2 => if 2 < inDim then .member inner truncateToVec2 else inner
    | .vec _ 3 => if 3 < inDim then .member inner truncateToVec3 else inner
    | _ => inner
  | .sc _ => inner

/-- the scalar kind under which the scalar half of the Swizzle arm names its constructor -/
def unliteral : Ty → Ty
  | .lit => .int
  | .flit => .float
  | t => t

/-- `is_plain_place` on the vector layer (fix 92d66eb), through the re-extracted table: variables, swizzles of plain places -/
def plainPlaceV (e : VExpr) : Bool := MslDup.plainPlaceD (MslDup.toDV e)

/-- `is_free_of_writes` on the vector layer (fix 35faaaa) -/
def freeOfWritesV (e : VExpr) : Bool := MslDup.freeOfWritesD (MslDup.toDV e)

/-- `!is_plain_place(&exprs[0]) || !is_free_of_writes(&exprs[1])` does not refuse -/
def remOperandsOKV : VExprs → Except GenErr Bool
  | .nil => .error (.panic "generate_intrinsic_op: index out of bounds")
  | .cons a .nil => if plainPlaceV a then .error (.panic "generate_intrinsic_op: index out of bounds") else .ok false
  | .cons a (.cons b _) => .ok (plainPlaceV a && freeOfWritesV b)

/-- `exprs[0].get_type(context.module).unwrap()` -/
def getTyHead (cx : Ctx) (vvty : Var → VTy) : VExprs → Except GenErr VTy
  | .nil => .error (.panic "generate_intrinsic_op: index out of bounds")
  | .cons a _ =>
    match getTy cx vvty a with
    | none => .error (.panic "generate_intrinsic_op: called `Result::unwrap()` on an `Err` value")
    | some t => .ok t

mutual
/-- `generate_expression` on the vector layer -/
def genMV (cx : Ctx) (vvty : Var → VTy) : VExpr → Except GenErr VAExpr
  | .sc e =>
    match genExpr cx e with
    | .error err => .error err
    | .ok a => .ok (.sc a)
  | .vvar id => .ok (.ident (cx.locName id))
  | .vglobal id => .ok (.ident (cx.globName id))
  | .cast ty e =>
    match getTy cx vvty e with
    | none => .error (.unsupported "diagnostic: InvalidModule")
    | some input =>
      match genMV cx vvty e with
      | .error err => .error err
      | .ok inner =>
        if ty = .sc .lit ∨ ty = .sc .flit then .ok inner
        else
          match vtypeName ty with
          | .error err => .error err
          | .ok n => .ok (.cast n (implicitTruncate input ty inner))
  | .swz e sl =>
    match getTy cx vvty e with
    | none => .error (.unsupported "diagnostic: InvalidModule")
    | some objTy =>
      match genMV cx vvty e with
      | .error err => .error err
      | .ok o =>
        match objTy with
        | .sc st =>
          if sl.all (fun s => decide (s = .X)) then
            (if sl.length = 1 then .ok o
             else
              match vtypeName (.vec (unliteral st) sl.length) with
              | .error err => .error err
              | .ok n => .ok (.call n (.cons o .nil)))
          else .error (.panic "generate_expression: assertion `left == right` failed (swizzle of a scalar)")
        | .vec _ _ => .ok (.member o (swizzleName sl))
  | .ctor ty slots =>
    match vtypeName ty with
    | .error err => .error err
    | .ok n =>
      match genMSlots cx vvty slots with
      | .error err => .error err
      | .ok as => .ok (.call n as)
  | .tern c t f =>
    match genMV cx vvty c with
    | .error e => .error e
    | .ok c' =>
      match genMV cx vvty t with
      | .error e => .error e
      | .ok t' =>
        match genMV cx vvty f with
        | .error e => .error e
        | .ok f' => .ok (.tern c' t' f')
  | .op o args =>
    match mslOpForm o with
    | .special => .error (.unsupported "MakeSigned helper")
    | .meshMethod => .error (.unsupported "mesh output")
    | .meshHelper => .error (.unsupported "mesh output")
    | .unary u =>
      match args with
      | .cons a .nil =>
        match genMV cx vvty a with
        | .error e => .error e
        | .ok a' => .ok (.un u a')
      | _ => .error (.panic "generate_intrinsic_op: assertion failed: exprs.len() == 1")
    | .binary b => genMBinary cx vvty b args
    | .floatCall name scalars b =>
      match args with
      | .nil => .error (.panic "generate_intrinsic_op: index out of bounds")
      | .cons a _ =>
        match getTy cx vvty a with
        | none => .error (.panic "generate_intrinsic_op: called `Result::unwrap()` on an `Err` value")
        | some t =>
          if scalarIn scalars t.scalar then
            match genMArgs cx vvty args with
            | .error e => .error e
            | .ok as => .ok (.call (metalLib name) as)
          else genMBinary cx vvty b args
    | .floatAssign scalars err outer inner b =>
      match getTyHead cx vvty args with
      | .error e => .error e
      | .ok t =>
        if scalarIn scalars t.scalar then
          match remOperandsOKV args with
          | .error e => .error e
          | .ok false => .error (.diag err)
          | .ok true =>
            match mslOpForm outer with
            | .binary bo =>
              match genMHead cx vvty args with
              | .error e => .error e
              | .ok a' =>
                match mslOpForm inner with
                | .floatCall name sc bi =>
                  if scalarIn sc t.scalar then
                    match genMArgs cx vvty args with
                    | .error e => .error e
                    | .ok as => .ok (.bin bo a' (.call (metalLib name) as))
                  else
                    match genMBinary cx vvty bi args with
                    | .error e => .error e
                    | .ok v => .ok (.bin bo a' v)
                | .binary bi =>
                  match genMBinary cx vvty bi args with
                  | .error e => .error e
                  | .ok v => .ok (.bin bo a' v)
                | _ => .error (.unsupported "float assign: form of the inner operator")
            | _ => .error (.unsupported "float assign: form of the outer operator")
        else genMBinary cx vvty b args
/-- `generate_expression(&exprs[0], …)` -/
def genMHead (cx : Ctx) (vvty : Var → VTy) : VExprs → Except GenErr VAExpr
  | .nil => .error (.panic "generate_intrinsic_op: index out of bounds")
  | .cons a _ => genMV cx vvty a
/-- `Form::Binary(op)` -/
def genMBinary (cx : Ctx) (vvty : Var → VTy) (b : BinOp) : VExprs → Except GenErr VAExpr
  | .cons x (.cons y .nil) =>
    match genMV cx vvty x with
    | .error e => .error e
    | .ok x' =>
      match genMV cx vvty y with
      | .error e => .error e
      | .ok y' => .ok (.bin b x' y')
  | _ => .error (.panic "generate_intrinsic_op: assertion failed: exprs.len() == 2")
/-- `generate_invocation_args` -/
def genMArgs (cx : Ctx) (vvty : Var → VTy) : VExprs → Except GenErr VAExprs
  | .nil => .ok .nil
  | .cons e r =>
    match genMV cx vvty e with
    | .error err => .error err
    | .ok a =>
      match genMArgs cx vvty r with
      | .error err => .error err
      | .ok as => .ok (.cons a as)
/-- the loop over the constructor's slots -/
def genMSlots (cx : Ctx) (vvty : Var → VTy) : VSlots → Except GenErr VAExprs
  | .nil => .ok .nil
  | .cons _ e r =>
    match genMV cx vvty e with
    | .error err => .error err
    | .ok a =>
      match genMSlots cx vvty r with
      | .error err => .error err
      | .ok as => .ok (.cons a as)
end

end RsslVerif.Model.GenMslVec

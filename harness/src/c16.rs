//! C16: overload resolution is order-independent and prefers exact matches.
//!
//! request : C16.resolve \t cand;cand;...  \t arg,arg,... [\t opt,opt,...]
//!             cand  = <id>:<non_default>:<param>,<param>,...[:t<kinds>]   (declaration order = order in the request;
//!                     kinds = one letter per template parameter, T = `typename Tk`, V = `uint Tk`; ids >= 1000 are the
//!                     overloads of an intrinsic, read from the real function registry, not declared by the program)
//!             param = <in|out|inout>/<mods>/<layer>
//!             arg   = <L|R>/<mods>/<layer>
//!             mods  = `-` or letters c(onst) v(olatile) r(ow_major) k(column_major) u(norm) n(snorm)
//!             layer = s.<Scalar> | v.<Scalar>.<n> | m.<Scalar>.<x>.<y> | e.<id> | o.<id>
//!                     (o.<id>: id < 100 struct S<id>, 100 + 10*scalar + len an array, 200.. an intrinsic object type)
//!                     in parameters of templates also t.<k> (`Tk`) | vt.<k>.<n> (`vector<Tk, n>`) | mt.<k>.<x>.<y>
//!             opt   = D (every candidate declared, then defined in reverse order)
//!                   | P=<path> how the candidates are declared and the call is written:
//!                       M methods of `struct S`, call `s.f(..)`;  I / J the call is inside another method of S that is
//!                       declared before / after the candidates;  U methods of `template<typename W> struct S`, `S<int> s`;
//!                       N inside `namespace N`, call `N::f(..)`;  Q the namespace is opened twice;
//!                       O call from a function inside `namespace N`, the root scope has a hidden exactly matching `f`;
//!                       K the same one namespace level deeper;  R candidates at the root, call `::f(..)` inside a
//!                       namespace with its own exactly matching `f`;  A.<name> user overloads of the intrinsic <name>;
//!                       B.<k>.<name> the intrinsic methods <name> of object type number k
//!                   | X=<targ>+<targ>.. explicit template arguments of the call (targ = <mods>/<layer> or `#` = a constant)
//!           run as a generated RSSL program: every candidate returns its own struct `R<id>`, the call is
//!           `assert_type<R..>(f(args))`; the verdict is read off the type checker's result: the `Call` node of the
//!           accepted program / `AssertTypeFailed` / `FunctionArgumentTypeMismatch(ids, .., ambiguous)` /
//!           `LvalueRequired` | `MutableRequired` (an overload was selected, then `check_output_arguments` refused an
//!           argument given for an `out` / `inout` parameter).
//! observe : sel <id>[<targ+targ..>] | amb <id,id,..> (ascending) | none | lvreq | mutreq | panic
//! oracle  : (independent of the Lean model) the verdict is the same under every permutation of the declaration order;
//!           a unique exactly-matching viable candidate is selected (several: all reported ambiguous);
//!           the selected candidate is not dominated by another viable one (conversion quality from a hand-written
//!           table); an accepted call passes no converted argument for an `out` / `inout` parameter, and a call is
//!           refused for that reason only if a candidate that could have been selected needs such a conversion.
//!
//! request : C16.conv \t <src arg> \t <dst arg> <dst arg> ...
//! observe : per destination  err | <NumericRank|panic>/<VectorRank|panic>><target type | panic>   (space separated)
//!           straight from `rssl_typer::verif::ImplicitConversion::{find, get_rank, get_target_type}`.
use crate::util::*;
use rssl::ir;
use rssl::ir::ScalarType;
use rssl::typer::verif::ImplicitConversion;
use std::collections::HashMap;

// ------------------------------------------------------------------------------------------- types

#[derive(Clone, Copy, PartialEq, Eq, Hash, PartialOrd, Ord, Debug)]
pub enum Layer {
    Scalar(u8),
    Vector(u8, u32),
    Matrix(u8, u32, u32),
    Enum(u32),
    Other(u32),
    /// `Tk` (only in parameters of function templates)
    TVar(u8),
    /// `vector<Tk, n>`
    TVec(u8, u32),
    /// `matrix<Tk, x, y>`
    TMat(u8, u32, u32),
    /// `Tk p[len]`
    TArr(u8, u32),
}

const SCALARS: &[(ScalarType, &str, &str)] = &[
    (ScalarType::Bool, "Bool", "bool"),
    (ScalarType::IntLiteral, "IntLiteral", ""),
    (ScalarType::Int32, "Int32", "int"),
    (ScalarType::UInt32, "UInt32", "uint"),
    (ScalarType::FloatLiteral, "FloatLiteral", ""),
    (ScalarType::Float16, "Float16", "half"),
    (ScalarType::Float32, "Float32", "float"),
    (ScalarType::Float64, "Float64", "double"),
];
const S_BOOL: u8 = 0;
const S_INTLIT: u8 = 1;
const S_FLOATLIT: u8 = 4;
/// the property's grid: bool,int,uint,half,float,double
const GRID_SCALARS: &[u8] = &[0, 2, 3, 5, 6, 7];

#[derive(Clone, Copy, PartialEq, Eq, Hash, PartialOrd, Ord, Debug, Default)]
pub struct Mods(u8); // bit 0 c, 1 v, 2 r, 3 k, 4 u, 5 n
const MOD_LETTERS: &[u8] = b"cvrkun";

#[derive(Clone, Copy, PartialEq, Eq, Hash, PartialOrd, Ord, Debug)]
pub struct Ty {
    mods: Mods,
    layer: Layer,
}

#[derive(Clone, Copy, PartialEq, Eq, Hash, PartialOrd, Ord, Debug)]
pub struct ETy {
    lvalue: bool,
    ty: Ty,
}

#[derive(Clone, Copy, PartialEq, Eq, Hash, PartialOrd, Ord, Debug)]
pub enum Io {
    In,
    Out,
    InOut,
}

#[derive(Clone, Copy, PartialEq, Eq, Hash, PartialOrd, Ord, Debug)]
pub struct Param {
    io: Io,
    ty: Ty,
}

#[derive(Clone, PartialEq, Eq, Hash, PartialOrd, Ord, Debug)]
pub struct Cand {
    id: u32,
    non_default: usize,
    params: Vec<Param>,
    /// one entry per template parameter: true = `typename Tk`, false = `uint Tk`
    tkinds: Vec<bool>,
}

/// how the candidates are declared and how the call is written
#[derive(Clone, PartialEq, Eq, Hash, PartialOrd, Ord, Debug)]
pub enum Path {
    Free,
    Method,
    MethodIntFirst,
    MethodIntLast,
    TStruct,
    Ns,
    NsSplit,
    NsInner,
    NsNested,
    /// candidates at the root, the call `::f(..)` inside a namespace that has its own exactly matching `f`
    NsAbsolute,
    Intrinsic(String),
    Object(u32, String),
}

#[derive(Clone, PartialEq, Eq, Hash, PartialOrd, Ord, Debug)]
pub struct Opts {
    with_defs: bool,
    path: Path,
    /// explicit template arguments; None = a constant
    targs: Vec<Option<Ty>>,
    /// how the argument expressions are written: 0 locals / calls, 1 members of a local struct / casts, 2 globals
    form: u8,
}

impl Opts {
    fn plain() -> Self {
        Opts { with_defs: false, path: Path::Free, targs: Vec::new(), form: 0 }
    }
}

fn show_targ(t: &Option<Ty>) -> String {
    match t {
        None => "#".into(),
        Some(t) => show_ty(*t),
    }
}

fn show_opts(o: &Opts) -> String {
    let mut v: Vec<String> = Vec::new();
    if o.with_defs {
        v.push("D".into());
    }
    match &o.path {
        Path::Free => {}
        Path::Method => v.push("P=M".into()),
        Path::MethodIntFirst => v.push("P=I".into()),
        Path::MethodIntLast => v.push("P=J".into()),
        Path::TStruct => v.push("P=U".into()),
        Path::Ns => v.push("P=N".into()),
        Path::NsSplit => v.push("P=Q".into()),
        Path::NsInner => v.push("P=O".into()),
        Path::NsNested => v.push("P=K".into()),
        Path::NsAbsolute => v.push("P=R".into()),
        Path::Intrinsic(n) => v.push(format!("P=A.{}", n)),
        Path::Object(k, n) => v.push(format!("P=B.{}.{}", k, n)),
    }
    if !o.targs.is_empty() {
        v.push(format!("X={}", o.targs.iter().map(show_targ).collect::<Vec<_>>().join("+")));
    }
    if o.form != 0 {
        v.push(format!("E={}", o.form));
    }
    v.join(",")
}

fn parse_opts(s: &str) -> Option<Opts> {
    let mut o = Opts::plain();
    if s.is_empty() {
        return Some(o);
    }
    for tok in s.split(',') {
        if tok == "D" {
            o.with_defs = true;
        } else if let Some(p) = tok.strip_prefix("P=") {
            o.path = match p {
                "M" => Path::Method,
                "I" => Path::MethodIntFirst,
                "J" => Path::MethodIntLast,
                "U" => Path::TStruct,
                "N" => Path::Ns,
                "Q" => Path::NsSplit,
                "O" => Path::NsInner,
                "K" => Path::NsNested,
                "R" => Path::NsAbsolute,
                _ => {
                    if let Some(n) = p.strip_prefix("A.") {
                        Path::Intrinsic(n.to_string())
                    } else if let Some(r) = p.strip_prefix("B.") {
                        let (k, n) = r.split_once('.')?;
                        Path::Object(k.parse().ok()?, n.to_string())
                    } else {
                        return None;
                    }
                }
            };
        } else if let Some(e) = tok.strip_prefix("E=") {
            o.form = e.parse().ok()?;
            if o.form > 2 {
                return None;
            }
        } else if let Some(x) = tok.strip_prefix("X=") {
            for t in x.split('+') {
                if t == "#" {
                    o.targs.push(None);
                } else {
                    let p: Vec<&str> = t.split('/').collect();
                    if p.len() != 2 {
                        return None;
                    }
                    o.targs.push(Some(Ty { mods: parse_mods(p[0])?, layer: parse_layer(p[1])? }));
                }
            }
        } else {
            return None;
        }
    }
    Some(o)
}

fn show_mods(m: Mods) -> String {
    if m.0 == 0 {
        return "-".into();
    }
    let mut s = String::new();
    for (i, c) in MOD_LETTERS.iter().enumerate() {
        if m.0 & (1 << i) != 0 {
            s.push(*c as char);
        }
    }
    s
}

fn parse_mods(s: &str) -> Option<Mods> {
    if s == "-" {
        return Some(Mods(0));
    }
    let mut m = 0u8;
    for c in s.bytes() {
        let i = MOD_LETTERS.iter().position(|x| *x == c)?;
        m |= 1 << i;
    }
    Some(Mods(m))
}

fn show_layer(l: Layer) -> String {
    match l {
        Layer::Scalar(s) => format!("s.{}", SCALARS[s as usize].1),
        Layer::Vector(s, n) => format!("v.{}.{}", SCALARS[s as usize].1, n),
        Layer::Matrix(s, x, y) => format!("m.{}.{}.{}", SCALARS[s as usize].1, x, y),
        Layer::Enum(i) => format!("e.{}", i),
        Layer::Other(i) => format!("o.{}", i),
        Layer::TVar(k) => format!("t.{}", k),
        Layer::TVec(k, n) => format!("vt.{}.{}", k, n),
        Layer::TMat(k, x, y) => format!("mt.{}.{}.{}", k, x, y),
        Layer::TArr(k, n) => format!("at.{}.{}", k, n),
    }
}

fn parse_scalar(s: &str) -> Option<u8> {
    SCALARS.iter().position(|x| x.1 == s).map(|i| i as u8)
}

fn parse_layer(s: &str) -> Option<Layer> {
    let p: Vec<&str> = s.split('.').collect();
    match p.as_slice() {
        ["s", s] => Some(Layer::Scalar(parse_scalar(s)?)),
        ["v", s, n] => Some(Layer::Vector(parse_scalar(s)?, n.parse().ok()?)),
        ["m", s, x, y] => Some(Layer::Matrix(parse_scalar(s)?, x.parse().ok()?, y.parse().ok()?)),
        ["e", i] => Some(Layer::Enum(i.parse().ok()?)),
        ["o", i] => Some(Layer::Other(i.parse().ok()?)),
        ["t", k] => Some(Layer::TVar(k.parse().ok()?)),
        ["vt", k, n] => Some(Layer::TVec(k.parse().ok()?, n.parse().ok()?)),
        ["mt", k, x, y] => Some(Layer::TMat(k.parse().ok()?, x.parse().ok()?, y.parse().ok()?)),
        ["at", k, n] => Some(Layer::TArr(k.parse().ok()?, n.parse().ok()?)),
        _ => None,
    }
}

fn show_ty(t: Ty) -> String {
    format!("{}/{}", show_mods(t.mods), show_layer(t.layer))
}

fn show_ety(e: ETy) -> String {
    format!("{}/{}", if e.lvalue { "L" } else { "R" }, show_ty(e.ty))
}

fn parse_ety(s: &str) -> Option<ETy> {
    let p: Vec<&str> = s.split('/').collect();
    if p.len() != 3 {
        return None;
    }
    let lvalue = match p[0] {
        "L" => true,
        "R" => false,
        _ => return None,
    };
    Some(ETy { lvalue, ty: Ty { mods: parse_mods(p[1])?, layer: parse_layer(p[2])? } })
}

fn show_param(p: Param) -> String {
    let io = match p.io {
        Io::In => "in",
        Io::Out => "out",
        Io::InOut => "inout",
    };
    format!("{}/{}", io, show_ty(p.ty))
}

fn parse_param(s: &str) -> Option<Param> {
    let p: Vec<&str> = s.split('/').collect();
    if p.len() != 3 {
        return None;
    }
    let io = match p[0] {
        "in" => Io::In,
        "out" => Io::Out,
        "inout" => Io::InOut,
        _ => return None,
    };
    Some(Param { io, ty: Ty { mods: parse_mods(p[1])?, layer: parse_layer(p[2])? } })
}

fn show_cand(c: &Cand) -> String {
    let ps: Vec<String> = c.params.iter().map(|p| show_param(*p)).collect();
    let mut s = format!("{}:{}:{}", c.id, c.non_default, ps.join(","));
    if !c.tkinds.is_empty() {
        s.push_str(":t");
        for k in &c.tkinds {
            s.push(if *k { 'T' } else { 'V' });
        }
    }
    s
}

fn parse_cand(s: &str) -> Option<Cand> {
    let p: Vec<&str> = s.split(':').collect();
    if p.len() != 3 && p.len() != 4 {
        return None;
    }
    let params: Option<Vec<Param>> = if p[2].is_empty() {
        Some(Vec::new())
    } else {
        p[2].split(',').map(parse_param).collect()
    };
    let mut tkinds = Vec::new();
    if p.len() == 4 {
        let k = p[3].strip_prefix('t')?;
        if k.is_empty() {
            return None;
        }
        for c in k.chars() {
            tkinds.push(match c {
                'T' => true,
                'V' => false,
                _ => return None,
            });
        }
    }
    Some(Cand { id: p[0].parse().ok()?, non_default: p[1].parse().ok()?, params: params?, tkinds })
}

fn show_cands(cs: &[Cand]) -> String {
    cs.iter().map(show_cand).collect::<Vec<_>>().join(";")
}

fn show_args(a: &[ETy]) -> String {
    a.iter().map(|e| show_ety(*e)).collect::<Vec<_>>().join(",")
}

// ------------------------------------------------------------------------------------------- real types

struct Real {
    module: ir::Module,
}

impl Real {
    fn new() -> Self {
        Real { module: ir::Module::create() }
    }

    fn ty(&mut self, t: Ty) -> ir::TypeId {
        let reg = &self.module.type_registry;
        let sid = |s: u8| reg.register_type(ir::TypeLayer::Scalar(SCALARS[s as usize].0));
        let base = match t.layer {
            Layer::Scalar(s) => sid(s),
            Layer::Vector(s, n) => {
                let i = sid(s);
                reg.register_type(ir::TypeLayer::Vector(i, n))
            }
            Layer::Matrix(s, x, y) => {
                let i = sid(s);
                reg.register_type(ir::TypeLayer::Matrix(i, x, y))
            }
            Layer::Enum(i) => reg.register_type(ir::TypeLayer::Enum(ir::EnumId(i))),
            Layer::Other(i) if (100..200).contains(&i) => {
                let e = sid(((i - 100) / 10) as u8);
                reg.register_type(ir::TypeLayer::Array(e, Some(((i - 100) % 10) as u64)))
            }
            Layer::Other(200) => reg.register_type(ir::TypeLayer::Object(ir::ObjectType::SamplerState)),
            Layer::Other(201) => reg.register_type(ir::TypeLayer::Object(ir::ObjectType::SamplerComparisonState)),
            Layer::Other(i) => reg.register_type(ir::TypeLayer::Struct(ir::StructId(i))),
            // template parameters never reach the conversion routines (they are substituted first)
            Layer::TVar(_) | Layer::TVec(..) | Layer::TMat(..) | Layer::TArr(..) => reg.register_type(ir::TypeLayer::Void),
        };
        if t.mods.0 == 0 {
            base
        } else {
            let m = ir::TypeModifier {
                is_const: t.mods.0 & 1 != 0,
                volatile: t.mods.0 & 2 != 0,
                row_major: t.mods.0 & 4 != 0,
                column_major: t.mods.0 & 8 != 0,
                unorm: t.mods.0 & 16 != 0,
                snorm: t.mods.0 & 32 != 0,
            };
            reg.register_type(ir::TypeLayer::Modifier(m, base))
        }
    }

    fn ety(&mut self, e: ETy) -> ir::ExpressionType {
        let id = self.ty(e.ty);
        if e.lvalue { id.to_lvalue() } else { id.to_rvalue() }
    }

    /// back from a real type id to the protocol's description
    fn describe(&self, id: ir::TypeId) -> Option<Ty> {
        describe_in(&self.module, id, false)
    }
}

/// describe a type of `module`; `by_name`: structs and enums are the program's `S<n>` / `E<n>` (otherwise the
/// registry index is the protocol's number)
fn describe_in(module: &ir::Module, id: ir::TypeId, by_name: bool) -> Option<Ty> {
    let struct_no = |s: ir::StructId| -> Option<u32> {
        if by_name { module.struct_registry[s.0 as usize].name.node.strip_prefix('S')?.parse().ok() } else { Some(s.0) }
    };
    let enum_no = |e: ir::EnumId| -> Option<u32> {
        if by_name { module.enum_registry.get_enum_definition(e).name.node.strip_prefix('E')?.parse().ok() } else { Some(e.0) }
    };
    {
        let reg = &module.type_registry;
        let (base, m) = reg.extract_modifier(id);
        let mut bits = 0u8;
        for (i, b) in [m.is_const, m.volatile, m.row_major, m.column_major, m.unorm, m.snorm].iter().enumerate() {
            if *b {
                bits |= 1 << i;
            }
        }
        let sc = |s: ScalarType| SCALARS.iter().position(|x| x.0 == s).map(|i| i as u8);
        let inner = |i: ir::TypeId| match reg.get_type_layer(i) {
            ir::TypeLayer::Scalar(s) => sc(s),
            _ => None,
        };
        let layer = match reg.get_type_layer(base) {
            ir::TypeLayer::Scalar(s) => Layer::Scalar(sc(s)?),
            ir::TypeLayer::Vector(i, n) => Layer::Vector(inner(i)?, n),
            ir::TypeLayer::Matrix(i, x, y) => Layer::Matrix(inner(i)?, x, y),
            ir::TypeLayer::Enum(e) => Layer::Enum(enum_no(e)?),
            ir::TypeLayer::Struct(s) => Layer::Other(struct_no(s)?),
            ir::TypeLayer::Array(e, Some(len)) if (1..10).contains(&len) => Layer::Other(100 + 10 * inner(e)? as u32 + len as u32),
            ir::TypeLayer::TemplateParam(id) => Layer::TVar(reg.get_template_type(id).positional_index as u8),
            ir::TypeLayer::Object(ir::ObjectType::SamplerState) => Layer::Other(200),
            ir::TypeLayer::Object(ir::ObjectType::SamplerComparisonState) => Layer::Other(201),
            _ => return None,
        };
        Some(Ty { mods: Mods(bits), layer })
    }
}

impl Real {

    /// `find` + `get_rank`: Ok(None) = no conversion, Ok(Some((num, vec))) = Debug names, Err = panic
    fn rank(&mut self, src: ETy, dst: ETy) -> Result<Option<(String, String)>, String> {
        let s = self.ety(src);
        let d = self.ety(dst);
        let module = &mut self.module;
        guard(move || match ImplicitConversion::find(s, d, module) {
            Err(()) => None,
            Ok(c) => {
                let r = c.get_rank();
                Some((format!("{:?}", r.get_numeric_rank()), format!("{:?}", r.get_vector_rank())))
            }
        })
    }

    fn conv_cell(&mut self, src: ETy, dst: ETy) -> String {
        let s = self.ety(src);
        let d = self.ety(dst);
        let found = {
            let module = &mut self.module;
            guard(move || ImplicitConversion::find(s, d, module))
        };
        let conv = match found {
            Err(_) => return "panic".into(),
            Ok(Err(())) => return "err".into(),
            Ok(Ok(c)) => c,
        };
        let rank = {
            let c = conv.clone();
            match guard(move || {
                let r = c.get_rank();
                format!("{:?}/{:?}", r.get_numeric_rank(), r.get_vector_rank())
            }) {
                Ok(s) => s,
                Err(_) => "panic/panic".into(),
            }
        };
        let target = {
            let module = &mut self.module;
            let c = conv.clone();
            guard(move || c.get_target_type(module))
        };
        let target = match target {
            Err(_) => "panic".to_string(),
            Ok(ir::ExpressionType(id, vt)) => match self.describe(id) {
                Some(t) => show_ety(ETy { lvalue: vt == ir::ValueType::Lvalue, ty: t }),
                None => "?".into(),
            },
        };
        format!("{}>{}", rank, target)
    }
}

// ------------------------------------------------------------------------------------------- programs

/// intrinsic object types whose methods the `B` path calls: (declaration of the global `g_obj`, constructor)
const OBJECTS: &[&str] = &[
    "Texture2D<float4>",
    "Texture2DArray<float4>",
    "Texture3D<float4>",
    "TextureCube<float4>",
    "Buffer<float4>",
    "RWTexture2D<float4>",
    "StructuredBuffer<float4>",
    "RWBuffer<float4>",
    "RWByteAddressBuffer",
    "ByteAddressBuffer",
];

fn object_type(k: u32, module: &mut ir::Module) -> Option<ir::ObjectType> {
    let f = module.type_registry.register_type(ir::TypeLayer::Scalar(ScalarType::Float32));
    let f4 = module.type_registry.register_type(ir::TypeLayer::Vector(f, 4));
    Some(match k {
        0 => ir::ObjectType::Texture2D(f4),
        1 => ir::ObjectType::Texture2DArray(f4),
        2 => ir::ObjectType::Texture3D(f4),
        3 => ir::ObjectType::TextureCube(f4),
        4 => ir::ObjectType::Buffer(f4),
        5 => ir::ObjectType::RWTexture2D(f4),
        6 => ir::ObjectType::StructuredBuffer(f4),
        7 => ir::ObjectType::RWBuffer(f4),
        8 => ir::ObjectType::RWByteAddressBuffer,
        9 => ir::ObjectType::ByteAddressBuffer,
        _ => return None,
    })
}

/// type name and declarator suffix (arrays): `float` + `[2]`
fn spell2(t: Ty) -> Option<(String, String)> {
    let sc = |s: u8| {
        let n = SCALARS[s as usize].2;
        if n.is_empty() { None } else { Some(n) }
    };
    let mut suffix = String::new();
    let base = match t.layer {
        Layer::Scalar(s) => sc(s)?.to_string(),
        Layer::Vector(s, n) if (1..=4).contains(&n) => format!("{}{}", sc(s)?, n),
        Layer::Matrix(s, x, y) if (1..=4).contains(&x) && (1..=4).contains(&y) => format!("{}{}x{}", sc(s)?, x, y),
        Layer::Enum(i) => format!("E{}", i),
        Layer::Other(i) if i < 100 => format!("S{}", i),
        Layer::Other(i) if i < 200 => {
            suffix = format!("[{}]", (i - 100) % 10);
            sc(((i - 100) / 10) as u8)?.to_string()
        }
        Layer::Other(200) => "SamplerState".to_string(),
        Layer::Other(201) => "SamplerComparisonState".to_string(),
        Layer::TVar(k) => format!("T{}", k),
        Layer::TVec(k, n) => format!("vector<T{}, {}>", k, n),
        Layer::TMat(k, x, y) => format!("matrix<T{}, {}, {}>", k, x, y),
        Layer::TArr(k, n) => {
            suffix = format!("[{}]", n);
            format!("T{}", k)
        }
        _ => return None,
    };
    match t.mods.0 {
        0 => Some((base, suffix)),
        1 => Some((format!("const {}", base), suffix)),
        _ => None,
    }
}

fn spell(t: Ty) -> Option<String> {
    match spell2(t)? {
        (b, s) if s.is_empty() => Some(b),
        _ => None,
    }
}

fn is_numeric(l: Layer) -> bool {
    matches!(l, Layer::Scalar(_) | Layer::Vector(..) | Layer::Matrix(..))
}

fn is_template_layer(l: Layer) -> bool {
    matches!(l, Layer::TVar(_) | Layer::TVec(..) | Layer::TMat(..) | Layer::TArr(..))
}

fn is_object_layer(l: Layer) -> bool {
    matches!(l, Layer::Other(i) if i >= 200)
}

/// the candidates the program has to declare (ids >= 1000 belong to the compiler)
fn is_user(c: &Cand) -> bool {
    c.id < 1000
}

/// source text of one user candidate named `fname`: (declaration, definition).  An ordinary free function is declared as
/// a prototype and has a separate definition; a template needs its body (it is the template source) and methods are
/// written with bodies: their declaration is the definition and the second component is None.
fn cand_decl(c: &Cand, fname: &str, in_struct: bool) -> Option<(String, Option<String>)> {
    if c.non_default > c.params.len() {
        return None;
    }
    let mut ps = Vec::new();
    for (i, p) in c.params.iter().enumerate() {
        if p.ty.mods.0 != 0 {
            return None;
        }
        if is_template_layer(p.ty.layer) && c.tkinds.is_empty() {
            return None;
        }
        let (t, suf) = spell2(p.ty)?;
        let io = match p.io {
            Io::In => "",
            Io::Out => "out ",
            Io::InOut => "inout ",
        };
        let mut d = format!("{}{} p{}{}", io, t, i, suf);
        if i >= c.non_default {
            // (a default value of a template-typed parameter is checked when the template is instantiated)
            if p.io != Io::In || !(is_numeric(p.ty.layer) || matches!(p.ty.layer, Layer::TVar(_) | Layer::TVec(..) | Layer::TMat(..))) {
                return None;
            }
            d.push_str(&format!(" = ({})0", t));
        }
        ps.push(d);
    }
    let body = format!("{{ R{} r; return r; }}", c.id);
    if c.tkinds.is_empty() && !in_struct {
        Some((
            format!("R{} {}({});\n", c.id, fname, ps.join(", ")),
            Some(format!("R{} {}({}) {}\n", c.id, fname, ps.join(", "), body)),
        ))
    } else {
        let mut head = String::new();
        if !c.tkinds.is_empty() {
            let tp: Vec<String> = c
                .tkinds
                .iter()
                .enumerate()
                .map(|(k, ty)| if *ty { format!("typename T{}", k) } else { format!("uint T{}", k) })
                .collect();
            head = format!("template<{}> ", tp.join(", "));
        }
        Some((format!("{}R{} {}({}) {}\n", head, c.id, fname, ps.join(", "), body), None))
    }
}

/// the prototype of a function template `cand_decl` wrote with its body
fn template_prototype(def: &str) -> Option<String> {
    let at = def.find(") { R")?;
    Some(format!("{});\n", &def[..at]))
}

/// RSSL program for one declaration order; None = not expressible (SKIP).  `expect` is the struct named in assert_type.
fn program(cands: &[Cand], args: &[ETy], opts: &Opts, expect: Option<u32>) -> Option<String> {
    let mut s = String::new();
    let mut others: Vec<u32> = Vec::new();
    let mut enums: Vec<u32> = Vec::new();
    let mut note = |l: Layer| match l {
        Layer::Other(i) if i < 100 && !others.contains(&i) => others.push(i),
        Layer::Enum(i) if !enums.contains(&i) => enums.push(i),
        _ => {}
    };
    for c in cands {
        for p in &c.params {
            note(p.ty.layer);
        }
    }
    for a in args {
        note(a.ty.layer);
    }
    for t in opts.targs.iter().flatten() {
        note(t.layer);
    }
    others.sort();
    enums.sort();
    for i in &others {
        s.push_str(&format!("struct S{} {{ int q; }};\n", i));
    }
    for i in &enums {
        s.push_str(&format!("enum E{} {{ E{}_A }};\n", i, i));
    }
    let mut ids: Vec<u32> = cands.iter().map(|c| c.id).collect();
    ids.sort();
    for w in ids.windows(2) {
        if w[0] == w[1] {
            return None;
        }
    }
    let hidden = matches!(opts.path, Path::NsInner | Path::NsNested | Path::NsAbsolute);
    for id in ids.iter().filter(|i| **i < 1000) {
        s.push_str(&format!("struct R{} {{ int q; }};\n", id));
    }
    if hidden {
        s.push_str("struct R99 { int q; };\n");
    }
    // argument expressions
    let mut locals = String::new();
    let mut members = String::new();
    let mut exprs = Vec::new();
    for (i, a) in args.iter().enumerate() {
        match (a.lvalue, a.ty.mods.0, a.ty.layer) {
            (false, 0, Layer::Scalar(S_INTLIT)) => exprs.push("0".to_string()),
            (false, 0, Layer::Scalar(S_FLOATLIT)) => exprs.push("0.0".to_string()),
            (true, 0, l) if is_object_layer(l) => {
                let t = spell(a.ty)?;
                s.push_str(&format!("{} g_a{};\n", t, i));
                exprs.push(format!("g_a{}", i));
            }
            (false, 0, l) if opts.form == 1 && is_numeric(l) => {
                // a cast of a local of that type
                let t = spell(a.ty)?;
                locals.push_str(&format!("    {} c{};\n", t, i));
                exprs.push(format!("({})c{}", t, i));
            }
            (false, 0, _) => {
                let t = spell(a.ty)?;
                s.push_str(&format!("{} rv{}();\n", t, i));
                exprs.push(format!("rv{}()", i));
            }
            (true, 0, _) if opts.form == 1 => {
                let (t, suf) = spell2(a.ty)?;
                members.push_str(&format!(" {} m{}{};", t, i, suf));
                exprs.push(format!("w.m{}", i));
            }
            (true, 0, _) if opts.form == 2 => {
                let (t, suf) = spell2(a.ty)?;
                s.push_str(&format!("static {} g{}{};\n", t, i, suf));
                exprs.push(format!("g{}", i));
            }
            (true, 0, _) => {
                let (t, suf) = spell2(a.ty)?;
                locals.push_str(&format!("    {} a{}{};\n", t, i, suf));
                exprs.push(format!("a{}", i));
            }
            (true, 1, l) if is_numeric(l) => {
                let t = spell(Ty { mods: Mods(0), layer: l })?;
                locals.push_str(&format!("    const {} a{} = ({})0;\n", t, i, t));
                exprs.push(format!("a{}", i));
            }
            _ => return None,
        }
    }
    if !members.is_empty() {
        s.push_str(&format!("struct W {{{} }};\n", members));
        locals.push_str("    W w;\n");
    }
    let fname: String = match &opts.path {
        Path::Intrinsic(n) | Path::Object(_, n) => n.clone(),
        _ => "f".to_string(),
    };
    let in_struct = matches!(opts.path, Path::Method | Path::MethodIntFirst | Path::MethodIntLast | Path::TStruct);
    if let Path::Object(k, _) = &opts.path {
        if cands.iter().any(is_user) {
            return None;
        }
        s.push_str(&format!("{} g_obj;\n", OBJECTS.get(*k as usize)?));
    }
    // candidate declarations
    let mut decls: Vec<String> = Vec::new();
    let mut defs: Vec<String> = Vec::new();
    for c in cands.iter().filter(|c| is_user(c)) {
        let (decl, def) = cand_decl(c, &fname, in_struct)?;
        decls.push(decl);
        if let Some(d) = def {
            defs.push(d);
        }
    }
    if opts.with_defs {
        if in_struct || cands.iter().any(|c| !c.tkinds.is_empty()) {
            return None;
        }
        // every candidate is declared above and *defined* here in the reverse order: a definition must attach to
        // its declaration (scopes.rs check_existing_functions_in_scope) and neither duplicate nor reorder the set
        for d in defs.iter().rev() {
            decls.push(d.clone());
        }
    }
    // the call
    let mut callee = fname.clone();
    if !opts.targs.is_empty() {
        let mut ts = Vec::new();
        for t in &opts.targs {
            ts.push(match t {
                None => "2".to_string(),
                Some(t) => spell(*t)?,
            });
        }
        callee = format!("{}<{}>", callee, ts.join(", "));
    }
    let qualified = match opts.path {
        Path::Method | Path::TStruct => format!("s.{}", callee),
        Path::Ns | Path::NsSplit => format!("N::{}", callee),
        Path::Object(..) => format!("g_obj.{}", callee),
        Path::NsAbsolute => format!("::{}", callee),
        _ => callee,
    };
    let call = format!("{}({})", qualified, exprs.join(", "));
    let stmt = match expect {
        Some(r) => format!("    assert_type<R{}>({});\n", r, call),
        None => format!("    {};\n", call),
    };
    // the hidden exactly matching overload of the O / K paths
    let mut decoy = String::new();
    if hidden {
        let mut ps = Vec::new();
        for (i, a) in args.iter().enumerate() {
            let l = match a.ty.layer {
                Layer::Scalar(S_INTLIT) => Layer::Scalar(2),
                Layer::Scalar(S_FLOATLIT) => Layer::Scalar(6),
                l => l,
            };
            let (t, suf) = spell2(Ty { mods: Mods(0), layer: l })?;
            ps.push(format!("{} p{}{}", t, i, suf));
        }
        decoy = format!("R99 f({});\n", ps.join(", "));
    }
    let caller = |name: &str, pre: &str| format!("void {}() {{\n{}{}{}}}\n", name, pre, locals, stmt);
    match opts.path {
        Path::Free | Path::Intrinsic(_) | Path::Object(..) => {
            for d in &decls {
                s.push_str(d);
            }
            s.push_str(&caller("main", ""));
        }
        Path::Method => {
            s.push_str(&format!("struct S {{\n{}}};\n", decls.concat()));
            s.push_str(&caller("main", "    S s;\n"));
        }
        Path::TStruct => {
            s.push_str(&format!("template<typename W> struct S {{\n{}}};\n", decls.concat()));
            s.push_str(&caller("main", "    S<int> s;\n"));
        }
        Path::MethodIntFirst => {
            s.push_str(&format!("struct S {{\n{}{}}};\nvoid main() {{ S s; s.g(); }}\n", caller("g", ""), decls.concat()));
        }
        Path::MethodIntLast => {
            s.push_str(&format!("struct S {{\n{}{}}};\nvoid main() {{ S s; s.g(); }}\n", decls.concat(), caller("g", "")));
        }
        Path::Ns => {
            s.push_str(&format!("namespace N {{\n{}}}\n", decls.concat()));
            s.push_str(&caller("main", ""));
        }
        Path::NsSplit => {
            let h = decls.len().div_ceil(2);
            s.push_str(&format!("namespace N {{\n{}}}\n", decls[..h].concat()));
            s.push_str("struct Between { int q; };\n");
            s.push_str(&format!("namespace N {{\n{}}}\n", decls[h..].concat()));
            s.push_str(&caller("main", ""));
        }
        Path::NsInner => {
            s.push_str(&decoy);
            s.push_str(&format!("namespace N {{\n{}{}}}\nvoid main() {{ N::g(); }}\n", decls.concat(), caller("g", "")));
        }
        Path::NsAbsolute => {
            for d in &decls {
                s.push_str(d);
            }
            s.push_str(&format!("namespace N {{\n{}{}}}\nvoid main() {{ N::g(); }}\n", decoy, caller("g", "")));
        }
        Path::NsNested => {
            s.push_str(&format!(
                "namespace N {{\n{}namespace K {{\n{}{}}}\n}}\nvoid main() {{ N::K::g(); }}\n",
                decoy,
                decls.concat(),
                caller("g", "")
            ));
        }
    }
    Some(s)
}

/// an explicit or deduced template argument as observed
fn show_targs(t: &[String]) -> String {
    t.join("+")
}

#[derive(Clone, PartialEq, Eq, Debug)]
enum Verdict {
    /// selected candidate and, for a template, the template arguments of the instantiation that is called
    Sel(u32, Option<Vec<String>>),
    Amb(Vec<u32>),
    Unmatched,
    /// an overload was selected and the call then refused by `check_output_arguments`:
    /// true = `LvalueRequired`, false = `MutableRequired`
    Refused(bool),
    /// `UnknownIdentifier`: no scope the lookup reaches knows the name (sequences only)
    NoName,
    /// the name denotes a type where the call stands (a scope without a function of the name declares a struct / enum /
    /// typedef of it): the call is refused as not being a call of a function (sequences only)
    IsType,
    /// the call is refused, and the type checker does not say how: a call in a method body of a struct template is reported
    /// at the use of the template as "identifier .. is not expected to be a type" (sequences only)
    Rejected,
    Panic(String),
    Other(String),
}

fn show_verdict(v: &Verdict) -> String {
    match v {
        Verdict::Sel(i, None) => format!("sel {}", i),
        Verdict::Sel(i, Some(t)) => format!("sel {}<{}>", i, show_targs(t)),
        Verdict::Amb(ids) => format!("amb {}", ids.iter().map(|i| i.to_string()).collect::<Vec<_>>().join(",")),
        Verdict::Unmatched => "none".into(),
        Verdict::Refused(true) => "lvreq".into(),
        Verdict::Refused(false) => "mutreq".into(),
        Verdict::NoName => "noname".into(),
        Verdict::IsType => "type".into(),
        Verdict::Rejected => "rej".into(),
        Verdict::Panic(_) => "panic".into(),
        Verdict::Other(e) => format!("error:{}", e),
    }
}

/// what the type checker said, structurally
enum Checked {
    Ok(ir::Module),
    /// `AssertTypeFailed(_, expected, received)`
    AssertFailed(ir::Module, ir::TypeId),
    /// `FunctionArgumentTypeMismatch(overloads, _, _, ambiguous)`
    Mismatch(ir::Module, Vec<ir::FunctionId>, bool),
    /// `LvalueRequired(_)` (true) / `MutableRequired(_)` (false)
    PlaceRefused(bool),
    /// `UnknownIdentifier(_)`
    Unknown(String),
    /// `ConstructorWrongArgumentCount` / `WrongTypeInConstructor`: the callee was taken for a type
    Constructor,
    Other(String),
}

fn type_check_src(src: &str) -> Checked {
    use rssl::text::CompileErrorExt;
    let mut sm = rssl::text::SourceManager::new();
    let mut inc = MemFiles(vec![("main.rssl".to_string(), src.to_string())]);
    let tokens = match rssl::preprocess::preprocess("main.rssl", &mut sm, &mut inc, &[]) {
        Ok(t) => t,
        Err(e) => return Checked::Other(format!("preprocess:{}", one_line(&format!("{}", e.display(&sm))))),
    };
    let tokens = rssl::preprocess::prepare_tokens(&tokens);
    let ast = match rssl::parser::parse(&tokens) {
        Ok(a) => a,
        Err(e) => {
            let t = format!("{}", e.display(&sm));
            return Checked::Other(format!("parse:{}", t.lines().next().unwrap_or("")));
        }
    };
    match rssl::typer::type_check(&ast) {
        Ok(ir) => Checked::Ok(ir),
        Err(e) => {
            let text = format!("{}", e.display(&sm));
            let first = text.lines().next().unwrap_or("").to_string();
            match e.0 {
                rssl::typer::TyperError::AssertTypeFailed(_, _, received) => Checked::AssertFailed(e.1.module, received),
                rssl::typer::TyperError::FunctionArgumentTypeMismatch(ids, _, _, amb) => Checked::Mismatch(e.1.module, ids, amb),
                // the generated programs write to nothing but the call's out / inout arguments
                rssl::typer::TyperError::LvalueRequired(_) => Checked::PlaceRefused(true),
                rssl::typer::TyperError::MutableRequired(_) => Checked::PlaceRefused(false),
                rssl::typer::TyperError::UnknownIdentifier(_) => Checked::Unknown(format!("type:{}", first)),
                rssl::typer::TyperError::ConstructorWrongArgumentCount(_) | rssl::typer::TyperError::WrongTypeInConstructor(_) => {
                    Checked::Constructor
                }
                _ => Checked::Other(format!("type:{}", first)),
            }
        }
    }
}

/// the first call of a function named `name` in an expression
fn call_in_expr(e: &ir::Expression, module: &ir::Module, name: &str) -> Option<ir::FunctionId> {
    use ir::Expression as E;
    match e {
        E::Call(id, _, args) => {
            if module.function_registry.get_function_name(*id) == name {
                return Some(*id);
            }
            args.iter().find_map(|a| call_in_expr(a, module, name))
        }
        E::TernaryConditional(a, b, c) => [a, b, c].iter().find_map(|x| call_in_expr(x, module, name)),
        E::Sequence(v) | E::IntrinsicOp(_, v) => v.iter().find_map(|x| call_in_expr(x, module, name)),
        E::Swizzle(a, _) | E::MatrixSwizzle(a, _) | E::StructMember(a, _, _) | E::ObjectMember(a, _) | E::Cast(_, a) => {
            call_in_expr(a, module, name)
        }
        E::ArraySubscript(a, b) => call_in_expr(a, module, name).or_else(|| call_in_expr(b, module, name)),
        E::Constructor(_, slots) => slots.iter().find_map(|s| call_in_expr(&s.expr, module, name)),
        _ => None,
    }
}

fn call_in_block(b: &ir::ScopeBlock, module: &ir::Module, name: &str) -> Option<ir::FunctionId> {
    for st in &b.0 {
        let r = match &st.kind {
            ir::StatementKind::Expression(e) => call_in_expr(e, module, name),
            ir::StatementKind::Block(b) => call_in_block(b, module, name),
            _ => None,
        };
        if r.is_some() {
            return r;
        }
    }
    None
}

/// the function the program's one call of `name` was resolved to (searched in `main` and `g`)
fn find_call(module: &ir::Module, name: &str) -> Option<ir::FunctionId> {
    for id in module.function_registry.iter() {
        let n = module.function_registry.get_function_name(id);
        if n != "main" && n != "g" {
            continue;
        }
        if let Some(imp) = module.function_registry.get_function_implementation(id) {
            if let Some(f) = call_in_block(&imp.scope_block, module, name) {
                return Some(f);
            }
        }
    }
    None
}

/// `R<n>` -> n
fn result_struct(module: &ir::Module, ty: ir::TypeId) -> Option<u32> {
    let base = module.type_registry.remove_modifier(ty);
    match module.type_registry.get_type_layer(base) {
        ir::TypeLayer::Struct(sid) => {
            let n = &module.struct_registry[sid.0 as usize].name.node;
            n.strip_prefix('R')?.parse().ok()
        }
        _ => None,
    }
}

/// the overloads the compiler itself contributes for the `A` / `B` paths, in the order they are handed to
/// `find_function_type`: (function id, candidate with id 1000 + k)
fn builtin_cands(module: &mut ir::Module, path: &Path) -> Option<Vec<(ir::FunctionId, Cand)>> {
    let fids: Vec<ir::FunctionId> = match path {
        Path::Intrinsic(name) => module
            .function_registry
            .iter()
            .filter(|id| {
                module.function_registry.get_function_name(*id) == name
                    && module.function_registry.get_intrinsic_data(*id).is_some()
                    && module.function_registry.get_template_instantiation_data(*id).is_none()
                    && module.function_registry.get_function_name_definition(*id).namespace.is_none()
            })
            .collect(),
        Path::Object(k, name) => {
            let ot = object_type(*k, module)?;
            let oid = module.register_object(ot);
            module
                .type_registry
                .get_object_functions(oid)
                .iter()
                .copied()
                .filter(|id| module.function_registry.get_function_name(*id) == name)
                .collect()
        }
        _ => return Some(Vec::new()),
    };
    let mut out = Vec::new();
    for (k, fid) in fids.iter().enumerate() {
        let sig = module.function_registry.get_function_signature(*fid);
        let tkinds: Vec<bool> = sig.template_params.iter().map(|t| matches!(t, ir::TemplateParam::Type(_))).collect();
        let mut params = Vec::new();
        for p in &sig.param_types {
            let io = match p.input_modifier {
                ir::InputModifier::In => Io::In,
                ir::InputModifier::Out => Io::Out,
                ir::InputModifier::InOut => Io::InOut,
            };
            params.push(Param { io, ty: describe_in(module, p.type_id, true)? });
        }
        out.push((*fid, Cand { id: 1000 + k as u32, non_default: sig.non_default_params, params, tkinds }));
    }
    Some(out)
}

/// candidate id of a function of a checked module: user functions by their result struct, the compiler's own
/// overloads by their position
fn cand_of(module: &ir::Module, fid: ir::FunctionId, builtins: &[(ir::FunctionId, Cand)]) -> Option<(u32, Option<Vec<String>>)> {
    let (parent, targs) = match module.function_registry.get_template_instantiation_data(fid) {
        Some(inst) => {
            let mut v = Vec::new();
            for a in &inst.template_args {
                v.push(match a {
                    ir::TypeOrConstant::Type(t) => show_ty(describe_in(module, *t, true)?),
                    ir::TypeOrConstant::Constant(_) => "#".to_string(),
                });
            }
            (inst.parent_id, Some(v))
        }
        None => (fid, None),
    };
    if let Some((_, c)) = builtins.iter().find(|(f, _)| *f == parent) {
        return Some((c.id, targs));
    }
    let sig = module.function_registry.get_function_signature(parent);
    Some((result_struct(module, sig.return_type.return_type)?, targs))
}

/// compile one declaration order and read the verdict off the type checker's result
fn run_program(cands: &[Cand], args: &[ETy], opts: &Opts) -> Option<Verdict> {
    let fname: String = match &opts.path {
        Path::Intrinsic(n) | Path::Object(_, n) => n.clone(),
        _ => "f".to_string(),
    };
    // the compiler's own overloads have no result struct to assert on
    let first = match opts.path {
        Path::Intrinsic(_) | Path::Object(..) => None,
        _ => cands.iter().filter(|c| is_user(c)).map(|c| c.id).min(),
    };
    let src = program(cands, args, opts, first)?;
    let is_template = |id: u32| cands.iter().any(|c| c.id == id && !c.tkinds.is_empty());
    let from_ok = |m: &mut ir::Module| -> Verdict {
        let builtins = builtin_cands(m, &opts.path).unwrap_or_default();
        match find_call(m, &fname).and_then(|f| cand_of(m, f, &builtins)) {
            Some((id, t)) => Verdict::Sel(id, if is_template(id) { t } else { None }),
            None => Verdict::Other("accepted, but the call is not in the module".into()),
        }
    };
    let v = match guard(|| type_check_src(&src)) {
        Err(p) => Verdict::Panic(p),
        Ok(Checked::Ok(mut m)) => {
            let v = from_ok(&mut m);
            match (&v, first) {
                (Verdict::Sel(id, _), Some(f)) if *id != f => {
                    Verdict::Other(format!("assert_type<R{}> accepted a call of candidate {}", f, id))
                }
                _ => v,
            }
        }
        Ok(Checked::AssertFailed(m, received)) => match result_struct(&m, received) {
            Some(n) if is_template(n) => {
                // compile again with the right expectation to see the instantiation that is called
                let src2 = program(cands, args, opts, Some(n))?;
                match guard(|| type_check_src(&src2)) {
                    Err(p) => Verdict::Panic(p),
                    Ok(Checked::Ok(mut m2)) => match from_ok(&mut m2) {
                        Verdict::Sel(id, t) if id == n => Verdict::Sel(id, t),
                        other => Verdict::Other(format!("second run disagrees: {}", show_verdict(&other))),
                    },
                    Ok(_) => Verdict::Other(format!("assert_type<R{}> rejected after R{} was reported", n, n)),
                }
            }
            Some(n) => Verdict::Sel(n, None),
            None => Verdict::Other("assert_type failed with a type that is no candidate's result".into()),
        },
        Ok(Checked::Mismatch(mut m, ids, amb)) => {
            let builtins = builtin_cands(&mut m, &opts.path).unwrap_or_default();
            // only a mismatch of the call under test counts
            let ours = ids.first().map(|f| m.function_registry.get_function_name(*f) == fname).unwrap_or(true);
            if !ours {
                Verdict::Other("mismatch reported for another call".into())
            } else if amb {
                let mut out = Vec::new();
                for f in &ids {
                    match cand_of(&m, *f, &builtins) {
                        Some((id, _)) => out.push(id),
                        None => return Some(Verdict::Other("ambiguity names an unknown function".into())),
                    }
                }
                out.sort();
                Verdict::Amb(out)
            } else {
                Verdict::Unmatched
            }
        }
        Ok(Checked::PlaceRefused(lv)) => Verdict::Refused(lv),
        Ok(Checked::Unknown(e)) | Ok(Checked::Other(e)) => Verdict::Other(e),
        Ok(Checked::Constructor) => Verdict::Other("the callee was taken for a type".into()),
    };
    Some(v)
}


// ------------------------------------------------------------------------------------------- oracle
//
// The oracle reads the property, not the implementation: which candidates are *viable* is not defined by the
// property, so that one bit per (argument, parameter) is taken from the real `ImplicitConversion::find(..).is_ok()`;
// how *good* a conversion is ("exactly equal types", "converts an argument better / worse") is computed here from
// the declared parameter type and the argument type alone, with the priority table in the comment at the top of
// casting.rs written out by hand - `get_rank` is not consulted.

/// tier of converting scalar kind `src` to `dst` for one argument (smaller = better); rows of the table at the top of
/// casting.rs.  Only tiers of one row (one argument) are ever compared.
fn scalar_tier(src: u8, dst: u8) -> u32 {
    // 0 Bool, 1 IntLiteral, 2 Int32, 3 UInt32, 4 FloatLiteral, 5 Float16, 6 Float32, 7 Float64
    if src == dst {
        return 0;
    }
    match src {
        // bool                 bool     -> uint/int/half/float/double
        0 => 1,
        // untyped int literal:             uint/int              -> bool -> half/float/double
        1 => match dst {
            2 | 3 => 0,
            0 => 1,
            _ => 2,
        },
        // int                  int      -> uint                  -> bool -> half/float/double
        2 => match dst {
            3 | 1 => 1,
            0 => 2,
            _ => 3,
        },
        // uint                 uint     -> int                   -> bool -> half/float/double
        3 => match dst {
            2 | 1 => 1,
            0 => 2,
            _ => 3,
        },
        // untyped float literal (not in the table; reads like the int literal): half/float/double -> bool/int/uint
        4 => match dst {
            5 | 6 | 7 => 0,
            _ => 1,
        },
        // half:                half     -> float    -> double            -> bool/int/uint
        5 => match dst {
            6 => 1,
            7 | 4 => 2,
            _ => 3,
        },
        // float:               float    -> double                        -> bool/int/uint/half
        6 => match dst {
            7 | 4 => 1,
            _ => 2,
        },
        // double:              double                                    -> bool/int/uint/float/half
        _ => 1,
    }
}

/// (numeric tier, dimension tier) of passing an argument of layer `a` for a parameter of layer `p`;
/// dimension: 0 same shape (a 1-vector counts as a scalar), 1 a scalar spread over a vector / matrix, 2 elements dropped
fn quality(a: Layer, p: Layer) -> (u32, u32) {
    if a == p {
        return (0, 0);
    }
    let num = match (a, p) {
        (Layer::Enum(_), _) => 10,
        _ if is_numeric(a) && is_numeric(p) => scalar_tier(scalar_of(a), scalar_of(p)),
        _ => 20,
    };
    let width = |l: Layer| match l {
        Layer::Scalar(_) | Layer::Enum(_) => 1,
        Layer::Vector(_, n) => n,
        Layer::Matrix(_, x, y) => 100 * x + y,
        _ => 0,
    };
    let (wa, wp) = (width(a), width(p));
    let dim = if wa == wp {
        0
    } else if wa == 1 {
        1
    } else {
        2
    };
    (num, dim)
}

struct Judged {
    /// per viable candidate: id and per-argument (numeric tier, dimension tier)
    viable: Vec<(u32, Vec<(u32, u32)>)>,
    exact: Vec<u32>,
    /// a panic of `ImplicitConversion::find` itself while the set was judged
    panic: Option<String>,
    /// viable candidates with an `out` / `inout` parameter whose (bound) type is not the type of its argument
    out_converted: Vec<u32>,
    /// viable candidates with an `out` / `inout` parameter whose argument has a const type
    out_const: Vec<u32>,
    /// viable candidates that meet a 1-vector (in an argument they receive or in the parameter that receives it): outside
    /// the property's quantifier ({scalar, 2,3,4-vectors}); the oracle's conversion-quality table says nothing about
    /// `int1 -> half1` against `int1 -> double` (the code ranks the former Conversion/Expand, the latter
    /// Conversion/Exact: reading 14 in notes/C16.md), so such a candidate takes no part in the domination judgement
    off_grid: Vec<u32>,
}

fn has_vec1(l: Layer) -> bool {
    matches!(l, Layer::Vector(_, 1) | Layer::TVec(_, 1) | Layer::Matrix(_, 1, _) | Layer::Matrix(_, _, 1) | Layer::TMat(_, 1, _) | Layer::TMat(_, _, 1))
}

fn param_ety(p: Param) -> ETy {
    ETy { lvalue: p.io != Io::In, ty: p.ty }
}

/// the oracle's reading of template argument deduction: explicit arguments first; `Tk` is the type of the first argument
/// whose parameter mentions it (qualifiers dropped, an untyped literal is an int / a float); `vector<Tk, n>` only
/// matches an unqualified n-vector.  None = the candidate cannot be called this way.
fn bind_templates(c: &Cand, args: &[ETy], explicit: &[Option<Ty>]) -> Option<Vec<Param>> {
    if c.tkinds.is_empty() {
        return if explicit.is_empty() { Some(c.params.clone()) } else { None };
    }
    if explicit.len() > c.tkinds.len() {
        return None;
    }
    let norm = |l: Layer| match l {
        Layer::Scalar(S_INTLIT) => Layer::Scalar(2),
        Layer::Scalar(S_FLOATLIT) => Layer::Scalar(6),
        l => l,
    };
    let mut bound: Vec<Option<Layer>> = Vec::new();
    for (k, is_type) in c.tkinds.iter().enumerate() {
        if k < explicit.len() {
            match (&explicit[k], is_type) {
                (Some(t), true) => bound.push(Some(norm(t.layer))),
                (None, false) => bound.push(None),
                _ => return None,
            }
            continue;
        }
        if !is_type {
            return None;
        }
        let mut found = None;
        for (p, a) in c.params.iter().zip(args) {
            let got = match (p.ty.layer, a.ty.layer) {
                (Layer::TVar(j), l) if j as usize == k => Some(norm(l)),
                (Layer::TVec(j, n), Layer::Vector(s, m)) if j as usize == k && n == m && a.ty.mods.0 == 0 => Some(Layer::Scalar(s)),
                (Layer::TMat(j, x, y), Layer::Matrix(s, x2, y2)) if j as usize == k && x == x2 && y == y2 && a.ty.mods.0 == 0 => {
                    Some(Layer::Scalar(s))
                }
                (Layer::TArr(j, n), Layer::Other(i)) if j as usize == k && (100..200).contains(&i) && (i - 100) % 10 == n && a.ty.mods.0 == 0 => {
                    Some(Layer::Scalar(((i - 100) / 10) as u8))
                }
                _ => None,
            };
            if got.is_some() {
                found = got;
                break;
            }
        }
        bound.push(Some(found?));
    }
    let mut out = Vec::new();
    for p in &c.params {
        let get = |k: u8| bound.get(k as usize).copied().flatten();
        let layer = match p.ty.layer {
            Layer::TVar(k) => get(k)?,
            Layer::TVec(k, n) => match get(k)? {
                Layer::Scalar(s) => Layer::Vector(s, n),
                _ => return None, // "vector of a vector": judged separately (expected panic)
            },
            Layer::TMat(k, x, y) => match get(k)? {
                Layer::Scalar(s) => Layer::Matrix(s, x, y),
                _ => return None,
            },
            Layer::TArr(k, n) => match get(k)? {
                Layer::Scalar(s) if (1..10).contains(&n) => Layer::Other(100 + 10 * s as u32 + n),
                _ => return None,
            },
            l => l,
        };
        out.push(Param { io: p.io, ty: Ty { mods: Mods(0), layer } });
    }
    Some(out)
}

fn judge_set(real: &mut Real, cands: &[Cand], args: &[ETy], explicit: &[Option<Ty>]) -> Judged {
    let mut j = Judged { viable: Vec::new(), exact: Vec::new(), panic: None, out_converted: Vec::new(), out_const: Vec::new(), off_grid: Vec::new() };
    // "a candidate whose parameter types equal the argument types exactly" is judged wherever type equality is what
    // the words say; with 1-vectors (`int` -> `int1` is as good as `int` -> `int`, see notes/C16.md) it is not.
    let judge_exact = !cands.iter().any(|c| c.params.iter().any(|p| has_vec1(p.ty.layer))) && !args.iter().any(|a| has_vec1(a.ty.layer));
    for c in cands {
        if !(args.len() <= c.params.len() && args.len() >= c.non_default) {
            continue;
        }
        let Some(params) = bind_templates(c, args, explicit) else {
            continue;
        };
        let mut ranks = Vec::new();
        let mut ok = true;
        for (p, a) in params.iter().zip(args) {
            match real.rank(*a, param_ety(*p)) {
                Err(pn) => {
                    j.panic = Some(pn);
                    ok = false;
                    break;
                }
                Ok(None) => {
                    ok = false;
                    break;
                }
                Ok(Some(_)) => ranks.push(quality(a.ty.layer, p.ty.layer)),
            }
        }
        if !ok {
            continue;
        }
        // exact: every passed argument's type equals the type of its parameter (the value category and
        // const-ness of the argument expression are not part of its type; trailing defaulted parameters that
        // receive no argument take no part in the comparison, as in C++)
        if judge_exact && params.iter().zip(args).all(|(p, a)| p.ty.layer == a.ty.layer) {
            j.exact.push(c.id);
        }
        // "an out or inout argument can not be the result of a conversion": the argument has to *be* of the
        // parameter's type (qualifiers included), and it has to be writable
        if params.iter().zip(args).any(|(p, a)| p.io != Io::In && p.ty != a.ty) {
            j.out_converted.push(c.id);
        }
        if params.iter().zip(args).any(|(p, a)| p.io != Io::In && a.ty.mods.0 & 1 != 0) {
            j.out_const.push(c.id);
        }
        if params.iter().zip(args).any(|(p, a)| has_vec1(p.ty.layer) || has_vec1(a.ty.layer)) {
            j.off_grid.push(c.id);
        }
        j.viable.push((c.id, ranks));
    }
    j
}

/// a viable candidate that converts no argument worse than `id` and at least one better (the oracle's own table)
fn dominated_by(j: &Judged, id: u32) -> Option<u32> {
    let (_, mine) = j.viable.iter().find(|(i, _)| *i == id)?;
    if j.off_grid.contains(&id) {
        return None;
    }
    for (d, theirs) in &j.viable {
        if *d == id || j.off_grid.contains(d) {
            continue;
        }
        let no_worse = theirs.iter().zip(mine).all(|(t, m)| t <= m);
        let better = theirs.iter().zip(mine).any(|(t, m)| t < m);
        if no_worse && better {
            return Some(*d);
        }
    }
    None
}

/// the property's own checks on one verdict; Ok or the failure detail
fn oracle(j: &Judged, v: &Verdict) -> Result<(), String> {
    if let Verdict::Panic(p) = v {
        return Err(format!("panic {}", p));
    }
    if let Some(p) = &j.panic {
        return Err(format!("panic {}", p));
    }
    if let Verdict::Other(e) = v {
        return Err(format!("unexpected diagnostic: {}", e));
    }
    match v {
        Verdict::Sel(id, _) => {
            if *id == 99 {
                return Err("a candidate hidden by an inner scope was selected".to_string());
            }
            if !j.viable.iter().any(|(i, _)| i == id) {
                return Err(format!("selected candidate {} is not viable (an argument has no implicit conversion)", id));
            }
            if !j.exact.is_empty() && !j.exact.contains(id) {
                return Err(format!("candidate {:?} matches exactly but {} was selected", j.exact, id));
            }
            if let Some(d) = dominated_by(j, *id) {
                return Err(format!("selected candidate {} is dominated by viable candidate {}", id, d));
            }
            if j.out_converted.contains(id) {
                return Err(format!("accepted call of candidate {} converts an argument given for an out / inout parameter", id));
            }
            if j.out_const.contains(id) {
                return Err(format!("accepted call of candidate {} passes a const object for an out / inout parameter", id));
            }
        }
        Verdict::Refused(lvalue) => {
            // neither selected, ambiguous nor unmatched: legitimate only as the refusal of an output argument of a
            // candidate that could have been the selected one
            if !j.exact.is_empty() {
                return Err(format!("candidate {:?} matches exactly but the call is refused for an output argument", j.exact));
            }
            let pool = if *lvalue { &j.out_converted } else { &j.out_const };
            if !pool.iter().any(|id| dominated_by(j, *id).is_none()) {
                return Err(format!(
                    "call refused (`{}`) but no undominated viable candidate {}",
                    if *lvalue { "lvalue is required" } else { "non-const is required" },
                    if *lvalue { "converts an output argument" } else { "receives a const output argument" }
                ));
            }
        }
        Verdict::Amb(ids) => {
            if j.exact.len() == 1 {
                return Err(format!("candidate {} matches exactly but the call is ambiguous {:?}", j.exact[0], ids));
            }
            for e in &j.exact {
                if !ids.contains(e) {
                    return Err(format!("exact candidates {:?} but ambiguity reported between {:?}", j.exact, ids));
                }
            }
            for i in ids {
                if !j.viable.iter().any(|(v, _)| v == i) {
                    return Err(format!("ambiguity names candidate {} which is not viable", i));
                }
            }
        }
        Verdict::Unmatched => {
            if !j.exact.is_empty() {
                return Err(format!("candidate {:?} matches exactly but the call is unmatched", j.exact));
            }
        }
        _ => {}
    }
    Ok(())
}


// ------------------------------------------------------------------------------------------- running

fn permutations(n: usize) -> Vec<Vec<usize>> {
    fn rec(cur: &mut Vec<usize>, used: &mut Vec<bool>, n: usize, out: &mut Vec<Vec<usize>>) {
        if cur.len() == n {
            out.push(cur.clone());
            return;
        }
        for i in 0..n {
            if !used[i] {
                used[i] = true;
                cur.push(i);
                rec(cur, used, n, out);
                cur.pop();
                used[i] = false;
            }
        }
    }
    let mut out = Vec::new();
    rec(&mut Vec::new(), &mut vec![false; n], n, &mut out);
    out
}

struct Group {
    /// verdict per declaration order (key = the ids in order)
    verdicts: Vec<(Vec<u32>, Verdict)>,
    judged: Judged,
    expressible: bool,
    /// the compiler's own overloads of the `A` / `B` paths, as read from the function registry
    builtins: Vec<Cand>,
}

struct Runner {
    real: Real,
    cache: HashMap<String, Group>,
    /// C16.seq: verdict of the one-call program per (candidate set, arguments, options)
    refs: HashMap<String, Option<Verdict>>,
    hist: Hist,
    compiles: u64,
}

impl Runner {
    fn new() -> Self {
        Runner { real: Real::new(), cache: HashMap::new(), refs: HashMap::new(), hist: Hist::default(), compiles: 0 }
    }

    /// the compiler's own overloads for a path (empty for the other paths); None = not describable
    fn builtins(path: &Path) -> Option<Vec<Cand>> {
        match path {
            Path::Intrinsic(_) | Path::Object(..) => {
                let mut m = ir::Module::create();
                Some(builtin_cands(&mut m, path)?.into_iter().map(|(_, c)| c).collect())
            }
            _ => Some(Vec::new()),
        }
    }

    /// run every permutation of the user-declared candidates (capped for sets larger than 5); the compiler's own
    /// overloads always come first, in registry order
    fn group(&mut self, sorted_users: &[Cand], args: &[ETy], opts: &Opts) -> &Group {
        let key = format!("{}\t{}\t{}", show_cands(sorted_users), show_args(args), show_opts(opts));
        if !self.cache.contains_key(&key) {
            let builtins = Self::builtins(&opts.path);
            let mut expressible = builtins.is_some();
            let builtins = builtins.unwrap_or_default();
            let mut all = builtins.clone();
            all.extend(sorted_users.iter().cloned());
            let judged = judge_set(&mut self.real, &all, args, &opts.targs);
            let mut verdicts = Vec::new();
            let n = sorted_users.len();
            let perms = if n <= 5 { permutations(n) } else { vec![(0..n).collect(), (0..n).rev().collect()] };
            if expressible {
                for p in perms {
                    let mut order: Vec<Cand> = builtins.clone();
                    order.extend(p.iter().map(|i| sorted_users[*i].clone()));
                    let Some(v) = run_program(&order, args, opts) else {
                        expressible = false;
                        break;
                    };
                    self.compiles += 1;
                    verdicts.push((order.iter().map(|c| c.id).collect(), v));
                }
            }
            if self.cache.len() > 4096 {
                self.cache.clear();
            }
            self.cache.insert(key.clone(), Group { verdicts, judged, expressible, builtins });
        }
        &self.cache[&key]
    }

    /// one request (one declaration order); the oracle looks at the whole permutation group
    fn resolve_case(&mut self, cands: &[Cand], args: &[ETy], opts: &Opts, out: &mut Out) {
        let o = show_opts(opts);
        let req = format!("C16.resolve\t{}\t{}{}{}", show_cands(cands), show_args(args), if o.is_empty() { "" } else { "\t" }, o);
        let mut sorted: Vec<Cand> = cands.iter().filter(|c| is_user(c)).cloned().collect();
        sorted.sort();
        let given_builtins: Vec<Cand> = cands.iter().filter(|c| !is_user(c)).cloned().collect();
        let ids: Vec<u32> = cands.iter().map(|c| c.id).collect();
        let g = self.group(&sorted, args, opts);
        if !g.expressible || cands.is_empty() {
            out.case(&req, "-", "SKIP:not expressible as an RSSL program");
            return;
        }
        if g.builtins != given_builtins {
            out.case(&req, "-", "SKIP:the request's compiler-provided overloads are not the ones of this compiler");
            return;
        }
        let Some((_, mine)) = g.verdicts.iter().find(|(o, _)| *o == ids) else {
            out.case(&req, "-", "SKIP:declaration order not part of the permutation group");
            return;
        };
        let mine = mine.clone();
        let mine = &mine;
        let mut verdict = oracle(&g.judged, mine);
        let judged_counts = (g.judged.viable.len(), g.judged.exact.len());
        let group_verdicts: Vec<(Vec<u32>, Verdict)> = g.verdicts.clone();
        if verdict.is_ok() && opts.form != 0 {
            // "depends only on ... the argument types": the same types written as other expressions
            let base = Opts { form: 0, ..opts.clone() };
            let g0 = self.group(&sorted, args, &base);
            if g0.expressible {
                if let Some((_, v0)) = g0.verdicts.iter().find(|(o, _)| *o == ids) {
                    if show_verdict(v0) != show_verdict(mine) {
                        verdict = Err(format!(
                            "the verdict depends on how the arguments are written, not on their types: `{}` here, `{}` with locals",
                            show_verdict(mine),
                            show_verdict(v0)
                        ));
                    }
                }
            }
        }
        if verdict.is_ok() {
            // order independence: every other declaration order gives the same verdict
            // (a panic under any order is reported on every line of the group)
            for (o, v) in &group_verdicts {
                if let Verdict::Panic(p) = v {
                    verdict = Err(format!("panic {}", p));
                    break;
                }
                if show_verdict(v) != show_verdict(mine) {
                    verdict = Err(format!(
                        "order-dependent: declaration order {:?} gives `{}` but order {:?} gives `{}`",
                        ids,
                        show_verdict(mine),
                        o,
                        show_verdict(v)
                    ));
                    break;
                }
            }
        }
        let obs = show_verdict(mine);
        let kind = match mine {
            Verdict::Sel(..) => "verdict:selected",
            Verdict::Amb(_) => "verdict:ambiguous",
            Verdict::Unmatched => "verdict:unmatched",
            Verdict::Refused(true) => "verdict:refused-lvalue-required",
            Verdict::Refused(false) => "verdict:refused-non-const-required",
            Verdict::NoName => "verdict:unknown-name",
            Verdict::IsType => "verdict:name-denotes-a-type",
            Verdict::Rejected => "verdict:refused-without-a-reason",
            Verdict::Panic(_) => "verdict:panic",
            Verdict::Other(_) => "verdict:other-error",
        };
        let (nviable, nexact) = judged_counts;
        let sel_template = matches!(mine, Verdict::Sel(_, Some(_)));
        let o = match verdict {
            Ok(()) => "ok".to_string(),
            Err(e) => format!("FAIL:{}", e),
        };
        out.case(&req, &obs, &o);
        self.hist.add(kind);
        self.hist.add(&format!("viable:{}", nviable.min(9)));
        self.hist.add(&format!("exact:{}", nexact));
        self.hist.add(&format!("cands:{}", cands.len().min(9)));
        self.hist.add(&format!("args:{}", args.len()));
        self.hist.add(&format!(
            "path:{}",
            match &opts.path {
                Path::Free => "free",
                Path::Method => "method",
                Path::MethodIntFirst => "method-internal-caller-first",
                Path::MethodIntLast => "method-internal-caller-last",
                Path::TStruct => "method-of-struct-template",
                Path::Ns => "namespace-qualified",
                Path::NsSplit => "namespace-reopened",
                Path::NsInner => "namespace-inner-hides-root",
                Path::NsNested => "namespace-nested-hides-outer",
                Path::NsAbsolute => "absolute-name-skips-inner",
                Path::Intrinsic(_) => "intrinsic+user",
                Path::Object(..) => "object-method",
            }
        ));
        if !opts.targs.is_empty() {
            self.hist.add("call:explicit-template-args");
        }
        if opts.form != 0 {
            self.hist.add(&format!("call:argument-form-{}", opts.form));
        }
        if sel_template {
            self.hist.add("verdict:selected-template");
        }
        for a in args {
            self.hist.add(match (a.lvalue, a.ty.mods.0, a.ty.layer) {
                (_, _, Layer::Scalar(S_INTLIT)) => "arg:int-literal",
                (_, _, Layer::Scalar(S_FLOATLIT)) => "arg:float-literal",
                (true, 0, _) => "arg:lvalue",
                (true, _, _) => "arg:const-lvalue",
                (false, _, _) => "arg:rvalue",
            });
            self.hist.add(match a.ty.layer {
                Layer::Scalar(_) => "argty:scalar",
                Layer::Vector(_, 1) => "argty:vec1",
                Layer::Vector(..) => "argty:vector",
                Layer::Matrix(..) => "argty:matrix",
                Layer::Enum(_) => "argty:enum",
                Layer::Other(i) if i < 100 => "argty:struct",
                Layer::Other(i) if i < 200 => "argty:array",
                _ => "argty:object",
            });
        }
        for c in cands {
            for p in &c.params {
                self.hist.add(match p.io {
                    Io::In => "param:in",
                    Io::Out => "param:out",
                    Io::InOut => "param:inout",
                });
                if is_template_layer(p.ty.layer) {
                    self.hist.add("param:template-typed");
                }
            }
            if c.non_default < c.params.len() {
                self.hist.add("cand:has-default");
            }
            if !c.tkinds.is_empty() {
                self.hist.add("cand:template");
                if c.tkinds.iter().any(|k| !k) {
                    self.hist.add("cand:template-value-param");
                }
            }
            if !is_user(c) {
                self.hist.add("cand:compiler-provided");
            }
        }
    }

    fn all_orders(&mut self, users: &[Cand], args: &[ETy], opts: &Opts, out: &mut Out) {
        let Some(builtins) = Self::builtins(&opts.path) else {
            return;
        };
        for p in permutations(users.len()) {
            let mut order: Vec<Cand> = builtins.clone();
            order.extend(p.iter().map(|i| users[*i].clone()));
            self.resolve_case(&order, args, opts, out);
        }
    }

    fn conv_row(&mut self, src: ETy, dsts: &[ETy], out: &mut Out) {
        let req = format!(
            "C16.conv\t{}\t{}",
            show_ety(src),
            dsts.iter().map(|d| show_ety(*d)).collect::<Vec<_>>().join(" ")
        );
        let cells: Vec<String> = dsts.iter().map(|d| self.real.conv_cell(src, *d)).collect();
        // property-level sanity on the table: converting a type to itself (same value category) is the identity
        let mut verdict = "ok".to_string();
        for (d, c) in dsts.iter().zip(&cells) {
            if *d == src && !c.starts_with("Exact/Exact>") {
                verdict = format!("FAIL:identity conversion of {} is `{}`", show_ety(src), c);
            }
            self.hist.add(if c == "err" {
                "conv:err"
            } else if c.contains("panic") {
                "conv:panic"
            } else {
                "conv:ok"
            });
        }
        out.case(&req, &cells.join(" "), &verdict);
    }
}


// ------------------------------------------------------------------------------------------- sequences
//
// request : C16.seq \t item|item|... [\t P=M | P=A.<name>]
//             item = d~<scope>~<cand>          declare a candidate (scope 0 = the root scope / the struct, 1 = `namespace N`,
//                                              every such item in its own `namespace N { .. }` block); ordinary free functions
//                                              as prototypes, templates and methods with their bodies
//                  | r~<id>                    define the ordinary free function declared earlier with this id (a redeclaration)
//                  | c~<mode>~<args>~<targs>   a call site `void c<k>() { .. f(args) .. }` at this place of the source
//                  | h~<j>~<mode>~<args>       `template<typename Z> void h<j>(Z z) { .. f(args) .. }`: a call site in a template body
//                  | t~<j>~<i|f>               `void t<k>() { h<j>(0) }` / `h<j>(0.0)`: instantiates h<j><int> / h<j><float>
//             mode = how the call looks the name up: 0 from the root scope `f(..)`, 1 from the root scope `N::f(..)`,
//                    2 from inside `namespace N` `f(..)`, 3 from inside `namespace N` `::f(..)`
//                    (P=M: 0 from a sibling method at this place of the struct, 1 `s.f(..)` from a function after the struct)
//           One program holds the whole sequence; the call sites are bare calls.  A site that is refused would end the
//           compilation, so the verdicts are read one site at a time: the program with every declaration, the accepted
//           earlier sites and the site under test.
// observe : one verdict per c / t item, ` | ` separated: sel.. | amb.. | none | lvreq | mutreq | noname (no scope the lookup
//           reaches knows the name) | `=` (a trigger whose instance exists already: nothing is resolved again)
// oracle  : (independent of the Lean model) every site's verdict is judged, with the oracle of C16.resolve, on the set of
//           candidates *visible at the site* - declared above it in a scope the lookup reaches (all methods of the struct) - and
//           it equals the verdict of a separate program that declares exactly that set and then calls once: the verdict
//           depends on the visible set and the argument types only, not on what was called or declared in which order before.

#[derive(Clone, PartialEq, Eq, Debug)]
enum Item {
    Decl(u8, Cand),
    Define(u32),
    /// a later declaration of the ordinary free function declared earlier with this id whose parameters from `nd` on
    /// carry default values (the first declaration's own count is `Cand::non_default`); true = a definition, false = a prototype
    Redecl(u32, usize, bool),
    Site(u8, Vec<ETy>, Vec<Option<Ty>>),
    /// number, lookup mode, arguments of the call in the body, true = the body is a method of a struct template
    Helper(u32, u8, Vec<ETy>, bool),
    Trigger(u32, bool),
    /// a symbol that is not a function and carries the name of the overload set: scope, kind (`s` struct, `e` enum,
    /// `t` typedef, `b` cbuffer, `n` namespace)
    Other(u8, u8),
}

#[derive(Clone, PartialEq, Eq, Debug)]
enum SeqPath {
    Free,
    Method,
    /// methods of `template<typename W> struct S`, every call `S<int> s; s.f(..)` from a function after the struct
    TStruct,
    Intrinsic(String),
}

fn show_item(i: &Item) -> String {
    match i {
        Item::Decl(s, c) => format!("d~{}~{}", s, show_cand(c)),
        Item::Define(id) => format!("r~{}", id),
        Item::Redecl(id, nd, def) => format!("{}~{}~{}", if *def { "r" } else { "p" }, id, nd),
        Item::Site(m, a, t) => format!("c~{}~{}~{}", m, show_args(a), t.iter().map(show_targ).collect::<Vec<_>>().join("+")),
        Item::Helper(j, m, a, st) => format!("{}~{}~{}~{}", if *st { "s" } else { "h" }, j, m, show_args(a)),
        Item::Trigger(j, z) => format!("t~{}~{}", j, if *z { "f" } else { "i" }),
        Item::Other(sc, k) => format!("o~{}~{}", sc, *k as char),
    }
}

fn parse_args(s: &str) -> Option<Vec<ETy>> {
    if s.is_empty() { Some(Vec::new()) } else { s.split(',').map(parse_ety).collect() }
}

fn parse_item(s: &str) -> Option<Item> {
    let f: Vec<&str> = s.split('~').collect();
    match f.as_slice() {
        ["d", sc, c] => Some(Item::Decl(sc.parse().ok().filter(|x| *x <= 1)?, parse_cand(c)?)),
        ["r", id] => Some(Item::Define(id.parse().ok()?)),
        ["r", id, nd] => Some(Item::Redecl(id.parse().ok()?, nd.parse().ok()?, true)),
        ["p", id, nd] => Some(Item::Redecl(id.parse().ok()?, nd.parse().ok()?, false)),
        ["c", m, a, t] => {
            let mut targs = Vec::new();
            if !t.is_empty() {
                for x in t.split('+') {
                    if x == "#" {
                        targs.push(None);
                    } else {
                        let p: Vec<&str> = x.split('/').collect();
                        if p.len() != 2 {
                            return None;
                        }
                        targs.push(Some(Ty { mods: parse_mods(p[0])?, layer: parse_layer(p[1])? }));
                    }
                }
            }
            Some(Item::Site(m.parse().ok().filter(|x| *x <= 3)?, parse_args(a)?, targs))
        }
        ["h", j, m, a] => Some(Item::Helper(j.parse().ok()?, m.parse().ok().filter(|x| *x <= 3)?, parse_args(a)?, false)),
        ["s", j, m, a] => Some(Item::Helper(j.parse().ok()?, m.parse().ok().filter(|x| *x <= 3)?, parse_args(a)?, true)),
        ["t", j, "i"] => Some(Item::Trigger(j.parse().ok()?, false)),
        ["t", j, "f"] => Some(Item::Trigger(j.parse().ok()?, true)),
        ["o", sc, k] if k.len() == 1 && b"setbn".contains(&k.as_bytes()[0]) => {
            Some(Item::Other(sc.parse().ok().filter(|x| *x <= 1)?, k.as_bytes()[0]))
        }
        _ => None,
    }
}

fn show_seq(items: &[Item], path: &SeqPath) -> String {
    let body = items.iter().map(show_item).collect::<Vec<_>>().join("|");
    match path {
        SeqPath::Free => format!("C16.seq\t{}", body),
        SeqPath::Method => format!("C16.seq\t{}\tP=M", body),
        SeqPath::TStruct => format!("C16.seq\t{}\tP=U", body),
        SeqPath::Intrinsic(n) => format!("C16.seq\t{}\tP=A.{}", body, n),
    }
}

fn parse_seq_path(s: &str) -> Option<SeqPath> {
    match s {
        "" => Some(SeqPath::Free),
        "P=M" => Some(SeqPath::Method),
        "P=U" => Some(SeqPath::TStruct),
        _ => s.strip_prefix("P=A.").map(|n| SeqPath::Intrinsic(n.to_string())),
    }
}

/// is the sequence one the protocol means: ids and helper numbers unique, the compiler's own overloads first and only on
/// their path, a definition after its prototype, a trigger after its helper, scopes and modes that exist on the path
fn seq_well_formed(items: &[Item], path: &SeqPath) -> bool {
    let mut ids: Vec<u32> = Vec::new();
    let mut defined: Vec<u32> = Vec::new();
    let mut helpers: Vec<u32> = Vec::new();
    let mut users_seen = false;
    let mut others: Vec<(u8, u8)> = Vec::new();
    let mut scoped_decls: Vec<u8> = Vec::new();
    for it in items {
        match it {
            Item::Decl(sc, c) => {
                if ids.contains(&c.id) {
                    return false;
                }
                ids.push(c.id);
                scoped_decls.push(*sc);
                if is_user(c) {
                    users_seen = true;
                } else if users_seen || !matches!(path, SeqPath::Intrinsic(_)) {
                    return false;
                }
                if *sc != 0 && !matches!(path, SeqPath::Free | SeqPath::Method) {
                    return false;
                }
            }
            Item::Define(id) => {
                let plain = items.iter().any(|x| matches!(x, Item::Decl(_, c) if c.id == *id && c.tkinds.is_empty() && is_user(c)));
                if *path != SeqPath::Free && !matches!(path, SeqPath::Intrinsic(_)) {
                    return false;
                }
                if !ids.contains(id) || !plain || defined.contains(id) {
                    return false;
                }
                defined.push(*id);
            }
            Item::Redecl(id, nd, def) => {
                let plain = items
                    .iter()
                    .any(|x| matches!(x, Item::Decl(_, c) if c.id == *id && is_user(c) && *nd <= c.params.len()));
                let template = items.iter().any(|x| matches!(x, Item::Decl(_, c) if c.id == *id && !c.tkinds.is_empty()));
                if *path != SeqPath::Free && (template || !matches!(path, SeqPath::Intrinsic(_))) {
                    return false;
                }
                if !ids.contains(id) || !plain || (*def && defined.contains(id)) {
                    return false;
                }
                if *def {
                    defined.push(*id);
                }
            }
            Item::Site(m, _, _) => {
                let ok = match path {
                    SeqPath::Free => *m <= 3,
                    // a struct without a method of the name gives other diagnostics than the ones read here
                    SeqPath::Method => {
                        let scope = if *m >= 2 { 1 } else { 0 };
                        *m <= 3 && items.iter().any(|x| matches!(x, Item::Decl(sc, _) if *sc == scope))
                    }
                    SeqPath::TStruct => *m == 1,
                    SeqPath::Intrinsic(_) => *m == 0,
                };
                if !ok {
                    return false;
                }
            }
            Item::Helper(j, _, _, _) => {
                if *path != SeqPath::Free || helpers.contains(j) {
                    return false;
                }
                helpers.push(*j);
            }
            Item::Trigger(j, _) => {
                if !helpers.contains(j) {
                    return false;
                }
            }
            Item::Other(sc, k) => {
                // what the type checker accepts next to functions of the name: one type (struct / enum / typedef), one
                // cbuffer and one namespace per scope; a namespace has to come first and excludes an enum (both are entered by name)
                match path {
                    SeqPath::Free => {}
                    SeqPath::Intrinsic(_) if *sc == 0 && *k != b'n' => {}
                    _ => return false,
                }
                let is_type = |x: u8| matches!(x, b's' | b'e' | b't');
                if others.iter().any(|(s2, k2)| s2 == sc && (k2 == k || (is_type(*k2) && is_type(*k)))) {
                    return false;
                }
                if *k == b'e' && others.contains(&(*sc, b'n')) {
                    return false;
                }
                if *k == b'n' && (scoped_decls.contains(sc) || others.iter().any(|(s2, k2)| s2 == sc && is_type(*k2))) {
                    return false;
                }
                others.push((*sc, *k));
            }
        }
    }
    true
}

/// `amb` that names a candidate more than once, with every candidate named once: one left = it is selected
fn collapse_duplicates(v: &Verdict) -> Option<Verdict> {
    let Verdict::Amb(ids) = v else {
        return None;
    };
    let mut d = ids.clone();
    d.sort();
    d.dedup();
    if d.len() == ids.len() {
        None
    } else if d.len() == 1 {
        Some(Verdict::Sel(d[0], None))
    } else {
        Some(Verdict::Amb(d))
    }
}

/// what a name denotes at a call
#[derive(Clone, PartialEq, Eq, Debug)]
enum Vis {
    /// the visible candidates
    Fns(Vec<Cand>),
    /// no function of the name is visible in the innermost scope that knows the name, a type is: the name denotes the type
    Type,
    /// no scope the lookup reaches knows the name
    Nothing,
}

/// The candidates a call at place `pos` with lookup `mode` can see, in the property's words: **every function of the name**
/// declared above the call in the scope the lookup reaches - the innermost scope that knows the name for an unqualified
/// call, the named scope for a qualified one; every method of the struct.  Symbols of the same name that are not
/// functions (a struct, an enum, a typedef, a cbuffer, a namespace) are not candidates and, in the scope of the functions, take
/// nothing away from them wherever they stand; a scope without a function of the name knows the name only if it
/// declares a type of that name (a cbuffer block and a namespace are not values and not types: the lookup goes on outwards).
///
/// A function declared more than once (prototype + definition, two prototypes): in the property's words the candidate is
/// the *function*, and what is known of it at the call is what all its declarations above the call say together - a
/// trailing parameter has a default value if one of them gives it one (`merge`; the order of these declarations is an
/// order "the candidates were declared in").  `merge == false` is the other reading - only the first declaration counts -
/// and is used for nothing but naming the known defect when the two differ.
fn visible_at(items: &[Item], pos: usize, mode: u8, path: &SeqPath, merge: bool) -> Vis {
    let upto = if matches!(path, SeqPath::Method | SeqPath::TStruct) { items.len() } else { pos };
    let of = |scope: u8| -> Vec<Cand> {
        items[..upto]
            .iter()
            .filter_map(|i| match i {
                Item::Decl(s, c) if *s == scope => {
                    let mut c = c.clone();
                    if merge {
                        for x in &items[..upto] {
                            if let Item::Redecl(id, nd, _) = x {
                                if *id == c.id && *nd < c.non_default {
                                    c.non_default = *nd;
                                }
                            }
                        }
                    }
                    Some(c)
                }
                _ => None,
            })
            .collect()
    };
    let has_type = |scope: u8| items[..upto].iter().any(|i| matches!(i, Item::Other(s, b's' | b'e' | b't') if *s == scope));
    let (root, ns) = (of(0), of(1));
    // the chain of scopes the lookup walks, innermost first
    let chain: Vec<u8> = match (path, mode) {
        (SeqPath::Free, 1) => vec![1],
        (SeqPath::Free, 2) => vec![1, 0],
        // the methods of the second struct
        (SeqPath::Method, 2 | 3) => vec![1],
        _ => vec![0],
    };
    for sc in chain {
        let v = if sc == 1 { &ns } else { &root };
        if !v.is_empty() {
            return Vis::Fns(v.clone());
        }
        if has_type(sc) {
            return Vis::Type;
        }
    }
    Vis::Nothing
}

/// globals, locals and expressions for the arguments of site `tag` (locals / function results / literals)
fn seq_arg_exprs(args: &[ETy], tag: &str) -> Option<(String, String, Vec<String>)> {
    let (mut globals, mut locals, mut exprs) = (String::new(), String::new(), Vec::new());
    for (i, a) in args.iter().enumerate() {
        match (a.lvalue, a.ty.mods.0, a.ty.layer) {
            (false, 0, Layer::Scalar(S_INTLIT)) => exprs.push("0".to_string()),
            (false, 0, Layer::Scalar(S_FLOATLIT)) => exprs.push("0.0".to_string()),
            (true, 0, l) if is_object_layer(l) => {
                globals.push_str(&format!("{} g_a{}_{};\n", spell(a.ty)?, tag, i));
                exprs.push(format!("g_a{}_{}", tag, i));
            }
            (false, 0, _) => {
                globals.push_str(&format!("{} rv{}_{}();\n", spell(a.ty)?, tag, i));
                exprs.push(format!("rv{}_{}()", tag, i));
            }
            (true, 0, _) => {
                let (t, suf) = spell2(a.ty)?;
                locals.push_str(&format!("    {} a{}{};\n", t, i, suf));
                exprs.push(format!("a{}", i));
            }
            (true, 1, l) if is_numeric(l) => {
                let t = spell(Ty { mods: Mods(0), layer: l })?;
                locals.push_str(&format!("    const {} a{} = ({})0;\n", t, i, t));
                exprs.push(format!("a{}", i));
            }
            _ => return None,
        }
    }
    Some((globals, locals, exprs))
}

fn seq_fname(path: &SeqPath) -> String {
    match path {
        SeqPath::Intrinsic(n) => n.clone(),
        _ => "f".to_string(),
    }
}

/// the program for a sequence; `include[k]` = whether the c / t item at place k is written (the other kinds always are)
fn seq_program(items: &[Item], include: &[bool], path: &SeqPath) -> Option<String> {
    let fname = seq_fname(path);
    let mut s = String::new();
    let mut others: Vec<u32> = Vec::new();
    let mut enums: Vec<u32> = Vec::new();
    let mut note = |l: Layer| match l {
        Layer::Other(i) if i < 100 && !others.contains(&i) => others.push(i),
        Layer::Enum(i) if !enums.contains(&i) => enums.push(i),
        _ => {}
    };
    for it in items {
        match it {
            Item::Decl(_, c) => c.params.iter().for_each(|p| note(p.ty.layer)),
            Item::Site(_, a, t) => {
                a.iter().for_each(|a| note(a.ty.layer));
                t.iter().flatten().for_each(|t| note(t.layer));
            }
            Item::Helper(_, _, a, _) => a.iter().for_each(|a| note(a.ty.layer)),
            _ => {}
        }
    }
    others.sort();
    enums.sort();
    for i in &others {
        s.push_str(&format!("struct S{} {{ int q; }};\n", i));
    }
    for i in &enums {
        s.push_str(&format!("enum E{} {{ E{}_A }};\n", i, i));
    }
    for it in items {
        if let Item::Decl(_, c) = it {
            if is_user(c) {
                s.push_str(&format!("struct R{} {{ int q; }};\n", c.id));
            }
        }
    }
    let in_struct = matches!(path, SeqPath::Method | SeqPath::TStruct);
    let wrap = |inside: bool, text: &str| if inside { format!("namespace N {{\n{}}}\n", text) } else { text.to_string() };
    let mut body = String::new(); // P=M: the members of the struct
    let mut body2 = String::new(); // P=M: the members of the second struct
    let mut after = String::new(); // P=M: what follows the structs
    for (k, it) in items.iter().enumerate() {
        match it {
            Item::Decl(sc, c) => {
                if !is_user(c) {
                    continue;
                }
                let (mut decl, _) = cand_decl(c, &fname, in_struct)?;
                if !c.tkinds.is_empty() && items.iter().any(|x| matches!(x, Item::Redecl(id, _, true) if *id == c.id)) {
                    // a function template that is defined further down: this declaration is its prototype
                    decl = template_prototype(&decl)?;
                }
                if in_struct {
                    if *sc == 1 { body2.push_str(&decl) } else { body.push_str(&decl) }
                } else {
                    s.push_str(&wrap(*sc == 1, &decl));
                }
            }
            Item::Define(id) => {
                let (sc, c) = items.iter().find_map(|x| match x {
                    Item::Decl(sc, c) if c.id == *id => Some((*sc, c)),
                    _ => None,
                })?;
                let (_, def) = cand_decl(c, &fname, false)?;
                s.push_str(&wrap(sc == 1, &def?));
            }
            Item::Redecl(id, nd, is_def) => {
                let (sc, c) = items.iter().find_map(|x| match x {
                    Item::Decl(sc, c) if c.id == *id => Some((*sc, c)),
                    _ => None,
                })?;
                let mut c2 = c.clone();
                c2.non_default = *nd;
                let (proto, def) = cand_decl(&c2, &fname, false)?;
                let text = if c.tkinds.is_empty() {
                    if *is_def { def? } else { proto }
                } else if *is_def {
                    proto // (a template's declaration carries its body)
                } else {
                    template_prototype(&proto)?
                };
                s.push_str(&wrap(sc == 1, &text));
            }
            Item::Site(mode, args, targs) => {
                if !include[k] {
                    continue;
                }
                let (globals, locals, exprs) = seq_arg_exprs(args, &k.to_string())?;
                let mut callee = fname.clone();
                if !targs.is_empty() {
                    let mut ts = Vec::new();
                    for t in targs {
                        ts.push(match t {
                            None => "2".to_string(),
                            Some(t) => spell(*t)?,
                        });
                    }
                    callee = format!("{}<{}>", callee, ts.join(", "));
                }
                let call = |q: &str| format!("    {}{}({});\n", q, callee, exprs.join(", "));
                if in_struct {
                    if *mode == 0 || *mode == 3 {
                        s.push_str(&globals);
                        let text = format!("void c{}() {{\n{}{}}}\n", k, locals, call(""));
                        if *mode == 3 { body2.push_str(&text) } else { body.push_str(&text) }
                    } else {
                        after.push_str(&globals);
                        let ty = if *path == SeqPath::TStruct { "S<int>" } else if *mode == 2 { "S2" } else { "S" };
                        after.push_str(&format!("void c{}() {{\n    {} s;\n{}{}}}\n", k, ty, locals, call("s.")));
                    }
                } else {
                    s.push_str(&globals);
                    let q = match mode {
                        1 => "N::",
                        3 => "::",
                        _ => "",
                    };
                    s.push_str(&wrap(*mode >= 2, &format!("void c{}() {{\n{}{}}}\n", k, locals, call(q))));
                }
            }
            Item::Helper(j, mode, args, is_struct) => {
                let (globals, locals, exprs) = seq_arg_exprs(args, &format!("h{}", j))?;
                s.push_str(&globals);
                let q = match mode {
                    1 => "N::",
                    3 => "::",
                    _ => "",
                };
                let text = if *is_struct {
                    format!(
                        "template<typename Z> struct H{} {{\nvoid hg{}() {{\n{}    {}{}({});\n}}\n}};\n",
                        j,
                        j,
                        locals,
                        q,
                        fname,
                        exprs.join(", ")
                    )
                } else {
                    format!("template<typename Z> void h{}(Z z) {{\n{}    {}{}({});\n}}\n", j, locals, q, fname, exprs.join(", "))
                };
                s.push_str(&wrap(*mode >= 2, &text));
            }
            Item::Other(sc, kind) => {
                // a symbol that is not a function, named like the overload set
                let text = match kind {
                    b's' => format!("struct {} {{ int q; }};\n", fname),
                    b'e' => format!("enum {} {{ {}_EV{} }};\n", fname, fname, sc),
                    b't' => format!("typedef int {};\n", fname),
                    b'b' => format!("cbuffer {} {{ int {}_cbm{}; }}\n", fname, fname, sc),
                    _ => format!("namespace {} {{ struct {}_In{} {{ int q; }}; }}\n", fname, fname, sc),
                };
                s.push_str(&wrap(*sc == 1, &text));
            }
            Item::Trigger(j, z) => {
                if !include[k] {
                    continue;
                }
                let (mode, is_struct) = items.iter().find_map(|x| match x {
                    Item::Helper(j2, m, _, st) if j2 == j => Some((*m, *st)),
                    _ => None,
                })?;
                let ns = if mode >= 2 { "N::" } else { "" };
                if is_struct {
                    s.push_str(&format!("void t{}() {{\n    {}H{}<{}> x;\n    x.hg{}();\n}}\n", k, ns, j, if *z { "float" } else { "int" }, j));
                } else {
                    s.push_str(&format!("void t{}() {{\n    {}h{}({});\n}}\n", k, ns, j, if *z { "0.0" } else { "0" }));
                }
            }
        }
    }
    if in_struct {
        let head = if *path == SeqPath::TStruct { "template<typename W> " } else { "" };
        let second = if body2.is_empty() { String::new() } else { format!("struct S2 {{\n{}}};\n", body2) };
        s.push_str(&format!("{}struct S {{\n{}}};\n{}{}", head, body, second, after));
    }
    Some(s)
}

/// what one c / t item showed
#[derive(Clone, PartialEq, Eq, Debug)]
enum SiteObs {
    V(Verdict),
    /// the trigger calls an instance an earlier trigger built: its body is not type checked again
    Cached,
}

fn show_site_obs(o: &SiteObs) -> String {
    match o {
        SiteObs::V(v) => show_verdict(v),
        SiteObs::Cached => "=".into(),
    }
}

fn function_named(module: &ir::Module, name: &str) -> Option<ir::FunctionId> {
    module.function_registry.iter().find(|id| module.function_registry.get_function_name(*id) == name)
}

fn call_in_function(module: &ir::Module, f: ir::FunctionId, name: &str) -> Option<ir::FunctionId> {
    let imp = module.function_registry.get_function_implementation(f).as_ref()?;
    call_in_block(&imp.scope_block, module, name)
}

/// is a statement of the function's body a constructor expression
fn constructor_statement(module: &ir::Module, f: ir::FunctionId) -> bool {
    match module.function_registry.get_function_implementation(f).as_ref() {
        Some(imp) => imp.scope_block.0.iter().any(|st| matches!(&st.kind, ir::StatementKind::Expression(ir::Expression::Constructor(..)))),
        None => false,
    }
}

/// the verdicts of the written c / t items of an accepted program
fn seq_read_accepted(m: &mut ir::Module, items: &[Item], include: &[bool], path: &SeqPath) -> Vec<(usize, SiteObs)> {
    let fname = seq_fname(path);
    let bpath = match path {
        SeqPath::Intrinsic(n) => Path::Intrinsic(n.clone()),
        _ => Path::Free,
    };
    let builtins = builtin_cands(m, &bpath).unwrap_or_default();
    let is_template = |id: u32| items.iter().any(|x| matches!(x, Item::Decl(_, c) if c.id == id && !c.tkinds.is_empty()));
    let selected = |m: &ir::Module, holder: ir::FunctionId| -> SiteObs {
        match call_in_function(m, holder, &fname).and_then(|f| cand_of(m, f, &builtins)) {
            Some((id, t)) => SiteObs::V(Verdict::Sel(id, if is_template(id) { t } else { None })),
            // `f(args);` became a constructor expression: the name was taken for a type
            None if constructor_statement(m, holder) => SiteObs::V(Verdict::IsType),
            None => SiteObs::V(Verdict::Other("accepted, but the call is not in the module".into())),
        }
    };
    let mut out = Vec::new();
    let mut instances: Vec<ir::FunctionId> = Vec::new();
    for (k, it) in items.iter().enumerate() {
        if !include[k] {
            continue;
        }
        match it {
            Item::Site(..) => {
                let o = match function_named(m, &format!("c{}", k)) {
                    Some(holder) => selected(m, holder),
                    None => SiteObs::V(Verdict::Other("accepted, but the calling function is not in the module".into())),
                };
                out.push((k, o));
            }
            Item::Trigger(j, _) => {
                let is_struct = items.iter().any(|x| matches!(x, Item::Helper(j2, _, _, true) if j2 == j));
                let callee = if is_struct { format!("hg{}", j) } else { format!("h{}", j) };
                let inst = function_named(m, &format!("t{}", k)).and_then(|t| call_in_function(m, t, &callee));
                let o = match inst {
                    Some(x) if instances.contains(&x) => SiteObs::Cached,
                    Some(x) => {
                        instances.push(x);
                        selected(m, x)
                    }
                    None => SiteObs::V(Verdict::Other("accepted, but the call of the helper is not in the module".into())),
                };
                out.push((k, o));
            }
            _ => {}
        }
    }
    out
}

/// the verdict a rejected program gives for the one site that was added last
fn seq_read_rejected(c: Checked, path: &SeqPath) -> Verdict {
    let fname = seq_fname(path);
    let bpath = match path {
        SeqPath::Intrinsic(n) => Path::Intrinsic(n.clone()),
        _ => Path::Free,
    };
    match c {
        Checked::Ok(_) => Verdict::Other("accepted".into()),
        Checked::AssertFailed(..) => Verdict::Other("assert_type failed in a program without assert_type".into()),
        Checked::Mismatch(mut m, ids, amb) => {
            let builtins = builtin_cands(&mut m, &bpath).unwrap_or_default();
            let ours = ids.first().map(|f| m.function_registry.get_function_name(*f) == fname).unwrap_or(true);
            if !ours {
                Verdict::Other("mismatch reported for another call".into())
            } else if amb {
                let mut out = Vec::new();
                for f in &ids {
                    match cand_of(&m, *f, &builtins) {
                        Some((id, _)) => out.push(id),
                        None => return Verdict::Other("ambiguity names an unknown function".into()),
                    }
                }
                out.sort();
                Verdict::Amb(out)
            } else {
                Verdict::Unmatched
            }
        }
        Checked::PlaceRefused(lv) => Verdict::Refused(lv),
        Checked::Unknown(_) => Verdict::NoName,
        Checked::Constructor => Verdict::IsType,
        // `f<..>(..)` where f denotes a type that takes no template arguments (`ExpectedExpressionReceivedType`)
        Checked::Other(e) if e.contains(&format!("identifier '{}' is not expected to be a type", fname)) => Verdict::IsType,
        Checked::Other(e) => Verdict::Other(e),
    }
}

/// run a sequence on the real type checker: one observation per c / t item (by place).  None = not expressible;
/// Err = the declarations alone are not accepted.
fn run_seq(items: &[Item], path: &SeqPath, compiles: &mut u64) -> Option<Result<Vec<(usize, SiteObs)>, String>> {
    let is_site = |i: &Item| matches!(i, Item::Site(..) | Item::Trigger(..));
    let all: Vec<bool> = items.iter().map(is_site).collect();
    let src = seq_program(items, &all, path)?;
    if std::env::var("C16_DUMP").is_ok() {
        eprintln!("{}", src);
    }
    *compiles += 1;
    match guard(|| type_check_src(&src)) {
        Ok(Checked::Ok(mut m)) => return Some(Ok(seq_read_accepted(&mut m, items, &all, path))),
        Err(_) | Ok(_) => {}
    }
    // some site is refused: one site at a time, on top of the declarations and the accepted earlier sites
    let mut include: Vec<bool> = vec![false; items.len()];
    let base = seq_program(items, &include, path)?;
    *compiles += 1;
    match guard(|| type_check_src(&base)) {
        Ok(Checked::Ok(_)) => {}
        Ok(Checked::Other(e)) | Ok(Checked::Unknown(e)) => return Some(Err(e)),
        Ok(_) => return Some(Err("the declarations alone are refused".into())),
        Err(p) => return Some(Err(format!("panic {}", p))),
    }
    let mut out: Vec<(usize, SiteObs)> = Vec::new();
    for k in 0..items.len() {
        if !is_site(&items[k]) {
            continue;
        }
        include[k] = true;
        let src = seq_program(items, &include, path)?;
        *compiles += 1;
        match guard(|| type_check_src(&src)) {
            Err(p) => {
                include[k] = false;
                out.push((k, SiteObs::V(Verdict::Panic(p))));
            }
            Ok(Checked::Ok(mut m)) => {
                let r = seq_read_accepted(&mut m, items, &include, path);
                match r.into_iter().find(|(kk, _)| *kk == k) {
                    Some(x) => out.push(x),
                    None => out.push((k, SiteObs::V(Verdict::Other("site not read".into())))),
                }
            }
            Ok(c) => {
                include[k] = false;
                let mut v = seq_read_rejected(c, path);
                // an error inside the instantiation of a struct template surfaces as an error about the template's name
                let in_struct_template = matches!(&items[k], Item::Trigger(j, _)
                    if items.iter().any(|x| matches!(x, Item::Helper(j2, _, _, true) if j2 == j)));
                if in_struct_template && matches!(&v, Verdict::Other(e) if e.contains("is not expected to be a type")) {
                    v = Verdict::Rejected;
                }
                out.push((k, SiteObs::V(v)));
            }
        }
    }
    Some(Ok(out))
}

impl Runner {
    /// the verdict of a separate program that declares exactly `visible` (the compiler's own overloads first, the
    /// others in the order of their ids) and then calls once
    fn reference(&mut self, visible: &[Cand], args: &[ETy], targs: &[Option<Ty>], path: &SeqPath) -> Option<Verdict> {
        let mut sorted: Vec<Cand> = visible.to_vec();
        sorted.sort_by_key(|c| (is_user(c), c.id));
        let p = match path {
            SeqPath::Free => Path::Free,
            SeqPath::Method => Path::Method,
            SeqPath::TStruct => Path::TStruct,
            SeqPath::Intrinsic(n) => Path::Intrinsic(n.clone()),
        };
        let opts = Opts { with_defs: false, path: p, targs: targs.to_vec(), form: 0 };
        let key = format!("{}\t{}\t{}", show_cands(&sorted), show_args(args), show_opts(&opts));
        if !self.refs.contains_key(&key) {
            let v = run_program(&sorted, args, &opts);
            self.compiles += 1;
            if self.refs.len() > 8192 {
                self.refs.clear();
            }
            self.refs.insert(key.clone(), v);
        }
        self.refs[&key].clone()
    }

    /// the judgement of one site's verdict `v` on the candidate set `visible`: the C16.resolve oracle, and equality with
    /// the one-call program of exactly that set
    fn judge_visible(&mut self, k: usize, visible: &[Cand], v: &Verdict, args: &[ETy], targs: &[Option<Ty>], path: &SeqPath) -> Result<(), String> {
        let visible: Vec<Cand> = visible.to_vec();
        let (args, targs) = (args.to_vec(), targs.to_vec());
            let j = judge_set(&mut self.real, &visible, &args, &targs);
            if *v == Verdict::Rejected {
                // all that can be said: the call was not accepted
                if j.exact.len() == 1 && !j.out_converted.contains(&j.exact[0]) && !j.out_const.contains(&j.exact[0]) {
                    return Err(format!("site {} (sees {:?}): candidate {} matches exactly but the call is refused", k, visible.iter().map(|c| c.id).collect::<Vec<_>>(), j.exact[0]));
                } else if let Some(Verdict::Sel(id, _)) = self.reference(&visible, &args, &targs, path) {
                    return Err(format!(
                        "site {} sees the candidates {:?} and is refused, but a program that declares exactly these and calls once selects {}",
                        k,
                        visible.iter().map(|c| c.id).collect::<Vec<_>>(),
                        id
                    ));
                }
                return Ok(());
            }
            if let Err(e) = oracle(&j, v) {
                return Err(format!("site {} (sees {:?}): {}", k, visible.iter().map(|c| c.id).collect::<Vec<_>>(), e));
            }
            if let Some(r) = self.reference(&visible, &args, &targs, path) {
                if !matches!(r, Verdict::Other(_)) && show_verdict(&r) != show_verdict(v) {
                    return Err(format!(
                        "site {} sees the candidates {:?} and gives `{}`, but a program that declares exactly these and calls once gives `{}`: the verdict depends on more than the visible set and the argument types",
                        k,
                        visible.iter().map(|c| c.id).collect::<Vec<_>>(),
                        show_verdict(v),
                        show_verdict(&r)
                    ));
                }
            }
        Ok(())
    }

    fn seq_case(&mut self, items: &[Item], path: &SeqPath, out: &mut Out) {
        let req = show_seq(items, path);
        if !seq_well_formed(items, path) {
            out.case(&req, "-", "SKIP:bad request");
            return;
        }
        if let SeqPath::Intrinsic(n) = path {
            let given: Vec<Cand> = items
                .iter()
                .filter_map(|i| match i {
                    Item::Decl(_, c) if !is_user(c) => Some(c.clone()),
                    _ => None,
                })
                .collect();
            if Self::builtins(&Path::Intrinsic(n.clone())) != Some(given) {
                out.case(&req, "-", "SKIP:the request's compiler-provided overloads are not the ones of this compiler");
                return;
            }
        }
        let mut compiles = 0;
        let ran = run_seq(items, path, &mut compiles);
        self.compiles += compiles;
        let obs = match ran {
            None => {
                out.case(&req, "-", "SKIP:not expressible as an RSSL program");
                return;
            }
            Some(Err(e)) if e.contains("redefinition") && items.iter().any(|x| matches!(x, Item::Redecl(..))) => {
                // a well-formed unit defines no function twice: prototypes and one definition of a function, in any order
                self.hist.add("seq:declarations-refused-as-a-redefinition");
                out.case(
                    &req,
                    "declarations-refused",
                    &format!("FAIL:the unit declares a function more than once but defines none twice, and its declarations alone are refused: {}", e),
                );
                return;
            }
            Some(Err(e)) => {
                // the generator avoids declarations that clash; a replayed / shrunk request may not
                out.case(&req, "-", &format!("SKIP:the declarations alone are not accepted: {}", e));
                return;
            }
            Some(Ok(o)) => o,
        };
        let mut verdict: Result<(), String> = Ok(());
        // which instances of the helper templates exist (built by an accepted trigger)
        let mut built: Vec<(u32, bool)> = Vec::new();
        let mut nsites = 0;
        let mut sets: Vec<String> = Vec::new();
        for (k, o) in &obs {
            let (mode, args, targs): (u8, Vec<ETy>, Vec<Option<Ty>>) = match &items[*k] {
                Item::Site(m, a, t) => (*m, a.clone(), t.clone()),
                Item::Trigger(j, z) => {
                    let Some((m, a)) = items.iter().find_map(|x| match x {
                        Item::Helper(j2, m, a, _) if j2 == j => Some((*m, a.clone())),
                        _ => None,
                    }) else {
                        continue;
                    };
                    // (a body whose call became a constructor expression may be accepted as well: whether it is says nothing about overloads)
                    if matches!(o, SiteObs::V(Verdict::Sel(..) | Verdict::IsType)) {
                        built.push((*j, *z));
                    }
                    (m, a, Vec::new())
                }
                _ => continue,
            };
            nsites += 1;
            let v = match o {
                SiteObs::Cached => {
                    self.hist.add("seq-site:cached-instance");
                    if let Item::Trigger(j, z) = &items[*k] {
                        if !built.contains(&(*j, *z)) && verdict.is_ok() {
                            verdict = Err(format!("site {}: the helper instance is reported as built, but no earlier accepted call built it", k));
                        }
                    }
                    continue;
                }
                SiteObs::V(v) => v,
            };
            self.hist.add(match v {
                Verdict::Sel(_, None) => "seq-site:selected",
                Verdict::Sel(_, Some(_)) => "seq-site:selected-template",
                Verdict::Amb(_) => "seq-site:ambiguous",
                Verdict::Unmatched => "seq-site:unmatched",
                Verdict::Refused(_) => "seq-site:refused-output",
                Verdict::NoName => "seq-site:unknown-name",
                Verdict::IsType => "seq-site:name-denotes-a-type",
                Verdict::Rejected => "seq-site:refused-in-a-struct-template",
                Verdict::Panic(_) => "seq-site:panic",
                Verdict::Other(_) => "seq-site:other-error",
            });
            self.hist.add(&format!("seq-site:mode{}", mode));
            if verdict.is_err() {
                continue;
            }
            let visible = match visible_at(items, *k, mode, path, true) {
                Vis::Fns(v) => v,
                Vis::Nothing => {
                    if *v != Verdict::NoName && *v != Verdict::Rejected {
                        verdict = Err(format!("site {}: no candidate is visible at the call, but the verdict is `{}`", k, show_verdict(v)));
                    }
                    continue;
                }
                Vis::Type => {
                    // the innermost scope that knows the name knows it as a type only: no candidate is visible, the call
                    // is not a call of a function
                    if *v != Verdict::IsType && *v != Verdict::Rejected {
                        verdict = Err(format!(
                            "site {}: the name denotes a type in the innermost scope that knows it (no function of the name is visible there), but the verdict is `{}`",
                            k,
                            show_verdict(v)
                        ));
                    }
                    continue;
                }
            };
            if *v == Verdict::IsType {
                verdict = Err(format!("site {}: {} candidate(s) are visible at the call, but the name is taken for a type", k, visible.len()));
                continue;
            }
            self.hist.add(&format!("seq-site:visible{}", visible.len().min(9)));
            let set_key = {
                let mut s: Vec<Cand> = visible.clone();
                s.sort();
                format!("{}\t{}", show_cands(&s), show_args(&args))
            };
            if sets.contains(&set_key) {
                self.hist.add("seq-site:same-set-as-an-earlier-site");
            } else {
                sets.push(set_key);
            }
            if *v == Verdict::NoName {
                verdict = Err(format!("site {}: {} candidate(s) are visible at the call, but the name is reported as unknown", k, visible.len()));
                continue;
            }
            if let Err(e) = self.judge_visible(*k, &visible, v, &args, &targs, path) {
                // a function declared more than once with different default arguments: is the verdict the one of the
                // other reading (only the first declaration's default values count)?  Then it is that - known - defect
                let first = match visible_at(items, *k, mode, path, false) {
                    Vis::Fns(f) => f,
                    _ => Vec::new(),
                };
                if first != visible && self.judge_visible(*k, &first, v, &args, &targs, path).is_ok() {
                    let ids: Vec<u32> = visible.iter().zip(&first).filter(|(a, b)| a != b).map(|(a, _)| a.id).collect();
                    self.hist.add("seq-site:first-declaration-defaults-only");
                    verdict = Err(format!(
                        "redeclared-defaults: site {}: function(s) {:?} are declared more than once above the call and a later declaration gives default values the first one does not; the verdict `{}` is that of the first declaration alone, so it depends on the order of these declarations ({})",
                        k,
                        ids,
                        show_verdict(v),
                        e
                    ));
                } else if let Some(collapsed) = collapse_duplicates(v) {
                    // an ambiguity that names a function twice: is the verdict right once each function is counted once?
                    let dup_ok = match &collapsed {
                        Verdict::Amb(_) => self.judge_visible(*k, &visible, &collapsed, &args, &targs, path).is_ok(),
                        Verdict::Sel(id, _) => {
                            let j = judge_set(&mut self.real, &visible, &args, &targs);
                            oracle(&j, &collapsed).is_ok()
                                && matches!(self.reference(&visible, &args, &targs, path), Some(Verdict::Sel(r, _)) if r == *id)
                        }
                        _ => false,
                    };
                    // (only a template whose parameter types mention a template parameter is this known defect)
                    let redeclared = |id: &u32| {
                        items[..*k].iter().any(|x| matches!(x, Item::Redecl(i, _, _) if i == id))
                            && visible.iter().any(|c| c.id == *id && !c.tkinds.is_empty() && c.params.iter().any(|p| is_template_layer(p.ty.layer)))
                    };
                    let dups: Vec<u32> = match v {
                        Verdict::Amb(ids) => ids.windows(2).filter(|w| w[0] == w[1]).map(|w| w[0]).collect(),
                        _ => Vec::new(),
                    };
                    if dup_ok && dups.iter().all(redeclared) {
                        self.hist.add("seq-site:ambiguous-between-two-declarations-of-one-template");
                        verdict = Err(format!(
                            "redeclared-template: site {}: the call is `{}`: function template(s) {:?} are declared more than once above the call and every declaration is taken for an overload of its own - ambiguous between a function and itself ({})",
                            k,
                            show_verdict(v),
                            dups,
                            e
                        ));
                    } else {
                        verdict = Err(e);
                    }
                } else {
                    verdict = Err(e);
                }
            }
        }
        let text = obs.iter().map(|(_, o)| show_site_obs(o)).collect::<Vec<_>>().join(" | ");
        let o = match verdict {
            Ok(()) => "ok".to_string(),
            Err(e) => format!("FAIL:{}", e),
        };
        out.case(&req, &text, &o);
        self.hist.add(&format!("seq:sites{}", nsites.min(12)));
        self.hist.add(match path {
            SeqPath::Free => "seq:path-free+namespace",
            SeqPath::Method => "seq:path-method",
            SeqPath::TStruct => "seq:path-method-of-struct-template",
            SeqPath::Intrinsic(_) => "seq:path-intrinsic+user",
        });
        for it in items {
            self.hist.add(match it {
                Item::Decl(0, c) if !is_user(c) => "seq-item:compiler-provided",
                Item::Decl(0, c) if c.tkinds.is_empty() => "seq-item:declaration",
                Item::Decl(0, _) => "seq-item:template-declaration",
                Item::Decl(_, c) if c.tkinds.is_empty() => "seq-item:declaration-in-reopened-namespace",
                Item::Decl(..) => "seq-item:template-declaration-in-reopened-namespace",
                Item::Define(_) => "seq-item:definition-of-a-declared-function",
                Item::Redecl(id, nd, def) => {
                    let first = items.iter().find_map(|x| match x {
                        Item::Decl(_, c) if c.id == *id => Some(c.non_default),
                        _ => None,
                    });
                    match (first.map(|f| nd.cmp(&f)), def) {
                        (Some(std::cmp::Ordering::Less), true) => "seq-item:definition-with-more-defaults-than-the-prototype",
                        (Some(std::cmp::Ordering::Less), false) => "seq-item:second-prototype-with-more-defaults",
                        (Some(std::cmp::Ordering::Greater), true) => "seq-item:definition-with-fewer-defaults-than-the-prototype",
                        (Some(std::cmp::Ordering::Greater), false) => "seq-item:second-prototype-with-fewer-defaults",
                        (_, true) => "seq-item:definition-with-the-same-defaults",
                        (_, false) => "seq-item:second-prototype-with-the-same-defaults",
                    }
                }
                Item::Site(..) => "seq-item:call-site",
                Item::Helper(_, _, _, false) => "seq-item:function-template-with-a-call-in-its-body",
                Item::Helper(..) => "seq-item:struct-template-with-a-call-in-a-method-body",
                Item::Trigger(..) => "seq-item:call-that-instantiates-the-helper",
                Item::Other(_, b's') => "seq-item:struct-of-the-same-name",
                Item::Other(_, b'e') => "seq-item:enum-of-the-same-name",
                Item::Other(_, b't') => "seq-item:typedef-of-the-same-name",
                Item::Other(_, b'b') => "seq-item:cbuffer-of-the-same-name",
                Item::Other(..) => "seq-item:namespace-of-the-same-name",
            });
        }
    }
}


// ------------------------------------------------------------------------------------------- generators

fn grid_ty(rng: &mut Rng) -> Ty {
    let s = *rng.pick(GRID_SCALARS);
    let layer = match rng.below(4) {
        0 => Layer::Scalar(s),
        n => Layer::Vector(s, n as u32 + 1),
    };
    Ty { mods: Mods(0), layer }
}

fn scalar_of(l: Layer) -> u8 {
    match l {
        Layer::Scalar(s) | Layer::Vector(s, _) | Layer::Matrix(s, _, _) => s,
        _ => S_BOOL,
    }
}

fn with_scalar(l: Layer, s: u8) -> Layer {
    match l {
        Layer::Scalar(_) => Layer::Scalar(s),
        Layer::Vector(_, n) => Layer::Vector(s, n),
        Layer::Matrix(_, x, y) => Layer::Matrix(s, x, y),
        o => o,
    }
}

/// a parameter type related to the centre type: same, other scalar kind, other dimension, or unrelated
fn related_ty(rng: &mut Rng, centre: Ty) -> Ty {
    match rng.below(8) {
        0 | 1 => centre,
        2..=4 => Ty { mods: Mods(0), layer: with_scalar(centre.layer, *rng.pick(GRID_SCALARS)) },
        5 | 6 => {
            let s = scalar_of(centre.layer);
            let layer = match rng.below(4) {
                0 => Layer::Scalar(s),
                n => Layer::Vector(s, n as u32 + 1),
            };
            Ty { mods: Mods(0), layer }
        }
        _ => grid_ty(rng),
    }
}

fn random_io(rng: &mut Rng) -> Io {
    match rng.below(20) {
        0..=14 => Io::In,
        15..=18 => Io::Out,
        _ => Io::InOut,
    }
}

/// types outside the property's grid: 1-vectors, matrices, structs, enums (order independence and domination are
/// still judged there; "exact match" is not, see `judge_set`)
fn off_grid_ty(rng: &mut Rng) -> Ty {
    let s = *rng.pick(GRID_SCALARS);
    let layer = match rng.below(14) {
        0..=3 => Layer::Vector(s, 1),
        4 => Layer::Matrix(s, 2, 2),
        5 => Layer::Matrix(s, 3, 2),
        6..=8 => Layer::Other(rng.below(2) as u32),
        9..=11 => Layer::Enum(rng.below(2) as u32),
        // arrays: int[2], int[3], float[2]
        12 => Layer::Other(100 + 10 * 2 + rng.range(2, 3) as u32),
        _ => Layer::Other(100 + 10 * 6 + 2),
    };
    Ty { mods: Mods(0), layer }
}

fn random_set(rng: &mut Rng, hist: &mut Hist) -> (Vec<Cand>, Vec<Ty>) {
    let k = match rng.below(20) {
        0..=5 => 2,
        6..=12 => 3,
        13..=17 => 4,
        _ => 5,
    };
    let arity = rng.range(1, 3) as usize;
    let off_grid = rng.chance(1, 8);
    if off_grid {
        hist.add("set:off-grid");
    }
    let centre: Vec<Ty> = (0..arity)
        .map(|_| if off_grid && rng.chance(1, 2) { off_grid_ty(rng) } else { grid_ty(rng) })
        .collect();
    let mut cands: Vec<Cand> = Vec::new();
    let mut tries = 0;
    while cands.len() < k && tries < 200 {
        tries += 1;
        let mut params: Vec<Param> = centre
            .iter()
            .map(|c| Param {
                io: random_io(rng),
                ty: if off_grid && rng.chance(1, 3) { off_grid_ty(rng) } else { related_ty(rng, *c) },
            })
            .collect();
        let mut non_default = arity;
        if arity < 3 && rng.chance(1, 8) {
            // one more, defaulted, parameter
            params.push(Param { io: Io::In, ty: grid_ty(rng) });
        } else if arity > 1 && rng.chance(1, 12) && params[arity - 1].io == Io::In {
            non_default = arity - 1;
        }
        // an overload set may not contain two candidates with the same parameter list
        if cands.iter().any(|c| c.params == params) {
            continue;
        }
        cands.push(Cand { id: cands.len() as u32, non_default, params, tkinds: Vec::new() });
    }
    hist.add(&format!("set:k{}", cands.len()));
    hist.add(&format!("set:arity{}", arity));
    (cands, centre)
}

/// candidate sets with function templates: 2-4 overloads, 1-3 parameters, each overload a template with probability 1/2
fn random_template_set(rng: &mut Rng, hist: &mut Hist) -> (Vec<Cand>, Vec<Ty>) {
    let k = rng.range(2, 4) as usize;
    let arity = rng.range(1, 3) as usize;
    let centre: Vec<Ty> = (0..arity)
        .map(|_| match rng.below(12) {
            0 => off_grid_ty(rng),
            1 => Ty { mods: Mods(0), layer: Layer::Matrix(*rng.pick(GRID_SCALARS), 2, 2) },
            2 => Ty { mods: Mods(0), layer: Layer::Other(100 + 10 * (*rng.pick(&[2u8, 6u8])) as u32 + 2) },
            _ => grid_ty(rng),
        })
        .collect();
    let mut cands: Vec<Cand> = Vec::new();
    let mut tries = 0;
    while cands.len() < k && tries < 200 {
        tries += 1;
        let is_template = rng.chance(11, 20);
        let mut tkinds: Vec<bool> = Vec::new();
        if is_template {
            for _ in 0..rng.range(1, 2) {
                tkinds.push(!rng.chance(1, 8));
            }
            if !tkinds.iter().any(|t| *t) {
                tkinds[0] = true;
            }
        }
        let type_params: Vec<u8> = tkinds.iter().enumerate().filter(|(_, t)| **t).map(|(i, _)| i as u8).collect();
        let params: Vec<Param> = centre
            .iter()
            .map(|c| {
                let concrete = related_ty(rng, *c);
                let layer = if is_template && rng.chance(13, 20) {
                    let tk = *rng.pick(&type_params);
                    match (rng.below(10), c.layer) {
                        (0..=5, _) => Layer::TVar(tk),
                        (6..=8, Layer::Vector(_, n)) => Layer::TVec(tk, if rng.chance(4, 5) { n } else { rng.range(2, 4) as u32 }),
                        (6..=8, Layer::Matrix(_, x, y)) => Layer::TMat(tk, x, y),
                        (6..=8, Layer::Other(i)) if (100..200).contains(&i) => Layer::TArr(tk, if rng.chance(4, 5) { (i - 100) % 10 } else { 3 }),
                        (6, _) => Layer::TVec(tk, rng.range(2, 4) as u32),
                        _ => Layer::TVar(tk),
                    }
                } else {
                    concrete.layer
                };
                Param { io: random_io(rng), ty: Ty { mods: Mods(0), layer } }
            })
            .collect();
        let mut non_default = arity;
        let defaultable = |l: Layer| is_numeric(l) || matches!(l, Layer::TVar(_) | Layer::TVec(..) | Layer::TMat(..));
        if arity > 1 && rng.chance(1, 6) && params[arity - 1].io == Io::In && defaultable(params[arity - 1].ty.layer) {
            non_default = arity - 1;
            // a defaulted `T` parameter: is `T` still deduced when no argument is given for it?
            if is_template_layer(params[arity - 1].ty.layer) {
                hist.add("tset:default-value-of-a-template-typed-parameter");
            }
        }
        // two ordinary functions with one parameter list are a redefinition, not an overload set
        // (a template whose parameter types do not mention its template parameters counts as one too)
        let concrete = !params.iter().any(|p| is_template_layer(p.ty.layer));
        if concrete && cands.iter().any(|c| c.params == params) {
            continue;
        }
        cands.push(Cand { id: cands.len() as u32, non_default, params, tkinds });
    }
    hist.add(&format!("tset:k{}", cands.len()));
    hist.add(&format!("tset:templates{}", cands.iter().filter(|c| !c.tkinds.is_empty()).count()));
    (cands, centre)
}

/// `int` <-> `int1`: the one reshaping `ImplicitConversion::find` allows for an lvalue destination
fn twin_layer(l: Layer) -> Layer {
    match l {
        Layer::Scalar(s) => Layer::Vector(s, 1),
        Layer::Vector(s, 1) => Layer::Scalar(s),
        l => l,
    }
}

/// candidate sets around output parameters: 1-3 overloads with 1-2 parameters over a scalar / 1-vector / 2-vector
/// centre; each parameter is `out` / `inout` with probability 1/2 and has the centre type, its scalar <-> 1-vector
/// twin, the same shape over another scalar kind, or (templates) `T` / `vector<T, 1>`
fn output_set(rng: &mut Rng, hist: &mut Hist) -> (Vec<Cand>, Vec<Ty>) {
    let k = rng.range(1, 3) as usize;
    let arity = rng.range(1, 2) as usize;
    let centre: Vec<Ty> = (0..arity)
        .map(|_| {
            let s = *rng.pick(GRID_SCALARS);
            let layer = match rng.below(5) {
                0 | 1 => Layer::Scalar(s),
                2 | 3 => Layer::Vector(s, 1),
                _ => Layer::Vector(s, 2),
            };
            Ty { mods: Mods(0), layer }
        })
        .collect();
    let mut cands: Vec<Cand> = Vec::new();
    let mut tries = 0;
    while cands.len() < k && tries < 100 {
        tries += 1;
        let is_template = rng.chance(1, 4);
        let params: Vec<Param> = centre
            .iter()
            .map(|c| {
                let io = match rng.below(4) {
                    0 | 1 => Io::In,
                    2 => Io::Out,
                    _ => Io::InOut,
                };
                let layer = match rng.below(8) {
                    0..=2 => c.layer,
                    3 | 4 => twin_layer(c.layer),
                    5 => with_scalar(c.layer, *rng.pick(GRID_SCALARS)),
                    6 if is_template => Layer::TVar(0),
                    7 if is_template => Layer::TVec(0, 1),
                    _ => c.layer,
                };
                Param { io, ty: Ty { mods: Mods(0), layer } }
            })
            .collect();
        let tkinds = if is_template { vec![true] } else { Vec::new() };
        let concrete = !params.iter().any(|p| is_template_layer(p.ty.layer));
        if concrete && cands.iter().any(|c| c.params == params) {
            continue;
        }
        if !concrete && cands.iter().any(|c| c.params == params && c.tkinds == tkinds) {
            continue;
        }
        cands.push(Cand { id: cands.len() as u32, non_default: arity, params, tkinds });
    }
    hist.add(&format!("oset:k{}", cands.len()));
    (cands, centre)
}

/// names of the intrinsic free functions whose overloads can all be described in the protocol
fn intrinsic_names() -> Vec<String> {
    let mut m = ir::Module::create();
    let mut names: Vec<String> = Vec::new();
    for id in m.function_registry.iter() {
        if m.function_registry.get_intrinsic_data(id).is_some() {
            let n = m.function_registry.get_function_name(id).to_string();
            if !n.is_empty() && !names.contains(&n) {
                names.push(n);
            }
        }
    }
    names.retain(|n| matches!(builtin_cands(&mut m, &Path::Intrinsic(n.clone())), Some(v) if !v.is_empty()));
    names.sort();
    names
}

/// (object number, method name) of the intrinsic methods with at least two describable overloads
fn object_methods() -> Vec<(u32, String)> {
    let mut out = Vec::new();
    for k in 0..OBJECTS.len() as u32 {
        let mut m = ir::Module::create();
        let Some(ot) = object_type(k, &mut m) else { continue };
        let oid = m.register_object(ot);
        let mut names: Vec<String> = Vec::new();
        for f in m.type_registry.get_object_functions(oid).clone() {
            let n = m.function_registry.get_function_name(f).to_string();
            if !n.is_empty() && !names.contains(&n) {
                names.push(n);
            }
        }
        for n in names {
            if matches!(builtin_cands(&mut m, &Path::Object(k, n.clone())), Some(v) if v.len() >= 2) {
                out.push((k, n));
            }
        }
    }
    out
}

fn random_arg(rng: &mut Rng, centre: Ty) -> ETy {
    match rng.below(16) {
        0 | 1 => ETy { lvalue: false, ty: Ty { mods: Mods(0), layer: Layer::Scalar(S_INTLIT) } },
        2 => ETy { lvalue: false, ty: Ty { mods: Mods(0), layer: Layer::Scalar(S_FLOATLIT) } },
        3 => {
            let l = related_ty(rng, centre).layer;
            // a const local needs an initialiser, which the generator only writes for numeric types
            ETy { lvalue: true, ty: Ty { mods: Mods(if is_numeric(l) { 1 } else { 0 }), layer: l } }
        }
        n => {
            let ty = related_ty(rng, centre);
            // a function cannot return an array: array arguments are always lvalues
            let is_array = matches!(ty.layer, Layer::Other(i) if (100..200).contains(&i));
            ETy { lvalue: n % 2 == 0 || is_array, ty }
        }
    }
}

fn grid_types() -> Vec<Ty> {
    let mut v = Vec::new();
    for s in GRID_SCALARS {
        v.push(Ty { mods: Mods(0), layer: Layer::Scalar(*s) });
        for n in 2..=4 {
            v.push(Ty { mods: Mods(0), layer: Layer::Vector(*s, n) });
        }
    }
    v
}

/// the universe of the exhaustive find/get_rank table
fn conv_universe(thorough: bool) -> Vec<ETy> {
    let mut layers = Vec::new();
    for s in 0..SCALARS.len() as u8 {
        layers.push(Layer::Scalar(s));
        for n in 1..=4 {
            layers.push(Layer::Vector(s, n));
        }
        layers.push(Layer::Matrix(s, 2, 2));
        layers.push(Layer::Matrix(s, 3, 2));
        if thorough {
            layers.push(Layer::Matrix(s, 1, 1));
            layers.push(Layer::Matrix(s, 4, 4));
        }
    }
    layers.push(Layer::Enum(0));
    layers.push(Layer::Enum(1));
    layers.push(Layer::Other(0));
    layers.push(Layer::Other(1));
    let mods: &[u8] = if thorough { &[0, 1, 2, 3, 4, 5] } else { &[0, 1, 2] };
    let mut v = Vec::new();
    for l in layers {
        for m in mods {
            for lv in [true, false] {
                v.push(ETy { lvalue: lv, ty: Ty { mods: Mods(*m), layer: l } });
            }
        }
    }
    v
}

pub fn run(args: &Args, out: &mut Out) {
    if args.extra.first().map(|s| s.as_str()) == Some("--probe") {
        // debugging aid: type check `----`-separated programs from a file and print the front end's answer
        let src = std::fs::read_to_string(&args.extra[1]).unwrap_or_default();
        for chunk in src.split("\n----\n") {
            match guard(|| front_end_src(chunk)) {
                Ok(Ok(_)) => println!("OK"),
                Ok(Err(e)) => println!("ERR {}: {}", e.stage(), e.text()),
                Err(p) => println!("PANIC {}", p),
            }
        }
        return;
    }
    let mut r = Runner::new();
    if let Some(lines) = args.request_lines() {
        for line in lines {
            let f: Vec<&str> = line.split('\t').collect();
            match f.as_slice() {
                ["C16.resolve", cs, az] | ["C16.resolve", cs, az, _] => {
                    let opts = parse_opts(if f.len() == 4 { f[3] } else { "" });
                    let cands: Option<Vec<Cand>> = if cs.is_empty() { Some(vec![]) } else { cs.split(';').map(parse_cand).collect() };
                    let az: Option<Vec<ETy>> = if az.is_empty() { Some(vec![]) } else { az.split(',').map(parse_ety).collect() };
                    match (cands, az, opts) {
                        (Some(c), Some(a), Some(o)) => r.resolve_case(&c, &a, &o, out),
                        _ => out.case(&line, "-", "SKIP:bad request"),
                    }
                }
                ["C16.seq", body] | ["C16.seq", body, _] => {
                    let path = parse_seq_path(if f.len() == 3 { f[2] } else { "" });
                    let items: Option<Vec<Item>> = body.split('|').map(parse_item).collect();
                    match (items, path) {
                        (Some(i), Some(p)) => r.seq_case(&i, &p, out),
                        _ => out.case(&line, "-", "SKIP:bad request"),
                    }
                }
                ["C16.conv", src, dsts] => {
                    let s = parse_ety(src);
                    let d: Option<Vec<ETy>> = dsts.split(' ').map(parse_ety).collect();
                    match (s, d) {
                        (Some(s), Some(d)) => r.conv_row(s, &d, out),
                        _ => out.case(&line, "-", "SKIP:bad request"),
                    }
                }
                _ => {}
            }
        }
        out.stat(&format!("{{\"mode\":\"replay\",\"compiles\":{},\"hist\":{}}}", r.compiles, r.hist.json()));
        return;
    }
    let mut rng = Rng::new(args.seed);
    let mut hist = Hist::default();

    // (1) exhaustive find/get_rank/get_target_type table over the type universe
    let uni = conv_universe(args.thorough());
    for s in &uni {
        r.conv_row(*s, &uni, out);
    }

    // (2) pairs of one-parameter candidates over the property's grid x {in,out}: both orders, every grid argument type
    //     as lvalue and rvalue plus the two untyped literals (quick: a seeded slice of the pairs)
    let grid = grid_types();
    let mut params = Vec::new();
    for t in &grid {
        params.push(Param { io: Io::In, ty: *t });
        params.push(Param { io: Io::Out, ty: *t });
    }
    let mut arg_list: Vec<ETy> = Vec::new();
    for t in &grid {
        arg_list.push(ETy { lvalue: true, ty: *t });
        arg_list.push(ETy { lvalue: false, ty: *t });
    }
    arg_list.push(ETy { lvalue: false, ty: Ty { mods: Mods(0), layer: Layer::Scalar(S_INTLIT) } });
    arg_list.push(ETy { lvalue: false, ty: Ty { mods: Mods(0), layer: Layer::Scalar(S_FLOATLIT) } });
    let mut pairs = 0u64;
    for i in 0..params.len() {
        for j in i + 1..params.len() {
            if !args.thorough() && rng.below(16) != 0 {
                continue;
            }
            pairs += 1;
            let set = vec![
                Cand { id: 0, non_default: 1, params: vec![params[i]], tkinds: Vec::new() },
                Cand { id: 1, non_default: 1, params: vec![params[j]], tkinds: Vec::new() },
            ];
            for a in &arg_list {
                r.all_orders(&set, &[*a], &Opts::plain(), out);
            }
        }
    }

    // (3) random candidate sets of 2-5 overloads with 1-3 parameters: every permutation x several argument tuples
    let n = args.n.unwrap_or(if args.thorough() { 5000 } else { 600 });
    let tuples = if args.thorough() { 6 } else { 4 };
    for _ in 0..n {
        let (cands, centre) = random_set(&mut rng, &mut hist);
        let with_defs = rng.chance(1, 4);
        if with_defs {
            hist.add("set:declared-then-defined");
        }
        for t in 0..tuples {
            let a: Vec<ETy> = if t == 0 {
                centre.iter().map(|c| ETy { lvalue: true, ty: *c }).collect()
            } else {
                centre.iter().map(|c| random_arg(&mut rng, *c)).collect()
            };
            // sometimes pass one argument more / fewer (default parameters, arity mismatch)
            let a = if t > 1 && rng.chance(1, 10) && a.len() > 1 {
                a[..a.len() - 1].to_vec()
            } else if t > 1 && rng.chance(1, 10) && a.len() < 3 {
                let mut b = a.clone();
                let g = grid_ty(&mut rng);
                b.push(random_arg(&mut rng, g));
                b
            } else {
                a
            };
            r.all_orders(&cands, &a, &Opts { with_defs, ..Opts::plain() }, out);
        }
    }

    // (4) the same kind of sets behind the other call paths: methods (external / internal call, struct templates),
    //     namespaces (qualified, reopened, inner scope hiding an exactly matching outer overload)
    let np = if args.n.is_some() { n / 4 } else if args.thorough() { 1500 } else { 160 };
    let paths = [
        Path::Method,
        Path::MethodIntFirst,
        Path::MethodIntLast,
        Path::TStruct,
        Path::Ns,
        Path::NsSplit,
        Path::NsInner,
        Path::NsNested,
        Path::NsAbsolute,
    ];
    for i in 0..np {
        let (cands, centre) = random_set(&mut rng, &mut hist);
        let path = paths[(i as usize) % paths.len()].clone();
        let with_defs = matches!(path, Path::Ns | Path::NsSplit | Path::NsInner | Path::NsAbsolute) && rng.chance(1, 4);
        for t in 0..3 {
            let a: Vec<ETy> = if t == 0 {
                centre.iter().map(|c| ETy { lvalue: true, ty: *c }).collect()
            } else {
                centre.iter().map(|c| random_arg(&mut rng, *c)).collect()
            };
            r.all_orders(&cands, &a, &Opts { with_defs, path: path.clone(), targs: Vec::new(), form: 0 }, out);
            // every size of the visible set, down to a single inner overload next to the hidden outer one
            if matches!(path, Path::NsInner | Path::NsNested | Path::NsAbsolute | Path::MethodIntFirst) {
                for k in 1..cands.len() {
                    r.all_orders(&cands[..k], &a, &Opts { with_defs, path: path.clone(), targs: Vec::new(), form: 0 }, out);
                }
            }
        }
    }

    // (5) function templates among the candidates: deduction from `T`, `vector<T, n>`, `matrix<T, x, y>`, value
    //     parameters, explicit template arguments, on several call paths
    let nt = if args.n.is_some() { n / 2 } else if args.thorough() { 2500 } else { 260 };
    let tpaths = [
        Path::Free,
        Path::Free,
        Path::Free,
        Path::Free,
        Path::Method,
        Path::Ns,
        Path::MethodIntFirst,
        Path::TStruct,
        Path::NsInner,
        Path::NsSplit,
    ];
    for i in 0..nt {
        let (cands, centre) = random_template_set(&mut rng, &mut hist);
        let path = tpaths[(i as usize) % tpaths.len()].clone();
        for t in 0..4 {
            let a: Vec<ETy> = if t == 0 {
                centre.iter().map(|c| ETy { lvalue: true, ty: *c }).collect()
            } else {
                centre.iter().map(|c| random_arg(&mut rng, *c)).collect()
            };
            let a = if t > 1 && rng.chance(1, 10) && a.len() > 1 { a[..a.len() - 1].to_vec() } else { a };
            let mut targs = Vec::new();
            if t == 3 || rng.chance(1, 8) {
                for k in 0..rng.range(1, 3) {
                    targs.push(if rng.chance(1, 6) {
                        None
                    } else if rng.chance(1, 2) && (k as usize) < centre.len() {
                        Some(centre[k as usize])
                    } else {
                        Some(related_ty(&mut rng, centre[0]))
                    });
                }
                if targs.len() == 3 && !rng.chance(1, 3) {
                    targs.pop();
                }
            }
            r.all_orders(&cands, &a, &Opts { with_defs: false, path: path.clone(), targs, form: 0 }, out);
        }
    }

    // (6) intrinsic functions: the compiler's own overload list (read from the function registry) alone and joined by
    //     user overloads of the same name; (7) intrinsic methods of objects
    let ni = if args.n.is_some() { n / 2 } else if args.thorough() { 3000 } else { 320 };
    let names = intrinsic_names();
    let methods = object_methods();
    // the overload lists that contain one of the compiler's own templates
    let mut templated: Vec<Path> = Vec::new();
    for (k, m) in &methods {
        templated.push(Path::Object(*k, m.clone()));
    }
    for n in &names {
        templated.push(Path::Intrinsic(n.clone()));
    }
    templated.retain(|p| matches!(Runner::builtins(p), Some(b) if b.iter().any(|c| !c.tkinds.is_empty())));
    for i in 0..ni {
        let path = if i % 8 == 7 && !templated.is_empty() {
            rng.pick(&templated).clone()
        } else if i % 4 == 3 && !methods.is_empty() {
            let (k, m) = rng.pick(&methods).clone();
            Path::Object(k, m)
        } else {
            Path::Intrinsic(rng.pick(&names).clone())
        };
        let Some(builtins) = Runner::builtins(&path) else { continue };
        if builtins.is_empty() {
            continue;
        }
        let model = rng.pick(&builtins).clone();
        let mut users: Vec<Cand> = Vec::new();
        if let Path::Intrinsic(_) = path {
            let want = match rng.below(20) {
                0..=9 => 0,
                10..=16 => 1,
                _ => 2,
            };
            let mut tries = 0;
            while users.len() < want && tries < 50 {
                tries += 1;
                let params: Vec<Param> = model
                    .params
                    .iter()
                    .map(|p| Param {
                        io: p.io,
                        ty: if is_object_layer(p.ty.layer) {
                            p.ty
                        } else if is_template_layer(p.ty.layer) {
                            grid_ty(&mut rng)
                        } else {
                            related_ty(&mut rng, p.ty)
                        },
                    })
                    .collect();
                if builtins.iter().any(|b| b.params == params) || users.iter().any(|u| u.params == params) {
                    continue;
                }
                users.push(Cand { id: users.len() as u32, non_default: params.len(), params, tkinds: Vec::new() });
            }
        }
        for t in 0..3 {
            let a: Vec<ETy> = model
                .params
                .iter()
                .map(|p| {
                    if is_object_layer(p.ty.layer) {
                        ETy { lvalue: true, ty: p.ty }
                    } else if is_template_layer(p.ty.layer) {
                        let g = if rng.chance(1, 4) { off_grid_ty(&mut rng) } else { grid_ty(&mut rng) };
                        random_arg(&mut rng, g)
                    } else if t == 0 {
                        ETy { lvalue: true, ty: p.ty }
                    } else if p.io != Io::In && rng.chance(2, 3) {
                        ETy { lvalue: true, ty: related_ty(&mut rng, p.ty) }
                    } else {
                        random_arg(&mut rng, p.ty)
                    }
                })
                .collect();
            // the compiler's own templates (`T Load<T>(uint)`, `Store(uint, T)`, `DispatchMesh(.., T)`): explicit type arguments
            let mut targs = Vec::new();
            if builtins.iter().any(|b| !b.tkinds.is_empty()) && rng.chance(1, 2) {
                // (a constant for the type parameter: `b.Load<4>(0)` - not viable since /repo 5dca4fc)
                targs.push(if rng.chance(1, 6) {
                    None
                } else {
                    Some(if rng.chance(1, 4) { off_grid_ty(&mut rng) } else { grid_ty(&mut rng) })
                });
            }
            r.all_orders(&users, &a, &Opts { with_defs: false, path: path.clone(), targs, form: 0 }, out);
        }
    }
    // (8) the same argument *types* written as other expressions (members of a local struct, casts, globals): the
    //     verdict may depend on the types only
    let nf = if args.n.is_some() { n / 8 } else if args.thorough() { 600 } else { 90 };
    for i in 0..nf {
        let (cands, centre) = random_set(&mut rng, &mut hist);
        let path = [Path::Free, Path::Method, Path::MethodIntLast, Path::NsInner][(i as usize) % 4].clone();
        for t in 0..2 {
            let a: Vec<ETy> = if t == 0 {
                centre.iter().map(|c| ETy { lvalue: true, ty: *c }).collect()
            } else {
                centre.iter().map(|c| random_arg(&mut rng, *c)).collect()
            };
            for form in 1..=2 {
                r.all_orders(&cands, &a, &Opts { with_defs: false, path: path.clone(), targs: Vec::new(), form }, out);
            }
        }
    }
    // (9) output arguments: sets in which an `out` / `inout` parameter meets an lvalue of its own type, of the 1-vector /
    //     scalar twin of its type (ranked Exact/Exact by the resolution, refused afterwards: the reshaped argument is an
    //     rvalue), of another type, or a const object - next to `in` overloads and templates (`out T`, `out vector<T, 1>`)
    let no = if args.n.is_some() { n / 2 } else if args.thorough() { 3000 } else { 400 };
    let opaths = [Path::Free, Path::Free, Path::Method, Path::Ns, Path::MethodIntLast, Path::TStruct, Path::NsInner];
    for i in 0..no {
        let (cands, centre) = output_set(&mut rng, &mut hist);
        let path = opaths[(i as usize) % opaths.len()].clone();
        for t in 0..3 {
            let a: Vec<ETy> = centre
                .iter()
                .map(|c| {
                    let s = scalar_of(c.layer);
                    match (t, rng.below(8)) {
                        (0, _) => ETy { lvalue: true, ty: *c },
                        (_, 0..=2) => ETy { lvalue: true, ty: Ty { mods: Mods(0), layer: twin_layer(c.layer) } },
                        (_, 3) => ETy { lvalue: true, ty: Ty { mods: Mods(1), layer: c.layer } },
                        (_, 4) => ETy { lvalue: false, ty: *c },
                        (_, 5) => ETy { lvalue: true, ty: Ty { mods: Mods(0), layer: Layer::Vector(s, 2) } },
                        _ => ETy { lvalue: true, ty: *c },
                    }
                })
                .collect();
            r.all_orders(&cands, &a, &Opts { with_defs: false, path: path.clone(), targs: Vec::new(), form: (i % 3) as u8 }, out);
        }
    }
    // (10) calls interleaved with declarations: one program declares the overloads one by one (in a shuffled order, in
    //      reopened namespaces, as methods, behind the compiler's own overloads, templates among them, prototypes defined
    //      later) and calls the name after each declaration - the same arguments again and again, from the root, qualified,
    //      from inside the namespace, from sibling methods, from inside template bodies instantiated before and after
    let nq = if args.n.is_some() { n / 2 } else if args.thorough() { 12000 } else { 1300 };
    for i in 0..nq {
        let kind = i % 12;
        let (mut cands, centre) = match kind {
            4 | 5 => random_template_set(&mut rng, &mut hist),
            10 => output_set(&mut rng, &mut hist),
            _ => random_set(&mut rng, &mut hist),
        };
        if i % 24 == 4 {
            // the instantiation registry: a template over two type parameters that every call instantiates, called with
            // argument tuples that share the first / the later argument types
            let arity = rng.range(2, 3) as usize;
            let centre2: Vec<Ty> = (0..arity).map(|_| grid_ty(&mut rng)).collect();
            let params: Vec<Param> = (0..arity)
                .map(|k| {
                    let tk = (k % 2) as u8;
                    let layer = match (rng.below(4), centre2[k].layer) {
                        (0, Layer::Vector(_, n)) => Layer::TVec(tk, n),
                        _ => Layer::TVar(tk),
                    };
                    Param { io: Io::In, ty: Ty { mods: Mods(0), layer } }
                })
                .collect();
            let mut cs = vec![Cand { id: 0, non_default: arity, params, tkinds: vec![true, true] }];
            for _ in 0..rng.range(0, 2) {
                let params: Vec<Param> = centre2.iter().map(|c| Param { io: random_io(&mut rng), ty: related_ty(&mut rng, *c) }).collect();
                if !cs.iter().any(|c| c.params == params) {
                    cs.push(Cand { id: cs.len() as u32, non_default: arity, params, tkinds: Vec::new() });
                }
            }
            cands = cs;
            let base: Vec<ETy> = centre2.iter().map(|c| ETy { lvalue: true, ty: *c }).collect();
            let mut later = base.clone();
            for k in 1..arity {
                later[k] = ETy { lvalue: true, ty: grid_ty(&mut rng) };
            }
            let mut first = base.clone();
            first[0] = ETy { lvalue: true, ty: grid_ty(&mut rng) };
            let mut items: Vec<Item> = Vec::new();
            for k in (1..cands.len()).rev() {
                let j = rng.below(k as u64 + 1) as usize;
                cands.swap(k, j);
            }
            for c in &cands {
                items.push(Item::Decl(0, c.clone()));
                for t in [&base, &later, &first, &base] {
                    items.push(Item::Site(0, t.clone(), Vec::new()));
                }
            }
            r.seq_case(&items, &SeqPath::Free, out);
            continue;
        }
        if kind == 11 {
            // the compiler's own overloads of an intrinsic, joined by user overloads one at a time
            let name = rng.pick(&names).clone();
            let path = Path::Intrinsic(name.clone());
            let Some(builtins) = Runner::builtins(&path) else { continue };
            if builtins.is_empty() {
                continue;
            }
            let model = rng.pick(&builtins).clone();
            let mut users: Vec<Cand> = Vec::new();
            let mut tries = 0;
            while users.len() < 2 && tries < 50 {
                tries += 1;
                let params: Vec<Param> = model
                    .params
                    .iter()
                    .map(|p| Param {
                        io: p.io,
                        ty: if is_object_layer(p.ty.layer) {
                            p.ty
                        } else if is_template_layer(p.ty.layer) {
                            grid_ty(&mut rng)
                        } else {
                            related_ty(&mut rng, p.ty)
                        },
                    })
                    .collect();
                if builtins.iter().any(|b| b.params == params) || users.iter().any(|u| u.params == params) {
                    continue;
                }
                users.push(Cand { id: users.len() as u32, non_default: params.len(), params, tkinds: Vec::new() });
            }
            let mut tuples: Vec<Vec<ETy>> = Vec::new();
            for t in 0..2 {
                tuples.push(
                    model
                        .params
                        .iter()
                        .map(|p| {
                            if is_object_layer(p.ty.layer) {
                                ETy { lvalue: true, ty: p.ty }
                            } else if is_template_layer(p.ty.layer) {
                                let g = grid_ty(&mut rng);
                                random_arg(&mut rng, g)
                            } else if t == 0 || p.io != Io::In {
                                ETy { lvalue: true, ty: p.ty }
                            } else {
                                random_arg(&mut rng, p.ty)
                            }
                        })
                        .collect(),
                );
            }
            let mut items: Vec<Item> = builtins.iter().map(|b| Item::Decl(0, b.clone())).collect();
            for t in &tuples {
                items.push(Item::Site(0, t.clone(), Vec::new()));
            }
            // a struct / enum / typedef / cbuffer with the intrinsic's name, before, between or after the user's overloads
            let other_at = if rng.chance(1, 2) { Some(rng.below(users.len() as u64 + 1) as usize) } else { None };
            let other_kind = *rng.pick(b"setb");
            for (ui, u) in users.iter().enumerate() {
                if other_at == Some(ui) {
                    items.push(Item::Other(0, other_kind));
                    items.push(Item::Site(0, tuples[0].clone(), Vec::new()));
                }
                items.push(Item::Decl(0, u.clone()));
                for t in &tuples {
                    items.push(Item::Site(0, t.clone(), Vec::new()));
                }
            }
            if other_at == Some(users.len()) {
                items.push(Item::Other(0, other_kind));
                items.push(Item::Site(0, tuples[0].clone(), Vec::new()));
            }
            r.seq_case(&items, &SeqPath::Intrinsic(name), out);
            continue;
        }
        // a shuffled declaration order
        for k in (1..cands.len()).rev() {
            let j = rng.below(k as u64 + 1) as usize;
            cands.swap(k, j);
        }
        let mut tuples: Vec<Vec<ETy>> = vec![centre.iter().map(|c| ETy { lvalue: true, ty: *c }).collect()];
        for _ in 0..rng.range(0, 2) {
            tuples.push(centre.iter().map(|c| random_arg(&mut rng, *c)).collect());
        }
        // the same types in another value category (an rvalue, a const object): a verdict may be shared between calls
        // only if the arguments are the same *expression types*
        let is_array = |t: &Ty| matches!(t.layer, Layer::Other(i) if (100..200).contains(&i));
        if rng.chance(1, 3) {
            tuples.push(centre.iter().map(|c| ETy { lvalue: is_array(c), ty: *c }).collect());
        }
        if rng.chance(1, 6) {
            tuples.push(
                centre
                    .iter()
                    .map(|c| ETy { lvalue: true, ty: Ty { mods: Mods(if is_numeric(c.layer) { 1 } else { 0 }), layer: c.layer } })
                    .collect(),
            );
        }
        // templates: the same first argument with other later ones (an instantiation is found again by *all* its arguments)
        if matches!(kind, 4 | 5) && centre.len() > 1 {
            let mut t = tuples[0].clone();
            for k in 1..t.len() {
                t[k] = random_arg(&mut rng, centre[k]);
            }
            tuples.push(t);
        }
        tuples.dedup();
        let path = if kind == 9 { if i % 24 == 9 { SeqPath::TStruct } else { SeqPath::Method } } else { SeqPath::Free };
        let with_ns = matches!(kind, 5 | 6 | 7) || (path == SeqPath::Method && (i / 24) % 2 == 1);
        let with_helpers = matches!(kind, 7 | 8) ;
        let explicit: Vec<Option<Ty>> = if matches!(kind, 4 | 5) && rng.chance(1, 5) { vec![Some(centre[0])] } else { Vec::new() };
        let mut items: Vec<Item> = Vec::new();
        if rng.chance(1, 10) && path == SeqPath::Free {
            // a call before anything is declared
            items.push(Item::Site(rng.below(4) as u8, tuples[0].clone(), Vec::new()));
        }
        let mut helper_modes: Vec<u8> = Vec::new();
        let mut pending_defs: Vec<u32> = Vec::new();
        for (di, c) in cands.iter().enumerate() {
            let scope = if with_ns && rng.chance(1, 2) { 1 } else { 0 };
            items.push(Item::Decl(scope, c.clone()));
            if path == SeqPath::Free && c.tkinds.is_empty() && rng.chance(1, 4) {
                pending_defs.push(c.id);
            }
            if with_helpers && di == 0 {
                for j in 0..rng.range(1, 2) as u32 {
                    let m = if with_ns { *rng.pick(&[0u8, 1, 2, 3]) } else { 0 };
                    helper_modes.push(m);
                    items.push(Item::Helper(j, m, tuples[(j as usize) % tuples.len()].clone(), rng.chance(1, 2)));
                }
            }
            let last = di + 1 == cands.len();
            if last || rng.chance(4, 5) {
                for t in &tuples {
                    let mode = match path {
                        SeqPath::Method if with_ns => rng.below(4) as u8,
                        SeqPath::Method => rng.below(2) as u8,
                        SeqPath::TStruct => 1,
                        _ if with_ns => rng.below(4) as u8,
                        _ => 0,
                    };
                    items.push(Item::Site(mode, t.clone(), explicit.clone()));
                }
                for j in 0..helper_modes.len() as u32 {
                    if rng.chance(2, 3) {
                        items.push(Item::Trigger(j, rng.chance(1, 3)));
                    }
                }
            }
            // the definition of a function declared before, then the same calls again
            if !pending_defs.is_empty() && (last || rng.chance(1, 2)) {
                let id = pending_defs.remove(0);
                if id != c.id || last {
                    items.push(Item::Define(id));
                    items.push(Item::Site(0, tuples[0].clone(), explicit.clone()));
                } else {
                    pending_defs.push(id);
                }
            }
        }
        if path == SeqPath::Method {
            // a call names a struct that has a method of the name
            let has = |sc: u8| items.iter().any(|x| matches!(x, Item::Decl(s, _) if *s == sc));
            let (has0, has1) = (has(0), has(1));
            for it in items.iter_mut() {
                if let Item::Site(m, _, _) = it {
                    if *m >= 2 && !has1 {
                        *m -= 2;
                    } else if *m < 2 && !has0 {
                        *m += 2;
                    }
                }
            }
        }
        r.seq_case(&items, &path, out);
        // the same declarations the other way round: the last sites of both see the same set
        if i % 3 == 0 {
            let decls: Vec<usize> = items.iter().enumerate().filter(|(_, x)| matches!(x, Item::Decl(..))).map(|(k, _)| k).collect();
            let mut rev = items.clone();
            for (a, b) in decls.iter().zip(decls.iter().rev()) {
                rev[*a] = items[*b].clone();
            }
            // a definition may now stand above its declaration: drop the definitions
            rev.retain(|x| !matches!(x, Item::Define(_)));
            r.seq_case(&rev, &path, out);
        }
    }

    // (11) symbols that are not functions but carry the name of the overload set (struct, enum, typedef, cbuffer, namespace),
    //      at every place of the declaration sequence - before all overloads, between any two, after all - in the root scope
    //      and in the namespace, the same calls after every item: a candidate is visible whatever else of that name
    //      stands between it and the call
    let nsym = if args.n.is_some() { n / 8 } else if args.thorough() { 3000 } else { 330 };
    for i in 0..nsym {
        let (mut cands, centre) = match i % 6 {
            3 => random_template_set(&mut rng, &mut hist),
            5 => output_set(&mut rng, &mut hist),
            _ => random_set(&mut rng, &mut hist),
        };
        for k in (1..cands.len()).rev() {
            let j = rng.below(k as u64 + 1) as usize;
            cands.swap(k, j);
        }
        let mut tuples: Vec<Vec<ETy>> = vec![centre.iter().map(|c| ETy { lvalue: true, ty: *c }).collect()];
        for _ in 0..rng.range(1, 2) {
            tuples.push(centre.iter().map(|c| random_arg(&mut rng, *c)).collect());
        }
        tuples.dedup();
        // 0: everything at the root, 1: everything in N, 2 / 3: mixed
        let layout = (i / 2) % 4;
        let scopes: Vec<u8> = cands.iter().map(|_| match layout { 0 => 0, 1 => 1, _ => rng.below(2) as u8 }).collect();
        let nslots = cands.len() + 1;
        // the symbols: per scope at most one type, one cbuffer, one namespace (first, and never next to an enum)
        let mut others: Vec<(usize, u8, u8)> = Vec::new(); // slot, scope, kind
        for sc in 0..2u8 {
            if (layout == 0 && sc == 1) || (layout == 1 && sc == 0 && rng.chance(1, 2)) {
                continue;
            }
            let ty = *rng.pick(b"-sset");
            if ty != b'-' {
                others.push((rng.below(nslots as u64) as usize, sc, ty));
            }
            if rng.chance(1, 3) {
                others.push((rng.below(nslots as u64) as usize, sc, b'b'));
            }
            if ty != b'e' && rng.chance(1, 5) {
                others.push((0, sc, b'n'));
            }
        }
        if others.iter().all(|o| o.2 == b'n') {
            let sc = if layout == 1 { 1 } else { 0 };
            others.retain(|o| o.1 != sc || o.2 == b'n');
            others.push((0, sc, *rng.pick(b"stb")));
        }
        // every place gets its turn: the first symbol that is not a namespace stands at place i mod (number of places)
        if let Some(o) = others.iter_mut().find(|o| o.2 != b'n') {
            o.0 = (i as usize) % nslots;
        }
        // namespaces first within their slot
        others.sort_by_key(|o| (o.0, o.2 != b'n'));
        let mut items: Vec<Item> = Vec::new();
        let sites = |items: &mut Vec<Item>, rng: &mut Rng| {
            for t in &tuples {
                let mode = if layout == 0 { if rng.chance(1, 6) { 3 } else { 0 } } else { rng.below(4) as u8 };
                items.push(Item::Site(mode, t.clone(), Vec::new()));
            }
        };
        for slot in 0..nslots {
            for o in others.iter().filter(|o| o.0 == slot) {
                items.push(Item::Other(o.1, o.2));
                if o.2 != b'n' || rng.chance(1, 2) {
                    sites(&mut items, &mut rng);
                }
            }
            if slot < cands.len() {
                items.push(Item::Decl(scopes[slot], cands[slot].clone()));
                sites(&mut items, &mut rng);
            }
        }
        // the definition of a function declared before some of the symbols (the redefinition check of `parse_function`
        // looks the name up through the same loop), then the same calls again
        if i % 3 == 1 {
            if let Some(c) = cands.iter().find(|c| c.tkinds.is_empty()) {
                items.push(Item::Define(c.id));
                sites(&mut items, &mut rng);
            }
        }
        r.seq_case(&items, &SeqPath::Free, out);
        // the same unit with the overloads the other way round
        if i % 2 == 0 {
            let decls: Vec<usize> = items.iter().enumerate().filter(|(_, x)| matches!(x, Item::Decl(..))).map(|(k, _)| k).collect();
            let mut rev = items.clone();
            for (a, b) in decls.iter().zip(decls.iter().rev()) {
                rev[*a] = items[*b].clone();
            }
            rev.retain(|x| !matches!(x, Item::Define(_)));
            r.seq_case(&rev, &SeqPath::Free, out);
        }
    }
    // (12) a function declared more than once with OTHER default arguments: prototype then definition, two prototypes,
    //      prototype + prototype + definition; the default values on the first declaration only, on a later one only, on
    //      both, on none; next to an overload that takes the shorter argument list; the same calls after every
    //      declaration; and the same unit with the declarations of the function the other way round
    let nre = if args.n.is_some() { n / 8 } else if args.thorough() { 2500 } else { 260 };
    for i in 0..nre {
        let m = rng.range(1, 3) as usize;
        let mut centre: Vec<Ty> = vec![grid_ty(&mut rng)];
        for _ in 1..m {
            let c0 = centre[0];
            centre.push(if rng.chance(1, 2) { related_ty(&mut rng, c0) } else { grid_ty(&mut rng) });
        }
        // every third unit: the function is a template - the first parameter (or, 1/4, none: its parameter types mention no
        // template parameter) is `T` / `vector<T, n>`; a definition further down makes the first declaration its prototype
        let tmpl = i % 3 == 1;
        let mention = tmpl && i % 12 != 1;
        let first_layer = match centre[0].layer {
            Layer::Vector(_, n) if mention && rng.chance(1, 2) => Layer::TVec(0, n),
            _ if mention => Layer::TVar(0),
            l => l,
        };
        let main = |nd: usize| Cand {
            id: 0,
            non_default: nd,
            params: centre
                .iter()
                .enumerate()
                .map(|(k, t)| Param { io: Io::In, ty: if k == 0 { Ty { mods: Mods(0), layer: first_layer } } else { *t } })
                .collect(),
            tkinds: if tmpl { vec![true] } else { vec![] },
        };
        let nd_a = rng.below(m as u64 + 1) as usize;
        let nd_b = if i % 5 == 4 { nd_a } else { rng.below(m as u64 + 1) as usize };
        let sc: u8 = if i % 3 == 2 { 1 } else { 0 };
        // companions: one that takes a shorter list of related types (it wins or ties when the defaults of the main one
        // are not counted), sometimes one with the full list of other types
        let mut comps: Vec<Cand> = Vec::new();
        if i % 4 != 0 {
            let len = rng.below(m as u64 + 1) as usize;
            let ps: Vec<Param> = centre[..len].iter().map(|t| Param { io: Io::In, ty: related_ty(&mut rng, *t) }).collect();
            if ps.iter().map(|p| p.ty).collect::<Vec<_>>() != centre {
                comps.push(Cand { id: 1, non_default: len, params: ps, tkinds: vec![] });
            }
        }
        if i % 4 == 3 {
            let ps: Vec<Param> = centre.iter().map(|t| Param { io: Io::In, ty: related_ty(&mut rng, *t) }).collect();
            if ps.iter().map(|p| p.ty).collect::<Vec<_>>() != centre && comps.iter().all(|c| c.params != ps) {
                comps.push(Cand { id: 2, non_default: m, params: ps, tkinds: vec![] });
            }
        }
        let mut tuples: Vec<Vec<ETy>> = Vec::new();
        for len in 0..=m {
            if len == nd_a || len == nd_b || len == m || rng.chance(1, 3) {
                tuples.push(centre[..len].iter().map(|c| ETy { lvalue: true, ty: *c }).collect());
            }
        }
        let len = rng.range(nd_a.min(nd_b) as i64, m as i64) as usize;
        tuples.push(centre[..len].iter().map(|c| random_arg(&mut rng, *c)).collect());
        tuples.dedup();
        let mode: u8 = if sc == 0 { 0 } else { *rng.pick(&[1u8, 2]) };
        let later_def = rng.chance(1, 2);
        let third = i % 7 == 6;
        let nd_c = rng.below(m as u64 + 1) as usize;
        let comp_slot: Vec<usize> = comps.iter().map(|_| rng.below(3) as usize).collect();
        let unit = |first: usize, later: usize| -> Vec<Item> {
            let mut items: Vec<Item> = Vec::new();
            let sites = |items: &mut Vec<Item>| {
                for t in &tuples {
                    // `T` cannot be deduced from a parameter list that does not mention it: name it
                    let targs = if tmpl && !mention { vec![Some(Ty { mods: Mods(0), layer: Layer::Scalar(2) })] } else { Vec::new() };
                    items.push(Item::Site(mode, t.clone(), targs));
                }
            };
            let place = |items: &mut Vec<Item>, slot: usize| {
                for (c, s) in comps.iter().zip(&comp_slot) {
                    if *s == slot {
                        items.push(Item::Decl(sc, c.clone()));
                    }
                }
            };
            place(&mut items, 0);
            items.push(Item::Decl(sc, main(first)));
            sites(&mut items);
            place(&mut items, 1);
            if third && i % 2 == 0 {
                // the definition first, then one more prototype
                items.push(Item::Redecl(0, nd_c, true));
                sites(&mut items);
                items.push(Item::Redecl(0, later, false));
            } else if third {
                items.push(Item::Redecl(0, later, false));
                sites(&mut items);
                items.push(Item::Redecl(0, nd_c, true));
            } else {
                items.push(Item::Redecl(0, later, later_def));
            }
            sites(&mut items);
            place(&mut items, 2);
            if comp_slot.contains(&2) {
                sites(&mut items);
            }
            items
        };
        r.seq_case(&unit(nd_a, nd_b), &SeqPath::Free, out);
        if nd_a != nd_b {
            // the same declarations of the function, the other one first
            r.seq_case(&unit(nd_b, nd_a), &SeqPath::Free, out);
        }
    }
    for (k, v) in &hist.0 {
        for _ in 0..*v {
            r.hist.add(k);
        }
    }
    out.stat(&format!(
        "{{\"conv_universe\":{},\"conv_pairs\":{},\"single_param_pairs\":{},\"random_sets\":{},\"tuples_per_set\":{},\"path_sets\":{},\"template_sets\":{},\"intrinsic_cases\":{},\"output_sets\":{},\"sequences\":{},\"same_name_symbol_units\":{},\"redeclaration_units\":{},\"compiles\":{},\"hist\":{}}}",
        uni.len(),
        uni.len() * uni.len(),
        pairs,
        n,
        tuples,
        np,
        nt,
        ni,
        no,
        nq,
        nsym,
        nre,
        r.compiles,
        r.hist.json()
    ));
}

import RsslVerif.Model.InstCache
/-!
# The instantiation cache returns only the instantiation that was asked for (C13)
-/
namespace RsslVerif.Lemmas.InstCache
open RsslVerif.Gen.InstTable RsslVerif.Model.ConstEval RsslVerif.Model.ConstPos RsslVerif.Model.InstCache

/-- tie: the comparison extracted from `find_instantiation` is the derived `==` (refuted when the source compares in
    another way the extractor can read, e.g. through `to_uint64`) -/
theorem fnKeyMode_exact : fnKeyMode = .exact := by decide

theorem argEq_is_derived : argEqDerived = true ∧ structMapKeyedByArgs = true := by decide

theorem sameKey_exact (a b : List Arg) : sameKey .exact a b = true ↔ a = b := by
  induction a generalizing b with
  | nil => cases b <;> simp [sameKey]
  | cons x xs ih =>
    cases b with
    | nil => simp [sameKey]
    | cons y ys => simp [sameKey, sameArg, ih]

theorem find_sound {α : Type} (p : Nat) (k : List Arg) (c : List (Entry α)) (e : Entry α)
    (h : find .exact p k c = some e) : e ∈ c ∧ e.parent = p ∧ e.key = k := by
  induction c with
  | nil => simp [find] at h
  | cons x r ih =>
    unfold find at h
    split at h
    · rename_i hc
      cases h
      simp only [Bool.and_eq_true, decide_eq_true_eq, sameKey_exact] at hc
      exact ⟨List.mem_cons_self, hc.1, hc.2⟩
    · have := ih h
      exact ⟨List.mem_cons_of_mem _ this.1, this.2⟩

theorem find_complete {α : Type} (p : Nat) (k : List Arg) (c : List (Entry α))
    (h : ∃ e ∈ c, e.parent = p ∧ e.key = k) : (find .exact p k c).isSome = true := by
  induction c with
  | nil => obtain ⟨e, he, _⟩ := h; cases he
  | cons x r ih =>
    unfold find
    split
    · rfl
    · rename_i hc
      apply ih
      obtain ⟨e, he, hp, hk⟩ := h
      rcases List.mem_cons.mp he with rfl | hr
      · exfalso; apply hc
        simp only [Bool.and_eq_true, decide_eq_true_eq, sameKey_exact]
        exact ⟨hp, hk⟩
      · exact ⟨e, hr, hp, hk⟩

/-- every registered instantiation is what building it from its own recorded arguments gives -/
def Inv {α : Type} (build : Nat → List Arg → α) (c : List (Entry α)) : Prop :=
  ∀ e ∈ c, e.val = build e.parent e.key

theorem use_exact {α : Type} (build : Nat → List Arg → α) (c : List (Entry α)) (p : Nat) (k : List Arg)
    (hinv : Inv build c) :
    (use .exact build c p k).2 = build p k ∧ Inv build (use .exact build c p k).1 := by
  unfold use
  cases hf : find .exact p k c with
  | some e =>
    obtain ⟨hm, hp, hk⟩ := find_sound p k c e hf
    refine ⟨?_, hinv⟩
    simp only
    rw [hinv e hm, hp, hk]
  | none =>
    refine ⟨rfl, ?_⟩
    intro e he
    simp only at he
    rcases List.mem_append.mp he with h | h
    · exact hinv e h
    · simp only [List.mem_singleton] at h
      subst h
      rfl

theorem run_exact {α : Type} (build : Nat → List Arg → α) (calls : List (Nat × List Arg)) (c : List (Entry α))
    (hinv : Inv build c) :
    run .exact build c calls = calls.map (fun pk => build pk.1 pk.2) := by
  induction calls generalizing c with
  | nil => rfl
  | cons pk r ih =>
    obtain ⟨p, k⟩ := pk
    have hu := use_exact build c p k hinv
    simp only [run, List.map_cons]
    rw [hu.1, ih _ hu.2]

/-! ### struct templates -/

theorem complete_idem (ds k : List Arg) (hlen : k.length ≤ ds.length) : complete ds (complete ds k) = complete ds k := by
  have : (complete ds k).length = ds.length := by
    simp only [complete, List.length_append, List.length_drop]
    omega
  unfold complete at this ⊢
  rw [this]
  simp

def InvS {α : Type} (build : List Arg → α) (ds : List Arg) (c : List (Entry α)) : Prop :=
  ∀ e ∈ c, e.key.length ≤ ds.length ∧ e.val = build (complete ds e.key)

theorem useStruct_exact {α : Type} (build : List Arg → α) (ds : List Arg) (c : List (Entry α)) (k : List Arg)
    (hlen : k.length ≤ ds.length) (hinv : InvS build ds c) :
    (useStruct build ds c k).2 = build (complete ds k) ∧ InvS build ds (useStruct build ds c k).1 := by
  unfold useStruct
  cases hf : find .exact 0 k c with
  | some e =>
    obtain ⟨hm, _, hk⟩ := find_sound 0 k c e hf
    refine ⟨?_, hinv⟩
    simp only
    rw [(hinv e hm).2, hk]
  | none =>
    have hv : (match find .exact 0 (complete ds k) c with
        | some e => e.val
        | none => build (complete ds k)) = build (complete ds k) := by
      cases hf2 : find .exact 0 (complete ds k) c with
      | none => rfl
      | some e =>
        obtain ⟨hm, _, hk⟩ := find_sound 0 (complete ds k) c e hf2
        simp only
        rw [(hinv e hm).2, hk, complete_idem ds k hlen]
    simp only
    refine ⟨hv, ?_⟩
    intro e he
    rcases List.mem_append.mp he with h | h
    · exact hinv e h
    · simp only [List.mem_singleton] at h
      subst h
      exact ⟨hlen, hv⟩

theorem runStruct_exact {α : Type} (build : List Arg → α) (ds : List Arg) (uses : List (List Arg)) (c : List (Entry α))
    (hlen : ∀ k ∈ uses, k.length ≤ ds.length) (hinv : InvS build ds c) :
    runStruct build ds c uses = uses.map (fun k => build (complete ds k)) := by
  induction uses generalizing c with
  | nil => rfl
  | cons k r ih =>
    have hu := useStruct_exact build ds c k (hlen k List.mem_cons_self) hinv
    simp only [runStruct, List.map_cons]
    rw [hu.1, ih _ (fun k' hk' => hlen k' (List.mem_cons_of_mem _ hk')) hu.2]

end RsslVerif.Lemmas.InstCache

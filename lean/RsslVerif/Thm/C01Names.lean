import RsslVerif.Thm.C15
import RsslVerif.Lemmas.GenSemLit
import RsslVerif.Gen.UsageTables
/-!
# C01 ∘ C15: where the hypothesis `Agree` of `gen_sem_*` comes from

`gen_sem_expr … gen_sem_program` (Thm/C01.lean) assume `Agree cx env`: every emitted name denotes, in the C semantics of
the emitted text, the variable / function the IR node referred to.  The emitted names are those of `NameMap::build`
(property C15, model `Model.Names.build`).  This file states

* what `Agree` needs of a name assignment, exactly: it is satisfiable **iff-style** — unsatisfiable as soon as two
  variables share a name (`agree_unsatisfiable_of_shared_name`), satisfiable when the assignment is injective on variables
  and on functions and no function is called like a modelled built-in (`agree_of_injective`);
* what C15's model of the **local-variable pass** gives: two local variables are printed with the same name only if both
  *kept* the same source name (`assignLocals_collision_free`, lifted to `build` in `local_pass_collision_free`), so a
  renamed local never meets another local (this is the clause seeded mutant C01-4 falsifies: `pass_1`, `pass` ↦
  `pass_1`, `pass_1`), and locals with pairwise different source names get pairwise different names
  (`locals_with_distinct_sources_stay_distinct`).

Together with `Thm.C15.locals_apart_from_used` (a local never takes the name of a used function / global),
`Thm.C15.never_reserved` (no emitted name is a built-in: the HLSL reserved list contains the intrinsic names) and
`Thm.C15.injective_per_scope` (file-scope names are unique per scope) these are the premises of `agree_of_injective`
for a function whose source does not declare one name twice.  **Not closed in Lean** (cited, informal): the identification of
`Ctx.locName / globName / funcName` of a C01 request with the `Named` list of `Model.Names.build` for the module (the
harness serialises the real `NameMap` into the request's `vars= / globs= / funcs=`; C15's correspondence stream compares
that map with `Model.Names.build`), and block scoping — a source that shadows a name keeps both declarations verbatim,
`Agree` is then unsatisfiable by a flat environment and the theorems do not apply (the harness's text evaluator resolves
names by C block scoping instead).
-/
namespace RsslVerif.Thm.C01Names
open RsslVerif.Model RsslVerif.Model.GenHlsl RsslVerif.Spec.Sem RsslVerif.Lemmas.GenSem
open RsslVerif.Model.Ir (Ty Var)
open RsslVerif.Model.Names RsslVerif.Lemmas.Names

/-! ## what `Agree` needs -/

/-- A name map that gives two different variables one name falsifies `Agree` for **every** environment: no reading of the
emitted text can make both uses refer to their own entity. -/
theorem agree_unsatisfiable_of_shared_name {cx : Ctx} {x y : Var} (hxy : x ≠ y) (hn : cx.name x = cx.name y) :
    ¬ ∃ env : Ast.Env, Agree cx env := by
  rintro ⟨env, h⟩
  have h1 := h.res x
  have h2 := h.res y
  rw [hn, h2] at h1
  exact hxy (Option.some.inj h1).symm

/-- the same for functions -/
theorem agree_unsatisfiable_of_shared_function_name {cx : Ctx} {f g : Nat} (hfg : f ≠ g)
    (hn : cx.funcName f = cx.funcName g) : ¬ ∃ env : Ast.Env, Agree cx env := by
  rintro ⟨env, h⟩
  have h1 := h.fres f
  have h2 := h.fres g
  rw [hn, h2] at h1
  exact hfg (Option.some.inj h1).symm

open Classical in
/-- the environment that reads every emitted name back as the entity it was given to -/
noncomputable def envOf (cx : Ctx) : Ast.Env where
  res s := if h : ∃ x, cx.name x = s then some (Classical.choose h) else none
  vty := cx.vty
  fres s := if h : ∃ f, cx.funcName f = s then some (Classical.choose h) else none

/-- **`Agree` is dischargeable from injectivity**: if no two variables and no two functions share an emitted name and no
function carries the name of a modelled built-in, the environment `envOf cx` satisfies `Agree cx`. -/
theorem agree_of_injective (cx : Ctx) (hv : ∀ x y, cx.name x = cx.name y → x = y)
    (hf : ∀ f g, cx.funcName f = cx.funcName g → f = g)
    (hb : ∀ f, ∀ p ∈ Ast.builtins, cx.funcName f ≠ p.1) : Agree cx (envOf cx) where
  res x := by
    have h : ∃ y, cx.name y = cx.name x := ⟨x, rfl⟩
    simp only [envOf, h, dite_true]
    exact congrArg some (hv _ _ (Classical.choose_spec h))
  vty := rfl
  fres f := by
    have h : ∃ g, cx.funcName g = cx.funcName f := ⟨f, rfl⟩
    simp only [envOf, h, dite_true]
    exact congrArg some (hf _ _ (Classical.choose_spec h))
  builtin p hp := by
    have h : ¬ ∃ f, cx.funcName f = p.1 := by
      rintro ⟨f, e⟩
      exact hb f p hp e
    simp only [envOf, h, dite_false]

/-- non-vacuity: an injective assignment (`v<i>`, `g<i>`, `f<i>` would do; here the identity-like one of Thm/C01's
examples is not needed) exists, and a non-injective one is refuted -/
example : ¬ ∃ env : Ast.Env, Agree ⟨fun _ => "pass_1", fun n => "g" ++ toString n, fun n => "f" ++ toString n,
    fun _ => .int⟩ env :=
  agree_unsatisfiable_of_shared_name (x := .loc 0) (y := .loc 1) (by simp) rfl

/-! ## the local-variable pass of `NameMap::build` (C15's model) never makes two locals collide -/

/-- two locals (source name, picked name) may share the picked name only if both kept one and the same source name -/
def Harmless (p q : String × String) : Prop := p.2 = q.2 → p.1 = q.1 ∧ p.2 = p.1 ∧ q.2 = q.1

/-- every picked name is the source name (kept) or outside the source names of all locals (generated) -/
theorem assignLocals_class {al : List String} :
    ∀ (ls : List String) {ua out : List String}, assignLocals al ua ls = .ok out →
      out.length = ls.length ∧ ∀ p ∈ ls.zip out, p.2 = p.1 ∨ p.2 ∉ al := by
  intro ls
  induction ls with
  | nil => intro ua out h; simp [assignLocals] at h; subst h; simp
  | cons n r ih =>
    intro ua out h
    unfold assignLocals at h
    split at h
    · split at h
      · cases h
      · rename_i c hc
        split at h
        · cases h
        · rename_i rest hrest
          cases h
          obtain ⟨hl, hcl⟩ := ih hrest
          refine ⟨by simp [hl], ?_⟩
          intro p hp
          simp only [List.zip_cons_cons, List.mem_cons] at hp
          rcases hp with rfl | hp
          · exact Or.inr (firstFreeLocal_not_mem _ _ hc).2
          · exact hcl p hp
    · split at h
      · cases h
      · rename_i rest hrest
        cases h
        obtain ⟨hl, hcl⟩ := ih hrest
        refine ⟨by simp [hl], ?_⟩
        intro p hp
        simp only [List.zip_cons_cons, List.mem_cons] at hp
        rcases hp with rfl | hp
        · exact Or.inl rfl
        · exact hcl p hp

/-- **assignLocals_collision_free** (full, for the model of the local pass; `ls ⊆ al`: in `build` both are the variable
registry): among the locals, in registry order, two are printed with the same name only if both kept the same source
name.  In particular a *generated* name `n_k` is never the name of another local — neither of one that kept its source
name (the candidate loop skips `all_local_names`) nor of another generated one (every candidate is inserted into
`used_names_all_scopes`).  Seeded mutant C01-4 drops the first test from the loop and falsifies exactly this. -/
theorem assignLocals_collision_free {al : List String} :
    ∀ (ls : List String) {ua out : List String}, (∀ n ∈ ls, n ∈ al) → assignLocals al ua ls = .ok out →
      (ls.zip out).Pairwise Harmless := by
  intro ls
  induction ls with
  | nil => intro ua out _ h; simp [assignLocals] at h; subst h; simp
  | cons n r ih =>
    intro ua out hsub h
    have hsub' : ∀ m ∈ r, m ∈ al := fun m hm => hsub m (List.mem_cons_of_mem _ hm)
    unfold assignLocals at h
    split at h
    · split at h
      · cases h
      · rename_i c hc
        split at h
        · cases h
        · rename_i rest hrest
          cases h
          simp only [List.zip_cons_cons, List.pairwise_cons]
          refine ⟨?_, ih hsub' hrest⟩
          -- a later local is outside `c :: ua`, so it is not `c`
          intro q hq e
          exfalso
          have hq2 : q.2 ∈ rest := (List.of_mem_zip (a := q.1) (b := q.2) hq).2
          exact assignLocals_not_mem r hrest q.2 hq2 (by simp at e; simp [e])
    · rename_i hn
      split at h
      · cases h
      · rename_i rest hrest
        cases h
        simp only [List.zip_cons_cons, List.pairwise_cons]
        refine ⟨?_, ih hsub' hrest⟩
        intro q hq e
        simp only at e
        -- a later local called `n`: generated names are outside the source names, so it kept `n`
        rcases (assignLocals_class r hrest).2 q hq with hk | hg
        · exact ⟨by rw [← hk, ← e], rfl, hk⟩
        · exact absurd (e ▸ hsub n (List.mem_cons_self ..)) hg

/-- **local_pass_collision_free** (lift to `NameMap::build`, full for the model, every module and reserved list): the
result is the file-scope names followed by the locals in registry order, and two locals share a printed name only if
both kept the same source name. -/
theorem local_pass_collision_free {reserved : List String} {inp : Input} {names : List Named}
    (h : build reserved inp = .ok names) :
    ∃ globals ls, names = globals ++ numberLocals ls 0 ∧ ls.length = inp.locals.length ∧
      (inp.locals.zip ls).Pairwise Harmless := by
  obtain ⟨scopes, ls, _, hl, rfl⟩ := RsslVerif.Thm.C15.build_ok h
  exact ⟨_, ls, rfl, (assignLocals_class _ hl).1, assignLocals_collision_free _ (fun _ hn => hn) hl⟩

/-- **locals_with_distinct_sources_stay_distinct**: locals `i < j` of the registry with different source names are
printed with different names (whatever was renamed): the premise `cx.name` injective of `agree_of_injective`, for the
local variables of a function whose source does not declare one name twice. -/
theorem locals_with_distinct_sources_stay_distinct {al : List String} {ls ua out : List String}
    (hsub : ∀ n ∈ ls, n ∈ al) (h : assignLocals al ua ls = .ok out) {i j : Nat} (hij : i < j) (hj : j < ls.length)
    (hne : ls[i]? ≠ ls[j]?) : out[i]? ≠ out[j]? := by
  have hlen := (assignLocals_class ls h).1
  have hp := assignLocals_collision_free ls hsub h
  have hzl : (ls.zip out).length = ls.length := by simp [hlen]
  have hi : i < ls.length := Nat.lt_trans hij hj
  have := List.pairwise_iff_getElem.mp hp i j (by omega) (by omega) hij
  intro e
  apply hne
  simp only [List.getElem_zip, Harmless] at this
  have hio : i < out.length := by omega
  have hjo : j < out.length := by omega
  rw [List.getElem?_eq_getElem hio, List.getElem?_eq_getElem hjo] at e
  rw [List.getElem?_eq_getElem hi, List.getElem?_eq_getElem hj]
  exact congrArg some (this (Option.some.inj e)).1

/-- non-vacuity, and the seeded scenario on the model: an earlier `pass`, then `pass_1` next to `pass` in one function —
the code (and the model) prints `pass_0`, `pass_1`, `pass_2`; the mutant printed `pass_0`, `pass_1`, `pass_1`, which
`Harmless` rejects for the last two (`pass_1` kept, `pass` renamed). -/
example : (assignLocals ["pass", "pass_1", "pass"] ["pass"] ["pass", "pass_1", "pass"]).toOption =
    some ["pass_0", "pass_1", "pass_2"] := by
  decide

example : ¬ Harmless ("pass_1", "pass_1") ("pass", "pass_1") := by
  simp [Harmless]

/-! ## the local pass rests on the usage analysis (seeded mutant C01-5)

`used_names_all_scopes` receives the names of the functions / global variables that `GlobalUsageAnalysis` reports as used by
some body (`Input.used`).  `Thm.C15.locals_apart_from_used` is the positive half: a local never takes the name of a symbol
**in** that set.  The lemmas below are the converse: a name **outside** the set (and outside the reserved list and the
generated candidates) is *kept* by every local that carries it — so if the analysis omits a symbol that a body does mention
(seed C01-5: a global referenced only inside an array index), a local of that name is printed with the global's name and
`Agree` has no solution: the emitted text reads the local where the IR reads the global.  Hence the `Agree` premise of
`gen_sem_*` needs usage *completeness*: C02's obligations about `gather_usage_*` (`Gen.UsageTables`,
`Thm.C02.all_positions_descended`, `tables_as_modelled`, `mentions_calculateLocal`, …) are C01 obligations too. -/

/-- a source name outside `used_names_all_scopes` is kept by every local that carries it (candidates are outside the
source names of the locals, so no earlier renaming can put it into the set) -/
theorem assignLocals_keeps_unreserved {al : List String} {g : String} (hg : g ∈ al) :
    ∀ (ls : List String) {ua out : List String}, g ∉ ua → assignLocals al ua ls = .ok out →
      ∀ i : Nat, ls[i]? = some g → out[i]? = some g := by
  intro ls
  induction ls with
  | nil => intro ua out _ _ i hi; simp at hi
  | cons n r ih =>
    intro ua out hua h i hi
    unfold assignLocals at h
    split at h
    · rename_i hn
      split at h
      · cases h
      · rename_i c hc
        split at h
        · cases h
        · rename_i rest hrest
          cases h
          cases i with
          | zero =>
            simp at hi
            subst hi
            exact absurd (by simpa using hn) hua
          | succ j =>
            have hcal := (firstFreeLocal_not_mem _ _ hc).2
            have hne : g ≠ c := fun e => hcal (e ▸ hg)
            have : g ∉ c :: ua := by simp [hne, hua]
            simpa using ih this hrest j (by simpa using hi)
    · split at h
      · cases h
      · rename_i rest hrest
        cases h
        cases i with
        | zero => simpa using hi
        | succ j => simpa using ih hua hrest j (by simpa using hi)

/-- **unreserved_used_name_can_be_captured** (full, for C15's model of `NameMap::build`, every module, reserved list and
usage set): let `g` be a file-scope entry of the result whose name is not reserved, not a generated candidate, and **not the
name of any symbol the usage analysis reports** (`hom`: the used set omits `g` and whatever shares its name — what happens
when `gather_usage_*` skips the position where a body mentions `g`).  Then every local variable whose source name is
`g.name` is printed as `g.name` as well, and for every name context that prints an entity `x` as `g.name` and a different
entity `y` as that local's name, `Agree` is unsatisfiable: some use in the emitted text no longer refers to its entity
(the local captures the reference).  Together with `Thm.C15.locals_apart_from_used` (a *reported* symbol's name is never
taken by a local) this makes "the usage set contains every symbol a body mentions" exactly the premise under which the local
pass protects references. -/
theorem unreserved_used_name_can_be_captured {reserved : List String} {inp : Input} {names : List Named}
    (h : build reserved inp = .ok names) :
    ∃ (globals : List Named) (gens ls : List String), names = globals ++ numberLocals ls 0 ∧
      ∀ g ∈ globals, g.name ∉ reserved → g.name ∉ gens →
        (∀ e ∈ globals, (e.sym.kind = .func ∨ e.sym.kind = .global) → e.sym ∈ inp.used → e.name ≠ g.name) →
        ∀ i : Nat, inp.locals[i]? = some g.name →
          ls[i]? = some g.name ∧
          ∀ (cx : Ctx) (x y : Var), x ≠ y → cx.name x = g.name → some (cx.name y) = ls[i]? →
            ¬ ∃ env : Ast.Env, Agree cx env := by
  obtain ⟨scopes, ls, _, hl, rfl⟩ := RsslVerif.Thm.C15.build_ok h
  refine ⟨_, scopes.flatMap (fun p => p.2.gen), ls, rfl, ?_⟩
  intro g _ hres hgen hom i hi
  have hal : g.name ∈ inp.locals := List.mem_of_getElem? hi
  have hun : g.name ∉ usedNames inp (scopes.flatMap fun p => p.2.out.map fun q => (⟨q.1, p.1, q.2⟩ : Named)) := by
    unfold usedNames
    intro hm
    obtain ⟨e, he, hf⟩ := List.mem_filterMap.mp hm
    split at hf
    · rename_i hc
      simp only [Bool.and_eq_true, Bool.or_eq_true, beq_iff_eq, List.contains_iff_mem] at hc
      exact hom e he hc.1 hc.2 (Option.some.inj hf)
    · cases hf
  have hua : g.name ∉ reserved ++ scopes.flatMap (fun p => p.2.gen) ++
      usedNames inp (scopes.flatMap fun p => p.2.out.map fun q => (⟨q.1, p.1, q.2⟩ : Named)) := by
    simp only [List.mem_append, not_or]
    exact ⟨⟨hres, hgen⟩, hun⟩
  have hk := assignLocals_keeps_unreserved hal inp.locals hua hl i hi
  refine ⟨hk, ?_⟩
  intro cx x y hxy hx hy
  rw [hk] at hy
  exact agree_unsatisfiable_of_shared_name hxy (hx.trans (Option.some.inj hy).symm)

/-- non-vacuity and the seeded scenario on the model (`static uint slot; int pick(int v[4]) { int slot = v[slot]; … }`):
with the global reported used the local is printed `slot_0`; with the usage set empty (the analysis skipped the array index)
the local keeps `slot`, the name of the global. -/
example :
    let inp : List Sym → Input := fun u =>
      ⟨[], [⟨⟨.global, 0⟩, none, "slot"⟩, ⟨⟨.func, 0⟩, none, "pick"⟩], u, ["v", "slot"]⟩
    (build [] (inp [⟨.global, 0⟩])).toOption.map (·.map (·.name)) = some ["pick", "slot", "v", "slot_0"] ∧
    (build [] (inp [])).toOption.map (·.map (·.name)) = some ["pick", "slot", "v", "slot"] := by
  decide +kernel


/-- **usage_analysis_descends_everywhere** (fact about the *current* source, re-extracted by C02's translator into
`Gen.UsageTables` on every run): `gather_usage_for_statement / _expression / _init` and the `ForInit` match have exactly one
arm per variant of the IR enums and pass **every** statement-, expression- and initialiser-valued field on (the `false`
entries are the fields that hold no expression: constants, ids, types, swizzle letters, member names, the call's id and
template arguments, a case label's constant); `Global` and `Call` record their symbol; function bodies, default arguments and
global initialisers are gathered and every function has an entry.  This is the completeness premise of
`unreserved_used_name_can_be_captured` for every syntactic position: seeded mutant C01-5 turns
`("ArraySubscript", [true, true])` into `[true, false]`. -/
theorem usage_analysis_descends_everywhere :
    Gen.UsageTables.stmtArms = [
      ("Expression", [true]), ("Var", [true]), ("Block", [true]), ("If", [true, true]), ("IfElse", [true, true, true]),
      ("For", [true, true, true, true]), ("While", [true, true]), ("DoWhile", [true, true]), ("Switch", [true, true]),
      ("Break", []), ("Continue", []), ("Discard", []), ("Return", [true]), ("CaseLabel", [false]), ("DefaultLabel", [])] ∧
    Gen.UsageTables.exprArms = [
      ("Literal", [false]), ("Variable", [false]), ("MemberVariable", [false, false]), ("Global", [false]),
      ("ConstantVariable", [false]), ("EnumValue", [false]), ("TernaryConditional", [true, true, true]),
      ("Sequence", [true]), ("Swizzle", [true, false]), ("MatrixSwizzle", [true, false]),
      ("ArraySubscript", [true, true]), ("StructMember", [true, false, false]), ("ObjectMember", [true, false]),
      ("Call", [true, false, true]), ("Constructor", [false, true]), ("Cast", [false, true]), ("SizeOf", [false]),
      ("IntrinsicOp", [false, true])] ∧
    Gen.UsageTables.initArms = [("Expression", [true]), ("Aggregate", [true])] ∧
    Gen.UsageTables.forInitArms = [("Empty", []), ("Expression", [true]), ("Definitions", [true])] ∧
    Gen.UsageTables.symbolInserts =
      [("Global", "GlobalVariable"), ("ConstantVariable", "ConstantBuffer"), ("Call", "Function")] ∧
    Gen.UsageTables.functionBodyGathered = true ∧ Gen.UsageTables.defaultArgumentsGathered = true ∧
    Gen.UsageTables.globalInitialisersGathered = true ∧ Gen.UsageTables.everyFunctionHasAnEntry = true ∧
    Gen.UsageTables.recurseShape = ⟨true, true, true, true, true⟩ := by
  decide

end RsslVerif.Thm.C01Names

// Property-block / attribute / redefinition generator ("props" streams; included into c08_gen.rs).
//
// The names the type checker matches by text (typer/src/typer/pipelines.rs: pipeline properties, blend-state
// properties, static-sampler properties; functions.rs / statements.rs / globals.rs: attributes) and every
// "already defined" / "duplicate" diagnostic of typer/src/typer/errors.rs are exercised systematically:
//   * `propone:<k>`  — a deterministic sweep, every variant once per check: each property REPEATED (same value,
//     another value, with other properties in between, three times) on a graphics, a compute and a mesh pipeline;
//     each property with every value of a list of wrong-kind / out-of-range values; unknown and mis-cased names;
//     the same for blend-state and static-sampler blocks; every attribute repeated / with wrong arguments on every
//     place an attribute can stand; every ordered pair of entity kinds declared under one name; duplicates in every
//     inner scope (parameters, locals, members, methods, enum values, template parameters, case labels, semantics);
//   * `props:<seed>` — random blocks: random subsets of the properties in random order with random repeats and
//     random (valid or invalid) values, on random stage combinations, together with random attribute lists and a
//     random redefinition.
// The duplicate check of parse_pipeline / parse_static_sampler is what keeps four `assert!`s of parse_pipeline
// unreachable (Lemmas/PanicClasses), so a repeated property is the input that shows whether it still holds.

pub struct PropsProgram {
    pub text: String,
    pub cats: std::collections::BTreeSet<&'static str>,
}

/// entry points the pipelines below name (on top of `dvs` / `dps` / `dcs` of SYN_PRELUDE)
const PROPS_PRELUDE: &str = "[numthreads(64, 1, 1)]\n[outputtopology(\"triangle\")]\nvoid dms(uint3 dtid : SV_DispatchThreadID, out vertices V0 ov[64], out indices uint3 ot[64]) {\n    SetMeshOutputCounts(64, 64);\n    V0 v; v.position = float4(0, 0, 0, 1); v.uv = float2(0, 0); ov[dtid.x] = v; ot[dtid.x] = uint3(0, 1, 2);\n}\n\
[numthreads(64, 1, 1)]\nvoid dts(uint3 dtid : SV_DispatchThreadID) { gs_pay.start = dtid.x; DispatchMesh(4u, 1u, 1u, gs_pay); }\n\
[numthreads(64, 1, 1)]\n[outputtopology(\"triangle\")]\nvoid dms2(uint3 dtid : SV_DispatchThreadID, in payload Pay0 data, out vertices V0 ov[64], out indices uint3 ot[64]) {\n    SetMeshOutputCounts(64, 64);\n    V0 v; v.position = float4(data.start, 0, 0, 1); v.uv = float2(0, 0); ov[dtid.x] = v; ot[dtid.x] = uint3(0, 1, 2);\n}\n";

/// stage assignments of a pipeline: (category, text)
const PROPS_STAGES: &[(&str, &str)] = &[
    ("graphics", "VertexShader = dvs; PixelShader = dps;"),
    ("compute", "ComputeShader = dcs;"),
    ("mesh", "MeshShader = dms; PixelShader = dps;"),
    ("task-mesh", "TaskShader = dts; MeshShader = dms2;"),
    ("vertex-only", "VertexShader = dvs;"),
    ("no-stage", ""),
];

/// pipeline state properties: (name, valid values)
const PIPE_PROPS: &[(&str, &[&str])] = &[
    ("RenderTargetFormat0", &["\"R8G8B8A8_UNORM\"", "\"R32_UINT\""]),
    ("RenderTargetFormat1", &["\"R8G8B8A8_UNORM\"", "\"R16G16_FLOAT\""]),
    ("RenderTargetFormat2", &["\"R32G32_UINT\"", "\"R8_UNORM\""]),
    ("RenderTargetFormat3", &["\"R8G8B8A8_UNORM\"", "\"R32_UINT\""]),
    ("RenderTargetFormat4", &["\"R8G8B8A8_UNORM\"", "\"R32_UINT\""]),
    ("RenderTargetFormat5", &["\"R8G8B8A8_UNORM\"", "\"R32_UINT\""]),
    ("RenderTargetFormat6", &["\"R8G8B8A8_UNORM\"", "\"R32_UINT\""]),
    ("RenderTargetFormat7", &["\"R8G8B8A8_UNORM\"", "\"R32_UINT\""]),
    ("DepthTargetFormat", &["\"D32_FLOAT\"", "\"D16_UNORM\""]),
    ("DefaultBindGroup", &["0", "1", "c0", "1 + 1", "cu0"]),
    ("CullMode", &["\"None\"", "\"Front\"", "\"Back\""]),
    ("WindingOrder", &["\"CounterClockwise\"", "\"Clockwise\""]),
    ("BlendState", &["{ }", "{ BlendEnabled = true; SrcBlend = \"One\"; DstBlend = \"Zero\"; }"]),
    ("BlendState0", &["{ }", "{ BlendEnabled = false; WriteMask = 15; }"]),
    ("BlendState1", &["{ }", "{ BlendOp = \"Min\"; }"]),
    ("BlendState2", &["{ }", "{ BlendOp = \"Max\"; }"]),
    ("BlendState3", &["{ }", "{ BlendOpAlpha = \"Add\"; }"]),
    ("BlendState4", &["{ }", "{ SrcBlendAlpha = \"One\"; }"]),
    ("BlendState5", &["{ }", "{ DstBlendAlpha = \"Zero\"; }"]),
    ("BlendState6", &["{ }", "{ WriteMask = 0; }"]),
    ("BlendState7", &["{ }", "{ BlendEnabled = true; }"]),
];

/// the properties whose wrong-kind values are swept one by one (the indexed families by their first and last member)
const PIPE_PROPS_SWEPT: &[&str] = &[
    "RenderTargetFormat0", "RenderTargetFormat7", "DepthTargetFormat", "DefaultBindGroup", "CullMode", "WindingOrder", "BlendState", "BlendState0", "BlendState7",
    "VertexShader", "PixelShader", "ComputeShader", "MeshShader", "TaskShader",
];

/// properties inside a BlendState aggregate
const BLEND_PROPS: &[(&str, &[&str])] = &[
    ("BlendEnabled", &["true", "false"]),
    ("SrcBlend", &["\"Zero\"", "\"SrcAlpha\"", "\"OneMinusSrc1Alpha\""]),
    ("DstBlend", &["\"One\"", "\"OneMinusSrcAlpha\"", "\"ConstantColor\""]),
    ("BlendOp", &["\"Add\"", "\"Subtrack\"", "\"RevSubtract\""]),
    ("SrcBlendAlpha", &["\"One\"", "\"DstAlpha\""]),
    ("DstBlendAlpha", &["\"Zero\"", "\"SrcAlphaSaturate\""]),
    ("BlendOpAlpha", &["\"Min\"", "\"Max\""]),
    ("WriteMask", &["15", "0", "255", "0xFu", "c0"]),
];

/// properties of a StaticSampler block
const SAMPLER_PROPS: &[(&str, &[&str])] = &[
    ("Filter", &["MIN_MAG_MIP_POINT", "MIN_MAG_MIP_LINEAR"]),
    ("AddressU", &["Wrap", "Clamp", "Border"]),
    ("AddressV", &["Wrap", "Clamp", "Border"]),
    ("AddressW", &["Wrap", "Clamp", "Border"]),
    ("CompareFunc", &["None", "Never", "Less", "Equal", "LessEqual", "Greater", "NotEqual", "GreaterEqual", "Always"]),
    ("MaxAnisotropy", &["1", "4", "16", "c0"]),
    ("MinLOD", &["0.0f", "1", "-1.0f"]),
    ("MaxLOD", &["8.0f", "0", "3.402823466e+38f"]),
    ("BorderColor", &["TransparentBlack", "OpaqueBlack", "OpaqueWhite", "TransparentBlackInt", "OpaqueBlackInt", "OpaqueWhiteInt"]),
];

/// values of the wrong kind / out of range for (nearly) every property
const ODD_VALUES: &[&str] = &[
    "1", "-1", "1.5f", "true", "\"Bogus\"", "\"\"", "Bogus", "dcs", "N0::nf", "g_t2d", "{ }", "{ A = 1; }", "{ BlendEnabled = 1; }", "{ WriteMask = 256; }",
    "{ SrcBlend = \"Sideways\"; }", "{ SrcBlend = One; }", "4294967295", "4294967296", "c0 / 0", "(int)1", "float2(1, 2)", "\"None\" + 1", "1 ? 2 : 3", "MIN_MAG_MIP_POINT", "\"Wrap\"",
    "256", "1e40f", "-0.0f", "s0", "hf0(1.0f)", "sizeof(int)", "E0_B", "{ { } }", "{ BlendState = { } }",
];

/// names no property table knows (wrong case, neighbours of the indexed families, properties of another block)
const UNKNOWN_PIPE_PROPS: &[&str] = &[
    "Foo", "cullmode", "CULLMODE", "Cullmode", "RenderTargetFormat", "RenderTargetFormat8", "RenderTargetFormat00", "RenderTargetFormat10", "BlendState8", "BlendState00",
    "DepthTargetFormat0", "Filter", "BlendEnabled", "GeometryShader", "HullShader", "DomainShader", "AmplificationShader", "computeshader", "DefaultBindGroup0", "StaticSampler",
];

/// function attributes: (category, valid spellings)
const FN_ATTRS: &[(&str, &[&str])] = &[
    ("numthreads", &["[numthreads(1, 1, 1)]", "[numthreads(8, 8, 1)]", "[NumThreads(1, 1, 1)]", "[[numthreads(2, 1, 1)]]", "[NUMTHREADS(c0, 1, 1)]"]),
    ("wavesize", &["[WaveSize(32)]", "[wavesize(64)]", "[[WaveSize(16)]]"]),
    ("outputtopology", &["[outputtopology(\"triangle\")]", "[outputtopology(\"line\")]", "[OutputTopology(\"point\")]"]),
    ("maxvertexcount", &["[maxvertexcount(3)]", "[MaxVertexCount(6)]"]),
];
const ODD_FN_ATTRS: &[&str] = &[
    "[foo]", "[numthreads]", "[numthreads()]", "[numthreads(1)]", "[numthreads(1, 1, 1, 1)]", "[a::numthreads(1, 1, 1)]", "[[rssl::bindless]]", "[unroll]", "[branch]", "[WaveSize]",
    "[WaveSize(1, 2)]", "[outputtopology(triangle)]", "[outputtopology(\"square\")]", "[outputtopology(1)]", "[maxvertexcount]", "[maxvertexcount(\"s\")]", "[numthreads(\"a\", 1, 1)]", "[numthreads(dcs, 1, 1)]",
    "[numthreads(4294967296, 1, 1)]", "[numthreads(-1, 1, 1)]", "[numthreads(1.5f, 1, 1)]", "[numthreads(s0, 1, 1)]", "[WaveSize(c0 / 0)]", "[]", "[[]]", "[numthreads(1, 1, 1), WaveSize(32)]",
];
/// statement attributes with the statement they can stand on
const STMT_ATTRS: &[&str] = &["[branch]", "[flatten]", "[loop]", "[fastopt]", "[allow_uav_condition]", "[unroll]", "[unroll(2)]", "[Unroll(4)]", "[BRANCH]", "[[branch]]", "[[unroll(c0)]]"];
const ODD_STMT_ATTRS: &[&str] = &["[foo]", "[branch(1)]", "[unroll(1, 2)]", "[unroll(\"s\")]", "[unroll(-1)]", "[unroll(i)]", "[unroll(1.5f)]", "[a::b]", "[numthreads(1, 1, 1)]", "[unroll(c0 / 0)]", "[unroll(4294967296 * 4294967296)]", "[loop()]"];
const STMT_HOSTS: &[&str] = &["if (b) x = 1.0f;", "for (int k = 0; k < 4; k++) x += 1.0f;", "while (i < 2) i++;", "do { i++; } while (i < 2);", "switch (i) { case 0: break; default: break; }", "{ x = 2.0f; }", "x = 3.0f;", "int q = 1;", "return;"];
/// global attributes
const GLOBAL_ATTRS: &[&str] = &["[[vk::binding(1)]]", "[[vk::binding(2, 3)]]", "[[rssl::bind_group(1)]]", "[[rssl::bind_group(c0)]]", "[[rssl::bindless]]", "[[vk::binding(0)]]"];
const ODD_GLOBAL_ATTRS: &[&str] = &[
    "[[foo::bar]]", "[[vk::foo]]", "[[rssl::foo(1)]]", "[[vk::binding]]", "[[vk::binding(1, 2, 3)]]", "[[rssl::bind_group]]", "[[rssl::bind_group(1, 2)]]", "[[rssl::bindless(1)]]", "[[binding(1)]]", "[bindless]",
    "[[a::b::c]]", "[[vk::binding(-1)]]", "[[vk::binding(\"s\")]]", "[[rssl::bind_group(4294967296)]]", "[[vk::binding(1.5f)]]", "[[rssl::bind_group(s0)]]", "[[VK::binding(1)]]", "[[vk::Binding(1)]]", "[[rssl::bind_group(7)]]",
];
const GLOBAL_HOSTS: &[&str] = &["ByteAddressBuffer X;", "Texture2D<float4> X;", "Texture2D<float4> X[4];", "Texture2D<float4> X[];", "cbuffer X { float4 X_v; }", "ConstantBuffer<S0> X;", "SamplerState X;", "static int X;", "RWStructuredBuffer<uint> X : register(u3);", "struct X { int a; };", "typedef int X;", "void X() {}", "enum X { X_A };", "const SamplerState X = StaticSampler { };"];

/// one declaration of the name `X` per entity kind (the name `X` is replaced)
const ENTITY_KINDS: &[(&str, &str)] = &[
    ("static-variable", "static int X;"),
    ("constant", "static const int X = 1;"),
    ("function", "void X() {}"),
    ("function-declaration", "void X();"),
    ("function-overload", "int X(int a) { return a; }"),
    ("struct", "struct X { int a; };"),
    ("enum", "enum X { X_A };"),
    ("enum-value", "enum EQ_X { X };"),
    ("typedef", "typedef int X;"),
    ("cbuffer", "cbuffer X { float X_m; }"),
    ("cbuffer-member", "cbuffer CQ_X { float X; }"),
    ("namespace", "namespace X { static const int inner = 1; }"),
    ("function-template", "template<typename T> T X(T a) { return a; }"),
    ("struct-template", "template<typename T> struct X { int a; };"),
    ("resource", "Texture2D<float4> X;"),
    ("static-sampler", "const SamplerState X = StaticSampler { };"),
    ("pipeline", "Pipeline X { ComputeShader = dcs; }"),
    ("groupshared", "groupshared float X[4];"),
    ("uniform", "float4 X;"),
];

/// duplicates inside one declaration / scope, and declarations that look like duplicates but are legal
const INNER_DUPLICATES: &[(&str, &str)] = &[
    ("param-param", "void X(int a, int a) {}"),
    ("param-param-types", "void X(int a, float a) {}"),
    ("param-local", "void X(int a) { int a = 1; }"),
    ("param-inner-block", "void X(int a) { { int a = 1; } }"),
    ("local-local", "void X() { int a = 1; int a = 2; }"),
    ("local-local-types", "void X() { int a = 1; float a = 2; }"),
    ("local-multi-declarator", "void X() { int a = 1, a = 2; }"),
    ("local-for-init", "void X() { for (int k = 0, k = 1; k < 2; k++) {} }"),
    ("local-for-body", "void X() { for (int k = 0; k < 2; k++) { int k = 1; } }"),
    ("local-shadows-global", "void X() { int c0 = 1; float g_t2d = 2.0f; }"),
    ("local-shadows-function", "void X() { int hf0 = 1; int X = 2; }"),
    ("local-shadows-type", "void X() { int S0 = 1; int E0 = 2; int U0 = 3; }"),
    ("local-struct-twice", "void X() { struct L { int a; }; struct L { int b; }; }"),
    ("member-member", "struct X { int a; float a; };"),
    ("member-multi-declarator", "struct X { int a, a; };"),
    ("member-method", "struct X { int a; void a() {} };"),
    ("method-member", "struct X { void a() {} int a; };"),
    ("method-method", "struct X { void m() {} void m() {} };"),
    ("method-overload", "struct X { void m() {} void m(int a) {} };"),
    ("method-return-type", "struct X { void m() {} int m() { return 1; } };"),
    ("method-declared-defined", "struct X { void m(); void m() {} };"),
    ("member-named-like-struct", "struct X { int X; };"),
    ("base-member", "struct XB { int a; };\nstruct X : XB { int a; };"),
    ("enum-value-value", "enum X { X_A, X_A };"),
    ("enum-value-other-enum", "enum X { X_A };\nenum XQ { X_A };"),
    ("enum-value-named-like-enum", "enum X { X };"),
    ("enum-value-global", "static int X_A;\nenum X { X_A };"),
    ("template-param-param", "template<typename T, typename T> void X() {}"),
    ("template-param-value", "template<int N, int N> void X() {}"),
    ("template-param-mixed", "template<typename T, int T> void X() {}"),
    ("template-param-function-param", "template<typename T> void X(int T) {}"),
    ("template-param-local", "template<typename T> void X() { int T = 1; }\nvoid X_use() { X<int>(); }"),
    ("template-struct-param-member", "template<typename T> struct X { int T; };"),
    ("cbuffer-member-member", "cbuffer X { float X_a; float X_a; }"),
    ("cbuffer-member-global", "static float X_a;\ncbuffer X { float X_a; }"),
    ("cbuffer-member-other-cbuffer", "cbuffer X { float X_a; }\ncbuffer XQ { float X_a; }"),
    ("global-multi-declarator", "static int X, X;"),
    ("global-multi-declarator-array", "static int X, X[2];"),
    ("typedef-same-type", "typedef int X;\ntypedef int X;"),
    ("typedef-chain", "typedef int X;\ntypedef X X;"),
    ("function-declared-twice", "void X();\nvoid X();\nvoid X() {}"),
    ("function-defined-after-two-declarations-twice", "void X();\nvoid X() {}\nvoid X() {}"),
    ("function-return-type-only", "int X() { return 1; }\nfloat X() { return 1.0f; }"),
    ("function-declaration-return-type-only", "int X();\nfloat X();"),
    ("function-param-modifier-only", "void X(int a) {}\nvoid X(const int a) {}"),
    ("function-param-out-only", "void X(int a) {}\nvoid X(out int a) { a = 1; }"),
    ("function-default-argument-only", "void X(int a) {}\nvoid X(int a = 1) {}"),
    ("function-default-argument-redeclared", "void X(int a = 1);\nvoid X(int a = 1) {}"),
    ("function-typedef-param", "void X(uint a) {}\nvoid X(U0 a) {}"),
    ("function-named-like-intrinsic", "float X(float a) { return a; }\nfloat abs(float a) { return a; }"),
    ("function-template-twice", "template<typename T> T X(T a) { return a; }\ntemplate<typename T> T X(T a) { return a; }"),
    ("function-template-and-plain", "template<typename T> T X(T a) { return a; }\nint X(int a) { return a; }\nint X_use() { return X(1) + X<int>(2); }"),
    ("namespace-reopened", "namespace X { static int a; }\nnamespace X { static int b; }"),
    ("namespace-reopened-same-member", "namespace X { static int a; }\nnamespace X { static int a; }"),
    ("namespace-reopened-same-function", "namespace X { void f() {} }\nnamespace X { void f() {} }"),
    ("namespace-member-named-like-namespace", "namespace X { static int X; }"),
    ("namespace-same-name-nested", "namespace X { namespace X { static int a; } }"),
    ("namespace-member-global", "static int X_a;\nnamespace X { static int X_a; }"),
    ("case-label-label", "void X(int i) { switch (i) { case 1: break; case 1: break; } }"),
    ("case-label-constant", "void X(int i) { switch (i) { case 3: break; case c0: break; } }"),
    ("case-default-default", "void X(int i) { switch (i) { default: break; default: break; } }"),
    ("semantic-semantic", "float4 X(float4 a : SV_Position, float4 b : SV_Position) : SV_Target { return a + b; }\nPipeline X_P { VertexShader = dvs; PixelShader = X; }"),
    ("semantic-target-target", "void X(out float4 a : SV_Target0, out float4 b : SV_Target0) { a = 0; b = 0; }\nPipeline X_P { VertexShader = dvs; PixelShader = X; }"),
    ("semantic-two-on-one", "float4 X(float4 a : SV_Position : TEXCOORD) : SV_Target { return a; }"),
    ("register-register", "Texture2D<float4> X : register(t0) : register(t1);"),
    ("register-same-slot", "Texture2D<float4> X : register(t5);\nTexture2D<float4> XQ : register(t5);"),
    ("register-same-slot-cbuffer", "cbuffer X : register(b2) { float X_a; }\ncbuffer XQ : register(b2) { float XQ_a; }"),
    ("binding-same-slot", "[[vk::binding(4, 1)]] ByteAddressBuffer X;\n[[vk::binding(4, 1)]] ByteAddressBuffer XQ;"),
    ("modifier-modifier", "static static int X;"),
    ("modifier-const-const", "static const const int X = 1;"),
    ("modifier-param-in-in", "void X(in in int a) {}"),
    ("modifier-param-in-out", "void X(in out int a) { a = 1; }"),
    ("modifier-row-major-twice", "struct X { row_major row_major float4x4 m; };"),
    ("modifier-precise-precise", "void X() { precise precise float a = 1.0f; }"),
    ("struct-base-base", "struct X : S0, S0 { int q; };"),
    ("pipeline-entry-shared", "Pipeline X { ComputeShader = dcs; }\nPipeline XQ { ComputeShader = dcs; }"),
    ("pipeline-same-entry-two-stages", "Pipeline X { VertexShader = dvs; PixelShader = dvs; }"),
    ("macro-redefined", "#define X 1\n#define X 2\nstatic int X_v = X;"),
    ("macro-redefined-function-like", "#define X(a) a\n#define X(a, b) a + b\nstatic int X_v = X(1, 2);"),
    ("macro-parameter-parameter", "#define X(a, a) a\nstatic int X_v = X(1, 2);"),
];

fn props_block(props: &[(String, String)]) -> String {
    props.iter().map(|(n, v)| if v.starts_with('{') { format!(" {} = {}", n, v) } else { format!(" {} = {};", n, v) }).collect::<String>()
}

fn pipeline_text(name: &str, stages: &str, props: &[(String, String)]) -> String {
    format!("Pipeline {} {{ {}{} }}\n", name, stages, props_block(props))
}

/// every deterministic variant: (category, program text after the preludes)
pub fn props_variants() -> Vec<(&'static str, String)> {
    let mut v: Vec<(&'static str, String)> = Vec::new();
    let s = |x: &str| x.to_string();
    let stage_of = |k: &str| PROPS_STAGES.iter().find(|x| x.0 == k).unwrap().1;
    // ---- pipeline properties repeated
    for (name, vals) in PIPE_PROPS {
        let (a, b) = (vals[0], vals[1 % vals.len()]);
        for kind in ["graphics", "compute", "mesh"] {
            if kind == "mesh" && !(name.ends_with('0') || name.len() < 13) {
                continue;
            }
            let st = stage_of(kind);
            v.push(("pipeline-property-repeated-same-value", pipeline_text("P", st, &[(s(name), s(a)), (s(name), s(a))])));
            v.push(("pipeline-property-repeated-other-value", pipeline_text("P", st, &[(s(name), s(a)), (s(name), s(b))])));
            v.push(("pipeline-property-repeated-apart", pipeline_text("P", st, &[(s(name), s(a)), (s("DefaultBindGroup"), s("2")), (s("BlendState"), s("{ }")), (s(name), s(b))])));
            v.push(("pipeline-property-repeated-thrice", pipeline_text("P", st, &[(s(name), s(b)), (s(name), s(a)), (s(name), s(b))])));
            // the repeat stands before the stages (properties in another order)
            v.push(("pipeline-property-repeated-before-stages", format!("Pipeline P {{{} {} {} = {}{} }}\n", props_block(&[(s(name), s(a))]), st, name, b, if b.starts_with('{') { "" } else { ";" })));
            // the second one carries a value of the wrong kind
            v.push(("pipeline-property-repeated-invalid-value", pipeline_text("P", st, &[(s(name), s(a)), (s(name), s("1.5f"))])));
            v.push(("pipeline-property-repeated-invalid-first", pipeline_text("P", st, &[(s(name), s("{ A = 1; }")), (s(name), s(a))])));
        }
    }
    // ---- stage properties repeated (same / another entry point), on every combination
    for (name, entry, other) in [("VertexShader", "dvs", "dps"), ("PixelShader", "dps", "dvs"), ("ComputeShader", "dcs", "dvs"), ("MeshShader", "dms", "dms2"), ("TaskShader", "dts", "dcs")] {
        for (kind, st) in PROPS_STAGES {
            let _ = kind;
            v.push(("pipeline-stage-repeated", format!("Pipeline P {{ {} {} = {}; {} = {}; }}\n", st, name, entry, name, entry)));
            v.push(("pipeline-stage-repeated-other-entry", format!("Pipeline P {{ {} = {}; {} {} = {}; CullMode = \"None\"; }}\n", name, entry, st, name, other)));
        }
    }
    // ---- every swept property with every odd value; every unknown name
    for name in PIPE_PROPS_SWEPT {
        for val in ODD_VALUES {
            let is_stage = name.ends_with("Shader");
            let st = if is_stage { "" } else { stage_of("graphics") };
            let rest = match *name {
                "VertexShader" => " PixelShader = dps;",
                "PixelShader" => " VertexShader = dvs;",
                "MeshShader" => " PixelShader = dps;",
                "TaskShader" => " MeshShader = dms2;",
                _ => "",
            };
            v.push(("pipeline-property-odd-value", format!("Pipeline P {{ {}{}{} }}\n", st, props_block(&[(s(name), s(val))]), rest)));
            if *name == "DefaultBindGroup" || name.starts_with("BlendState") || *name == "CullMode" {
                v.push(("pipeline-property-odd-value-compute", pipeline_text("P", stage_of("compute"), &[(s(name), s(val))])));
            }
        }
    }
    for name in UNKNOWN_PIPE_PROPS {
        for kind in ["graphics", "compute"] {
            v.push(("pipeline-property-unknown", pipeline_text("P", stage_of(kind), &[(s(name), s("\"None\""))])));
            v.push(("pipeline-property-unknown-repeated", pipeline_text("P", stage_of(kind), &[(s(name), s("1")), (s(name), s("1"))])));
        }
        v.push(("pipeline-property-unknown-only", pipeline_text("P", "", &[(s(name), s("dcs"))])));
    }
    // ---- every valid value of every property, and every graphics property on the other stage combinations
    for (name, vals) in PIPE_PROPS {
        for val in *vals {
            v.push(("pipeline-property-valid-value", pipeline_text("P", stage_of("graphics"), &[(s(name), s(val))])));
        }
        for (kind, st) in PROPS_STAGES {
            if *kind != "graphics" {
                v.push(("pipeline-property-on-other-stages", pipeline_text("P", st, &[(s(name), s(vals[0]))])));
            }
        }
    }
    // ---- blend-state properties
    for (name, vals) in BLEND_PROPS {
        let (a, b) = (vals[0], vals[1 % vals.len()]);
        for host in ["BlendState", "BlendState3"] {
            let agg = |ps: &[(String, String)]| format!("{{{} }}", props_block(ps));
            v.push(("blend-property-repeated-same-value", pipeline_text("P", stage_of("graphics"), &[(s(host), agg(&[(s(name), s(a)), (s(name), s(a))]))])));
            v.push(("blend-property-repeated-other-value", pipeline_text("P", stage_of("graphics"), &[(s(host), agg(&[(s(name), s(a)), (s("BlendEnabled"), s("true")), (s(name), s(b))]))])));
            v.push(("blend-property-repeated-compute", pipeline_text("P", stage_of("compute"), &[(s(host), agg(&[(s(name), s(a)), (s(name), s(b))]))])));
            for val in *vals {
                v.push(("blend-property-valid-value", pipeline_text("P", stage_of("graphics"), &[(s(host), agg(&[(s(name), s(val))]))])));
            }
        }
        for val in ODD_VALUES {
            v.push(("blend-property-odd-value", pipeline_text("P", stage_of("graphics"), &[(s("BlendState1"), format!("{{ {} = {}{} }}", name, val, if val.starts_with('{') { "" } else { ";" }))])));
        }
    }
    for name in ["Foo", "blendenabled", "CullMode", "Filter", "BlendState", "SrcBlend0", "WriteMask "] {
        v.push(("blend-property-unknown", pipeline_text("P", stage_of("graphics"), &[(s("BlendState"), format!("{{ {} = 1; }}", name.trim()))])));
        v.push(("blend-property-unknown-repeated", pipeline_text("P", stage_of("graphics"), &[(s("BlendState2"), format!("{{ {} = 1; {} = 1; }}", name.trim(), name.trim()))])));
    }
    // ---- static-sampler properties
    for (name, vals) in SAMPLER_PROPS {
        let (a, b) = (vals[0], vals[1 % vals.len()]);
        for ty in ["SamplerState", "SamplerComparisonState"] {
            v.push(("sampler-property-repeated-same-value", format!("const {} ss = StaticSampler {{ {} = {}; {} = {}; }};\n", ty, name, a, name, a)));
            v.push(("sampler-property-repeated-other-value", format!("const {} ss = StaticSampler {{ {} = {}; {} = {}; }};\n", ty, name, a, name, b)));
            v.push(("sampler-property-repeated-apart", format!("const {} ss = StaticSampler {{ {} = {}; Filter = MIN_MAG_MIP_POINT; AddressU = Wrap; {} = {}; }};\n", ty, name, a, if *name == "Filter" { "AddressU" } else { name }, b)));
            v.push(("sampler-property-repeated-invalid-value", format!("const {} ss = StaticSampler {{ {} = {}; {} = \"Bogus\"; }};\n", ty, name, a, name)));
        }
        for val in *vals {
            v.push(("sampler-property-valid-value", format!("const SamplerState ss = StaticSampler {{ {} = {}; }};\nfloat4 use_ss(float2 uv) {{ return g_t2d.SampleLevel(ss, uv, 0); }}\n", name, val)));
        }
        for val in ODD_VALUES {
            v.push(("sampler-property-odd-value", format!("const SamplerState ss = StaticSampler {{ {} = {}{} }};\n", name, val, if val.starts_with('{') { "" } else { ";" })));
        }
    }
    for name in ["Foo", "filter", "FILTER", "AddressX", "CullMode", "BlendEnabled", "MaxLod", "MipLODBias", "ComparisonFunc"] {
        v.push(("sampler-property-unknown", format!("const SamplerState ss = StaticSampler {{ {} = Wrap; }};\n", name)));
        v.push(("sampler-property-unknown-repeated", format!("const SamplerState ss = StaticSampler {{ {} = Wrap; {} = Wrap; }};\n", name, name)));
        v.push(("sampler-property-unknown-after-valid", format!("const SamplerState ss = StaticSampler {{ Filter = MIN_MAG_MIP_POINT; {} = 1; }};\n", name)));
    }
    // ---- function attributes: repeated (same spelling, another spelling of the same attribute), odd ones, on entry points,
    //      plain functions, methods, declarations and templates
    let fn_hosts: [(&str, &str); 6] = [
        ("entry", "void X() {}\nPipeline XP { ComputeShader = X; }"),
        ("plain", "void X() {}"),
        ("declared", "void X();"),
        ("method", "METHOD"),
        ("template", "template<typename T> void X() {}\nvoid X_use() { X<int>(); }"),
        ("mesh-entry", "void X(uint3 dtid : SV_DispatchThreadID, out vertices V0 ov[64], out indices uint3 ot[64]) { SetMeshOutputCounts(64, 64); }\nPipeline XP { MeshShader = X; PixelShader = dps; }"),
    ];
    let place = |attrs: &str, host: &str| if host == "METHOD" { format!("struct XS {{ {} void m() {{}} }};\n", attrs) } else { format!("{} {}\n", attrs, host) };
    for (_, spell) in FN_ATTRS {
        for (hk, host) in fn_hosts {
            let _ = hk;
            v.push(("function-attribute-repeated-same", place(&format!("{} {}", spell[0], spell[0]), host)));
            v.push(("function-attribute-repeated-other-spelling", place(&format!("{} {}", spell[0], spell[1]), host)));
            v.push(("function-attribute-repeated-apart", place(&format!("{} [WaveSize(32)] [numthreads(1, 1, 1)] {}", spell[spell.len() - 1], spell[0]), host)));
            v.push(("function-attribute-once", place(spell[0], host)));
        }
        for sp in *spell {
            v.push(("function-attribute-spelling", place(&format!("[numthreads(1, 1, 1)] {}", if sp.to_lowercase().contains("numthreads") { "" } else { sp }), fn_hosts[0].1)));
        }
    }
    v.push(("function-attribute-all", place("[numthreads(1, 1, 1)] [WaveSize(32)] [outputtopology(\"triangle\")] [maxvertexcount(3)]", fn_hosts[0].1)));
    v.push(("function-attribute-all-repeated", place("[numthreads(1, 1, 1)] [WaveSize(32)] [outputtopology(\"triangle\")] [maxvertexcount(3)] [numthreads(1, 1, 1)]", fn_hosts[0].1)));
    for odd in ODD_FN_ATTRS {
        v.push(("function-attribute-odd", place(odd, fn_hosts[0].1)));
        v.push(("function-attribute-odd-repeated", place(&format!("{} {}", odd, odd), fn_hosts[1].1)));
        v.push(("function-attribute-odd-after-valid", place(&format!("[numthreads(1, 1, 1)] {}", odd), fn_hosts[0].1)));
    }
    // ---- statement attributes
    for a in STMT_ATTRS.iter().chain(ODD_STMT_ATTRS) {
        for host in STMT_HOSTS {
            v.push(("statement-attribute", format!("void fn1() {{\n{}    {} {}\n}}\n", SYN_BODY_PRELUDE, a, host)));
        }
        v.push(("statement-attribute-repeated", format!("void fn1() {{\n{}    {} {} {}\n}}\n", SYN_BODY_PRELUDE, a, a, STMT_HOSTS[1])));
        v.push(("statement-attribute-conflicting", format!("void fn1() {{\n{}    {} [branch] [flatten] [loop] [unroll] {}\n}}\n", SYN_BODY_PRELUDE, a, STMT_HOSTS[0])));
    }
    // ---- global attributes
    for a in GLOBAL_ATTRS.iter().chain(ODD_GLOBAL_ATTRS) {
        for host in GLOBAL_HOSTS {
            v.push(("global-attribute", format!("{} {}\n", a, host.replace('X', "ga1"))));
        }
        v.push(("global-attribute-repeated", format!("{} {} {}\n", a, a, GLOBAL_HOSTS[0].replace('X', "ga1"))));
        v.push(("global-attribute-repeated-used", format!("{} [[vk::binding(9, 2)]] {} {}\n[numthreads(1, 1, 1)] void use_ga() {{ ga1.Load(0); }}\nPipeline GP {{ ComputeShader = use_ga; }}\n", a, a, GLOBAL_HOSTS[0].replace('X', "ga1"))));
    }
    for (a, b) in [("[[vk::binding(1)]]", "[[vk::binding(2)]]"), ("[[rssl::bind_group(1)]]", "[[rssl::bind_group(2)]]"), ("[[vk::binding(1, 2)]]", "[[rssl::bind_group(3)]]"), ("[[rssl::bind_group(3)]]", "[[vk::binding(1, 2)]]"), ("[[rssl::bindless]]", "[[rssl::bindless]]"), ("[[vk::binding(1)]]", "[[rssl::bindless]]")] {
        for host in &GLOBAL_HOSTS[..6] {
            v.push(("global-attribute-pair", format!("{} {} {}\n", a, b, host.replace('X', "ga1"))));
            v.push(("global-attribute-pair-with-register", format!("{} {} {}\n", a, b, host.replace("X;", "X : register(space1);").replace("X[4];", "X[4] : register(t2);").replace('X', "ga1"))));
        }
    }
    // ---- redefinitions: every ordered pair of entity kinds under one name, at file scope and inside a namespace
    for (_, a) in ENTITY_KINDS {
        for (_, b) in ENTITY_KINDS {
            v.push(("redefinition-pair", format!("{}\n{}\n", a.replace('X', "rd1"), b.replace('X', "rd1"))));
        }
    }
    for (i, (ka, a)) in ENTITY_KINDS.iter().enumerate() {
        for (j, (kb, b)) in ENTITY_KINDS.iter().enumerate() {
            // pipelines and cbuffers are file-scope only; one inner-namespace variant for a third of the remaining pairs
            if (i + 2 * j) % 3 != 0 || ["pipeline", "cbuffer", "cbuffer-member"].contains(ka) || ["pipeline", "cbuffer", "cbuffer-member"].contains(kb) {
                continue;
            }
            v.push(("redefinition-pair-in-namespace", format!("namespace RN {{\n{}\n{}\n}}\n", a.replace('X', "rd1"), b.replace('X', "rd1"))));
            v.push(("redefinition-pair-across-namespace", format!("{}\nnamespace RN {{\n{}\n}}\nnamespace RN {{\n{}\n}}\n", a.replace('X', "rd1"), b.replace('X', "rd1"), a.replace('X', "rd1"))));
        }
    }
    // a name of the prelude declared again as every kind (S0 struct, E0 enum, E0_A enum value, U0 typedef, c0 constant, CB0 cbuffer,
    // cb_f cbuffer member, g_t2d resource, hf0 function, ht0 template, N0 namespace, dcs entry point, abs / float4 / Texture2D builtin names)
    for name in ["S0", "E0", "E0_A", "U0", "c0", "CB0", "cb_f", "g_t2d", "hf0", "ht0", "N0", "dcs", "abs", "float4", "Texture2D", "SV_Position", "Pipeline", "StaticSampler", "register", "vertices"] {
        for (k, a) in ENTITY_KINDS {
            if name.len() > 6 && !["static-variable", "function", "struct", "typedef", "pipeline", "enum-value"].contains(k) {
                continue;
            }
            v.push(("redefinition-of-prelude-name", format!("{}\n", a.replace('X', name))));
        }
    }
    for (_, t) in INNER_DUPLICATES {
        v.push(("duplicate-in-scope", format!("{}\n", t.replace('X', "du1"))));
    }
    v
}

pub fn props_categories() -> Vec<&'static str> {
    let mut v: Vec<&'static str> = props_variants().into_iter().map(|x| x.0).collect();
    v.extend(["random-pipeline", "random-pipeline-with-repeat", "random-sampler", "random-sampler-with-repeat", "random-attributes", "random-redefinition", "random-blend-with-repeat"]);
    v.sort();
    v.dedup();
    v
}

fn props_wrap(body: &str) -> String {
    // a compute pipeline at the end so that a program whose item is accepted reaches the exporters
    format!("{}{}{}Pipeline Main {{ ComputeShader = dcs; }}\n", SYN_PRELUDE, PROPS_PRELUDE, body)
}

/// the k-th deterministic variant as a whole program
pub fn props_single(k: usize) -> Option<String> {
    let v = props_variants();
    v.get(k).map(|(_, t)| props_wrap(t))
}

fn random_value(rng: &mut Rng, vals: &[&str]) -> String {
    if rng.chance(1, 6) { rng.pick(ODD_VALUES).to_string() } else { rng.pick(vals).to_string() }
}

/// a random property list over a table: random subset, random order, random repeats (returns whether something repeats)
fn random_props(rng: &mut Rng, table: &[(&str, &[&str])], max: u64, repeat: bool) -> (Vec<(String, String)>, bool) {
    let mut out: Vec<(String, String)> = Vec::new();
    let n = rng.below(max + 1);
    for _ in 0..n {
        let (name, vals) = rng.pick(table);
        if !repeat && out.iter().any(|p| p.0 == *name) {
            continue;
        }
        out.push((name.to_string(), random_value(rng, vals)));
    }
    if repeat && !out.is_empty() {
        // repeat one to three of them at random places
        for _ in 0..(1 + rng.below(3)) {
            let (name, old) = out[rng.below(out.len() as u64) as usize].clone();
            let vals = table.iter().find(|t| t.0 == name).map(|t| t.1).unwrap_or(&[]);
            let val = if rng.chance(1, 2) || vals.is_empty() { old } else { random_value(rng, vals) };
            let at = rng.below(out.len() as u64 + 1) as usize;
            out.insert(at, (name, val));
        }
    }
    let mut names: Vec<&String> = out.iter().map(|p| &p.0).collect();
    names.sort();
    let repeated = names.windows(2).any(|w| w[0] == w[1]);
    (out, repeated)
}

pub fn gen_props(rng: &mut Rng) -> PropsProgram {
    let mut cats: std::collections::BTreeSet<&'static str> = Default::default();
    let mut body = String::new();
    // 0-2 static samplers
    for i in 0..rng.below(3) {
        let want = rng.chance(1, 3);
        let (ps, rep) = random_props(rng, SAMPLER_PROPS, 7, want);
        cats.insert(if rep { "random-sampler-with-repeat" } else { "random-sampler" });
        body.push_str(&format!("const {} rs{} = StaticSampler {{{} }};\n", if rng.chance(1, 3) { "SamplerComparisonState" } else { "SamplerState" }, i, props_block(&ps)));
    }
    // a function with a random attribute list (possibly repeated / odd), used as an entry point half of the time
    let mut entry = "dcs".to_string();
    if rng.chance(1, 2) {
        cats.insert("random-attributes");
        let mut attrs = String::new();
        for _ in 0..(1 + rng.below(4)) {
            let a = if rng.chance(1, 5) { rng.pick(ODD_FN_ATTRS).to_string() } else {
                let fam = rng.pick(FN_ATTRS).1;
                rng.pick(fam).to_string()
            };
            attrs.push_str(&a);
            attrs.push(if rng.chance(1, 4) { '\n' } else { ' ' });
        }
        if !attrs.to_lowercase().contains("numthreads") && rng.chance(3, 4) {
            attrs.push_str("[numthreads(1, 1, 1)] ");
        }
        body.push_str(&format!("{}void ra_entry() {{\n{}    {} {}\n    {} {} {}\n}}\n", attrs, SYN_BODY_PRELUDE, rng.pick(STMT_ATTRS), rng.pick(STMT_HOSTS),
            rng.pick(STMT_ATTRS), if rng.chance(1, 3) { rng.pick(ODD_STMT_ATTRS) } else { rng.pick(STMT_ATTRS) }, rng.pick(&STMT_HOSTS[..4])));
        if rng.chance(1, 2) {
            entry = "ra_entry".to_string();
        }
        let ga = if rng.chance(1, 4) { rng.pick(ODD_GLOBAL_ATTRS) } else { rng.pick(GLOBAL_ATTRS) };
        let gb = if rng.chance(1, 2) { rng.pick(GLOBAL_ATTRS) } else { &"" };
        body.push_str(&format!("{} {} {}\n", ga, gb, rng.pick(GLOBAL_HOSTS).replace('X', "rg1")));
    }
    if rng.chance(1, 4) {
        cats.insert("random-redefinition");
        let (a, b) = (rng.pick(ENTITY_KINDS).1, rng.pick(ENTITY_KINDS).1);
        if rng.chance(1, 2) {
            body.push_str(&format!("{}\n{}\n", a.replace('X', "rr1"), b.replace('X', "rr1")));
        } else {
            body.push_str(&format!("{}\n", rng.pick(INNER_DUPLICATES).1.replace('X', "rr1")));
        }
    }
    // 1-3 pipelines
    let np = 1 + rng.below(3);
    for i in 0..np {
        let nst = if rng.chance(1, 8) { 6 } else { 4 };
        let (kind, stages) = *rng.pick(&PROPS_STAGES[..nst]);
        let stages = if kind == "compute" { format!("ComputeShader = {};", entry) } else { stages.to_string() };
        let want = rng.chance(2, 5);
        let (mut ps, rep) = random_props(rng, PIPE_PROPS, 8, want);
        let mut blend_rep = false;
        for p in ps.iter_mut() {
            if p.0.starts_with("BlendState") && rng.chance(1, 2) {
                let want = rng.chance(1, 3);
                let (bs, r) = random_props(rng, BLEND_PROPS, 6, want);
                blend_rep |= r;
                p.1 = format!("{{{} }}", props_block(&bs));
            }
        }
        if rng.chance(1, 10) {
            ps.push((rng.pick(UNKNOWN_PIPE_PROPS).to_string(), "1".to_string()));
        }
        cats.insert(if rep { "random-pipeline-with-repeat" } else { "random-pipeline" });
        if blend_rep {
            cats.insert("random-blend-with-repeat");
        }
        // the stages stand first, last or in the middle of the properties
        let text = match rng.below(3) {
            0 => pipeline_text(&format!("RP{}", i), &stages, &ps),
            1 => format!("Pipeline RP{} {{{} {} }}\n", i, props_block(&ps), stages),
            _ => {
                let k = rng.below(ps.len() as u64 + 1) as usize;
                format!("Pipeline RP{} {{{} {}{} }}\n", i, props_block(&ps[..k]), stages, props_block(&ps[k..]))
            }
        };
        body.push_str(&text);
    }
    PropsProgram { text: props_wrap(&body), cats }
}

// ------------------------------------------------------------------------------------------------------------------
// C08.pipeprops: one property block whose outcome the Lean model predicts (Model/PipelineProps.lean): the duplicate check
// and the state loop of parse_pipeline (`g` graphics / `c` compute) or the duplicate check and the walk of
// parse_static_sampler (`s`).  Every property has a valid value, so the only diagnostics left are the ones the model knows.

/// the source of a block and the 1-based column of every property name on line 2
pub fn pipeprops_text(kind: &str, names: &[String]) -> (String, Vec<usize>) {
    let mut text = String::from("float4 vs() : SV_Position { return float4(0, 0, 0, 1); } float4 ps() : SV_Target { return float4(0, 0, 0, 1); } [numthreads(1, 1, 1)] void cs() {}\n");
    let mut line = String::from(if kind == "s" { "const SamplerState s = StaticSampler {" } else { "Pipeline P {" });
    let mut cols = Vec::new();
    for n in names {
        let value: String = if kind == "s" {
            SAMPLER_PROPS.iter().find(|p| p.0 == n).map(|p| p.1[0]).unwrap_or("Wrap").to_string()
        } else {
            match n.as_str() {
                "VertexShader" => "vs".into(),
                "PixelShader" => "ps".into(),
                "ComputeShader" | "MeshShader" | "TaskShader" => "cs".into(),
                _ => PIPE_PROPS.iter().find(|p| p.0 == n).map(|p| p.1[0]).unwrap_or("1").to_string(),
            }
        };
        line.push(' ');
        cols.push(line.len() + 1);
        line.push_str(&format!("{} = {}{}", n, value, if value.starts_with('{') { "" } else { ";" }));
    }
    line.push_str(if kind == "s" { " };\nPipeline P { ComputeShader = cs; }\n" } else { " }\n" });
    text.push_str(&line);
    (text, cols)
}

/// (kind, property names in source order)
pub fn gen_pipeprops(rng: &mut Rng) -> (String, Vec<String>) {
    let kind = match rng.below(10) { 0..=5 => "g", 6..=7 => "c", _ => "s" };
    let mut names: Vec<String> = Vec::new();
    let n = rng.below(8);
    for _ in 0..n {
        let name = if rng.chance(1, 12) {
            rng.pick(UNKNOWN_PIPE_PROPS).to_string()
        } else if kind == "s" {
            rng.pick(SAMPLER_PROPS).0.to_string()
        } else {
            rng.pick(PIPE_PROPS).0.to_string()
        };
        if rng.chance(1, 2) && names.contains(&name) {
            continue;
        }
        names.push(name);
    }
    if rng.chance(2, 5) && !names.is_empty() {
        for _ in 0..(1 + rng.below(2)) {
            let again = names[rng.below(names.len() as u64) as usize].clone();
            let at = rng.below(names.len() as u64 + 1) as usize;
            names.insert(at, again);
        }
    }
    if kind != "s" {
        let stages: &[&str] = if kind == "c" { &["ComputeShader"] } else { &["VertexShader", "PixelShader"] };
        for st in stages {
            let at = if rng.chance(1, 2) { 0 } else { rng.below(names.len() as u64 + 1) as usize };
            names.insert(at.min(names.len()), st.to_string());
        }
        if kind == "g" && rng.chance(1, 2) {
            // VertexShader before PixelShader most of the time (the order does not matter to the type checker)
            let (v, p) = (names.iter().position(|x| x == "VertexShader"), names.iter().position(|x| x == "PixelShader"));
            if let (Some(v), Some(p)) = (v, p) {
                if v > p {
                    names.swap(v, p);
                }
            }
        }
        if rng.chance(1, 12) {
            let again = stages[0].to_string();
            let at = rng.below(names.len() as u64 + 1) as usize;
            names.insert(at, again);
        }
    }
    (kind.to_string(), names)
}

/// hand-picked blocks: every asserting property repeated on a graphics pipeline (adjacent, apart, before the stages), every
/// property repeated once, the gated properties on a compute pipeline, sampler properties repeated
pub fn pipeprops_fixed() -> Vec<(String, Vec<String>)> {
    let s = |x: &str| x.to_string();
    let mut v = Vec::new();
    for (name, _) in PIPE_PROPS {
        v.push((s("g"), vec![s("VertexShader"), s("PixelShader"), s(name), s(name)]));
        v.push((s("g"), vec![s(name), s("VertexShader"), s("DefaultBindGroup"), s("PixelShader"), s(name)]));
        v.push((s("g"), vec![s("VertexShader"), s("PixelShader"), s(name), s("BlendState"), s("CullMode"), s(name), s("CullMode")]));
        v.push((s("c"), vec![s("ComputeShader"), s(name), s(name)]));
        v.push((s("c"), vec![s(name), s("ComputeShader")]));
        v.push((s("g"), vec![s("VertexShader"), s("PixelShader"), s(name)]));
    }
    for (name, _) in SAMPLER_PROPS {
        v.push((s("s"), vec![s(name), s(name)]));
        v.push((s("s"), vec![s(name), s("Filter"), s("AddressU"), s(name)]));
        v.push((s("s"), vec![s(name), s("Foo"), s(name)]));
        v.push((s("s"), vec![s(name)]));
    }
    v.push((s("g"), vec![s("VertexShader"), s("PixelShader")]));
    v.push((s("g"), vec![s("VertexShader"), s("VertexShader"), s("PixelShader")]));
    v.push((s("c"), vec![s("ComputeShader"), s("ComputeShader")]));
    v.push((s("g"), PIPE_PROPS.iter().map(|p| s(p.0)).chain([s("VertexShader"), s("PixelShader")]).collect()));
    v.push((s("s"), SAMPLER_PROPS.iter().map(|p| s(p.0)).collect()));
    v.push((s("s"), Vec::new()));
    v
}

"""C11 — conditional compilation selects exactly the branches C semantics select."""
import itertools
import re

T = "RsslVerif.Thm.C11."
ALPHABET = "01dneElftD"


def nontrivial(req, obs):
    f = req.split("\t")
    if f[0] == "C11.seq":
        s = f[1]
        return any(c in s for c in "01dn") and any(c in s for c in "eEl") and "t" in s
    if f[0] == "C11.run":
        ds = [d.split(":")[0] for d in f[1].split(";")]
        return any(d in ("i", "d", "n") for d in ds) and any(d in ("e", "l") for d in ds)
    if f[0] == "C11.cond":
        return len(f) > 2 and any(op in f[2].split(" ") for op in ("||", "&&", "==", "!=", "<", "<~", ">", ">~"))
    return False


def finding_key(req, obs, detail):
    m = re.match(r"FAIL:(else-after-else|elif-after-else) accepted", detail or "")
    if m:
        return m.group(1) + " accepted"
    m = re.match(r"FAIL:panic ([^:]+):\d+: (.*)$", detail or "")
    if m:
        return "panic %s: %s" % (m.group(1), re.sub(r"\d+", "N", m.group(2)))
    return req


def shrink(req):
    f = req.split("\t")
    if f[0] == "C11.seq":
        s = f[1]
        for i in range(len(s)):
            yield "C11.seq\t" + s[:i] + s[i + 1:]
    elif f[0] == "C11.run":
        ds = f[1].split(";")
        for i in range(len(ds)):
            yield "C11.run\t" + ";".join(ds[:i] + ds[i + 1:])
    elif f[0] == "C11.cond" and len(f) > 2:
        toks = f[2].split(" ")
        for i in range(len(toks)):
            yield "\t".join([f[0], f[1], " ".join(toks[:i] + toks[i + 1:])])
        if f[1]:
            defs = f[1].split(",")
            for i in range(len(defs)):
                yield "\t".join([f[0], ",".join(defs[:i] + defs[i + 1:]), f[2]])


def search(ctx):
    """small inputs to replay on the implementation once an obligation is broken: every directive sequence
    of length <= 4, every operator on a value grid, every pair of operators (precedence / associativity)"""
    out = []
    for n in range(1, 5):
        for t in itertools.product(ALPHABET, repeat=n):
            out.append("C11.seq\t" + "".join(t))
    vals = ["0", "1", "2", "4294967296", "18446744073709551615"]
    ops = ["||", "&&", "==", "!=", "<", "<~ =", ">", ">~ ="]
    for o in ops:
        for a in vals:
            for b in vals:
                out.append("C11.cond\t\t%s %s %s" % (a, o, b))
    for o1 in ops:
        for o2 in ops:
            for a, b, c in itertools.product(["0", "1", "2"], repeat=3):
                out.append("C11.cond\t\t%s %s %s %s %s" % (a, o1, b, o2, c))
    for a in vals:
        out.append("C11.cond\t\t! %s" % a)
        out.append("C11.cond\tA=%s\tA" % a)
        out.append("C11.cond\tA=%s\tdefined ( A ) && ! defined B" % a)
        out.append("C11.cond\t\tU == %s" % a)
    return out


SPEC = {
    "id": "C11",
    "gens": ["CondTables"],
    "lean_modules": ["RsslVerif.Thm.C11"],
    "theorems": [T + n for n in [
        "chain_tables_agree", "automaton_refines_tree", "automaton_refines_tree_any_stack",
        "inactive_has_no_effect", "inactive_if_not_evaluated", "unmatched_rejected", "well_nested_accepted",
        "tree_lines_are_grammatical", "else_after_else_accepted", "elif_after_else_accepted",
        "dead_elif_is_evaluated", "cond_tables_agree", "cond_parser_total", "cond_parse_eval",
        "cond_parse_eval_closed", "total_of_no_operands"]],
    "harness": "c11",
    "nontrivial": nontrivial,
    "finding_key": finding_key,
    "shrink": shrink,
    "search": search,
    "level_text": "Proof: the model of ConditionChain + the gating of preprocess_command (built on the transition table, "
                  "gating table and error variants re-extracted from the source each run) is proved, for every nesting of "
                  "#if/#ifdef/#ifndef/#elif/#else/#endif groups of any depth and length, to keep exactly the text and macro "
                  "definitions the tree-shaped C selection rule keeps, to ignore every line of an unselected group, and to "
                  "reject exactly the unterminated / unmatched sequences with the right error variant; and the model of "
                  "condition_parser.rs (operator tables, BinOp::apply and leaf arms re-extracted each run) is proved to "
                  "evaluate every printed condition tree over || && == != < <= > >= ! parentheses defined() literals "
                  "macros and unknown identifiers to its reference u64 value.",
    "rule": "requests = directive sequences through the real rssl_preprocess::preprocess: exhaustive over the property's "
            "10-symbol alphabet up to length 6 (quick) / 7 (thorough), random sequences of length <= 25 over an extended "
            "alphabet (3 macros, #undef, #pragma, #include, unknown directives, random conditions), and random #if "
            "conditions to depth 5 over literals {0,1,2,5,7,2^32-1,2^32,2^63,2^64-1}, macros and defined(); observed = "
            "surviving token texts per line (incl. a trailing probe line naming every macro) or the error variant; "
            "oracle = an independent reference C preprocessor for conditionals written in Rust; non-trivial = the request "
            "has an #if-like line, an #elif/#else and text (sequences) or a binary operator (conditions)",
    "trusted_base": [
        "Lean 4.33 kernel; axioms propext / Classical.choice / Quot.sound only (audited by #print axioms)",
        "tools/translate.py + tools/gens/c11.py (CondTables: ConditionState, ConditionChain::switch/pop/is_active, the "
        "skip gating of every preprocess_command arm, BinOp::apply, every parse_pN::parse_op, parse_p2, parse_leaf) — "
        "re-run on /repo's working tree every time",
        "hand-written recursion scheme of Model/CondExpr.lean and line processing of Model/CondChain.lean; tied to the "
        "code by the correspondence run only",
        "Spec/CPre.lean: our reading of ISO C 6.10.1 (if-sections as a tree, first true group, nothing in a skipped group "
        "is looked at) and of the operator semantics on u64",
        "the lexer (text -> tokens) is outside this property's model (C10); requests are rendered to text by the harness",
    ],
    "assumptions": [
        "macros are object-like with identifier-free bodies (function-like macros and rescanning belong to C12)",
        "included files hold ordinary text only (nested directives in includes belong to C12)",
        "the theorems about selection assume well-formed #elif conditions: the code evaluates #elif conditions even in "
        "groups C never looks at (theorem dead_elif_is_evaluated), which the property excludes",
    ],
}

import RsslVerif.Model.Meta
import RsslVerif.Model.MetaReach
import RsslVerif.Driver.Util
/-!
Line-protocol front end of the C05 model.

request : C05.meta \t <dx|vk|vkba|msl> \t <all|name=P|nopipeline> \t <nstatics> \t <resources> \t <helpers> \t <entries> \t <pipes>
  resource : name:kind:group:arr:ss:bl:st     kind = ObjectType name | cbuffer; group = - | n; arr = - | n | u;
                                               ss, bl = 0 | 1; st = e | s
  helper   : name:uses:calls:statics          comma separated indices (uses -> resources, calls -> helpers)
  entry    : name:stage:uses:calls:statics:x.y.z|-
  pipe     : name:dflt|-:entry indices
answer  : per built pipeline  M[..] A[..] S[..] F[..]  joined by " ## "  (see harness/src/c05.rs)
-/
namespace RsslVerif.Driver.C05
open RsslVerif.Gen.SlotTables RsslVerif.Gen.MetaTables RsslVerif.Gen.CompileTables
open RsslVerif.Model.Slots RsslVerif.Model.Meta RsslVerif.Model.MetaReach RsslVerif.Driver

structure Res where
  name : String
  kind : Option ObjKind   -- none = cbuffer
  group : Option Nat
  arr : Arr
  ss : Bool
  bl : Bool
  st : Storage

structure Fn where
  name : String
  uses : List Nat
  calls : List Nat
  statics : List Nat
  stage : Option Stage
  threads : Option (Nat × Nat × Nat)

structure Pipe where
  name : String
  dflt : Option Nat
  stages : List Nat

def splitList (s : String) (sep : String) : List String := if s.isEmpty then [] else s.splitOn sep

def natList? (s : String) : Option (List Nat) := sequenceOpt ((splitList s ",").map (·.toNat?))

def flag? (s : String) : Option Bool := if s == "1" then some true else if s == "0" then some false else none

def parseRes (s : String) : Option Res :=
  match s.splitOn ":" with
  | [name, kind, group, arr, ss, bl, st] => do
    let kind ← if kind == "cbuffer" then some none else (ObjKind.ofName? kind).map some
    let group ← optNat? group
    let arr ← if arr == "-" then some Arr.no else if arr == "u" then some Arr.unsized else arr.toNat?.map Arr.sized
    let ss ← flag? ss
    let bl ← flag? bl
    let st ← if st == "e" then some Storage.extern else if st == "s" then some Storage.static else none
    pure { name, kind, group, arr, ss, bl, st }
  | _ => none

def parseStage (s : String) : Option Stage :=
  [Stage.Vertex, .Task, .Mesh, .Pixel, .Compute].find? (fun st => st.name == s)

def parseThreads (s : String) : Option (Option (Nat × Nat × Nat)) :=
  if s == "-" then some none else
  match (s.splitOn ".").map (·.toNat?) with
  | [some x, some y, some z] => some (some (x, y, z))
  | _ => none

def parseHelper (s : String) : Option Fn :=
  match s.splitOn ":" with
  | [name, uses, calls, statics] => do
    pure { name, uses := ← natList? uses, calls := ← natList? calls, statics := ← natList? statics,
           stage := none, threads := none }
  | _ => none

def parseEntry (s : String) : Option Fn :=
  match s.splitOn ":" with
  | [name, stage, uses, calls, statics, threads] => do
    pure { name, uses := ← natList? uses, calls := ← natList? calls, statics := ← natList? statics,
           stage := some (← parseStage stage), threads := ← parseThreads threads }
  | _ => none

def parsePipe (s : String) : Option Pipe :=
  match s.splitOn ":" with
  | [name, dflt, stages] => do pure { name, dflt := ← optNat? dflt, stages := ← natList? stages }
  | _ => none

/-- root definitions in the order the generated file declares them:
    struct CbS; statics; two structs; groupshared payload; resources; (functions contribute nothing) -/
def declsOf (nstatics : Nat) (rs : List Res) : List MDecl × Nat :=
  let pre : List MDecl :=
    [.other] ++ (List.range nstatics).map (fun k => .global ("s_value" ++ toString k) none false none .no false .static) ++
    [.other, .other, .global "lds_payload" none false none .no false .groupshared]
  (pre ++ rs.map fun r =>
    match r.kind with
    | none => .cbuffer r.name r.group
    | some k => .global r.name r.group r.ss (some k) r.arr r.bl r.st, pre.length)

def showLoc : Loc → String
  | .index i => "i" ++ toString i
  | .inline o => "n" ++ toString o

def showEntry (e : Entry) : String :=
  e.name ++ "=" ++ showLoc e.loc ++ ":" ++ e.descType.name ++ ":" ++ showOptNat e.count ++
    ":b" ++ (if e.bindless then "1" else "0") ++ ":u" ++ (if e.used then "1" else "0") ++
    ":s" ++ (if e.staticSampler then "1" else "0")

def showGroup (g : Group) : String :=
  ",".intercalate (g.bindings.map showEntry) ++
    (match g.inlineConstants with | none => "" | some (l, s) => ";inl=" ++ toString l ++ "/" ++ toString s)

def showAnnot (name : String) (a : Annot) : String :=
  let (st, tx) := a.print
  name ++ "=>" ++ (if st.isEmpty then "" else String.ofList st ++ "/") ++ String.ofList tx

def insertStr (s : String) : List String → List String
  | [] => [s]
  | x :: xs => if s < x then s :: x :: xs else x :: insertStr s xs

def sortStrs : List String → List String
  | [] => []
  | x :: xs => insertStr x (sortStrs xs)

def showThreads : Option (Nat × Nat × Nat) → String
  | none => "-"
  | some (x, y, z) => toString x ++ "." ++ toString y ++ "." ++ toString z

def targetParams (tgt : String) : Option (Bool × Params) :=
  if tgt == "dx" then some (false, paramsFor .HlslForDirectX false)
  else if tgt == "vk" then some (false, paramsFor .HlslForVulkan false)
  else if tgt == "vkba" then some (false, paramsFor .HlslForVulkan true)
  else if tgt == "msl" then some (true, paramsFor .Msl false)
  else none

/-- one `build_pipeline` -/
def buildOne (msl : Bool) (p : Params) (nstatics : Nat) (rs : List Res) (helpers entries : List Fn)
    (pipe : Option Pipe) : String :=
  let (ds, off) := declsOf nstatics rs
  let dflt := match pipe with | some pp => pp.dflt.getD 0 | none => 0
  let reserved := if msl then mslReserved else hlslReserved
  -- names the model cannot follow through the name generator (C15)
  if (rs.any fun r => reserved.contains r.name) then "unsupported-renamed-global" else
  let funcs := helpers ++ entries
  let nh := helpers.length
  -- overloads are renamed by the name generator, possibly onto another function's name (C15)
  if !(funcs.map (·.name)).Nodup && !msl then "unsupported-overloaded-names" else
  let stageIds := match pipe with | some pp => pp.stages | none => []
  if stageIds.any (fun k => match entries[k]? with | some f => reserved.contains f.name | none => true) && !msl then
    "unsupported-renamed-entry" else
  -- globals: statics are at positions 1.., resources at off..
  let direct : Sym → List Sym := fun k =>
    match k with
    | .glob _ => []   -- the generated globals have constant initialisers (or none)
    | .fn f =>
      match funcs[f]? with
      | none => []
      | some fd => fd.uses.map (fun r => Sym.glob (off + r)) ++ fd.calls.map Sym.fn ++
                   fd.statics.map (fun k => Sym.glob (1 + k))
  let keys := (List.range funcs.length).map Sym.fn ++ (List.range ds.length).map Sym.glob
  match recurse (funcs.length + 2) keys direct with
  | none => "unsupported-fuel"
  | some req =>
    let usedAt := fun i => usedBy req (stageIds.map (nh + ·)) i
    let slots := assign p dflt (ds.map MDecl.toSlot)
    let metaR := if msl then mslMeta p dflt usedAt ds else hlslMeta p dflt ds
    match slots, metaR with
    | .error e, _ => "panic:" ++ e
    | _, .error e => if e == "UnsupportedBindGroupIndex" then "err:UnsupportedBindGroupIndex" else "panic:" ++ e
    | .ok res, .ok groups =>
      let annR := annots (if msl then mslAnnot else hlslAnnot p) ds res.bindings
      match annR with
      | .error e => "panic:" ++ e
      | .ok anns =>
        let inlineAnns := if msl then [] else
          res.inlineBufs.map fun b => showAnnot (String.ofList (inlineGlobalName b.set)) (.vk b.apiLocation b.set)
        let bufAnns := if msl && pipe.isSome then
          (List.range groups.length).map fun i => "set" ++ toString i ++ "=>" ++ String.ofList (printBuffer i) else []
        let anns := if msl && pipe.isNone then [] else anns.map fun (n, a) => showAnnot n a
        let fdefs : List FuncDef := entries.map fun f => { name := f.name, emitted := f.name, numthreads := f.threads }
        let sdefs : List StageDef := stageIds.filterMap fun k =>
          match entries[k]? with
          | some f => f.stage.map fun st => { stage := st, entry := k }
          | none => none
        let reported := sdefs.filterMap (reportStage msl fdefs)
        let emitted := sdefs.filterMap (emittedStage msl fdefs)
        let showEm := fun (x : String × Option (Nat × Nat × Nat)) =>
          x.1 ++ ":" ++ (if msl then (match x.2 with | none => "-" | some (a, b, c) => toString (a * b * c)) else showThreads x.2)
        "M[" ++ "|".intercalate (groups.map showGroup) ++ "] A[" ++
          ";".intercalate (sortStrs (anns ++ inlineAnns ++ bufAnns)) ++ "] S[" ++
          ",".intercalate (reported.map fun s => s.stage.name ++ ":" ++ s.entryPoint ++ ":" ++ showThreads s.threadGroupSize) ++
          "] F[" ++ ",".intercalate (emitted.map showEm) ++ "]"

def handle (op : String) (args : List String) : String :=
  match op, args with
  | "C05.meta", [tgt, mode, nstatics, rs, hs, es, ps] =>
    match targetParams tgt, nstatics.toNat?, sequenceOpt ((splitList rs ";").map parseRes),
          sequenceOpt ((splitList hs ";").map parseHelper), sequenceOpt ((splitList es ";").map parseEntry),
          sequenceOpt ((splitList ps ";").map parsePipe) with
    | some (msl, p), some ns, some rs, some hs, some es, some ps =>
      if mode == "nopipeline" then buildOne msl p ns rs hs es none
      else if mode == "all" then
        if ps.isEmpty then "err:none" else
        let parts := ps.map fun pp => buildOne msl p ns rs hs es (some pp)
        match parts.find? (·.startsWith "unsupported") with
        | some u => u
        | none =>
          -- compile() stops at the first pipeline that fails to export
          match parts.find? (·.startsWith "err:") with
          | some e => e
          | none => " ## ".intercalate parts
      else if mode.startsWith "name=" then
        let n := (mode.drop 5).toString
        match ps.find? (fun pp => pp.name == n) with
        | some pp => buildOne msl p ns rs hs es (some pp)
        | none => "err:unknown"
      else "bad-request"
    | _, _, _, _, _, _ => "bad-request"
  | _, _ => "unsupported-op"

end RsslVerif.Driver.C05

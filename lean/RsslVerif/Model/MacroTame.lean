import RsslVerif.Model.Macro
/-!
# The tame class, decided (C12)

`tameRun fuel env toks` reads a token list the way `Lemmas/MacroTame.lean` describes a *tame* expansion (keep a token,
or invoke an enabled macro: read the arguments, expand each on its own, substitute, expand the replacement list with
the macro disabled, continue behind the result) and checks the side conditions of that description on the way.  It
answers `some out` only for inputs on which rssl's `apply_macros` and the C algorithm provably agree
(`Thm.C12.tame_refines_spec`); `none` means "outside the class" (or not enough fuel).  Executable, core Lean only:
the driver uses it to classify the cases of the correspondence run.
-/
namespace RsslVerif.Model.MacroTame
open RsslVerif.Model.Macro

/-- the first token that is not white space (blank, comment, line end) -/
def firstTok : List PTok → Option Tok
  | [] => none
  | t :: r => if t.tok.isWhitespace then firstTok r else some t.tok

/-- the C reading of "followed by `(`": the next preprocessing token is `(` -/
def startsParen (l : List PTok) : Bool := firstTok l == some .lparen

/-- the last token that is not white space -/
def lastTok : List PTok → Option Tok
  | [] => none
  | t :: r =>
    match lastTok r with
    | some k => some k
    | none => if t.tok.isWhitespace then none else some t.tok

/-- first entry called `n`, with its index -/
def findName (n : String) : List Entry → Nat → Option (Nat × Entry)
  | [], _ => none
  | e :: es, i => if e.m.name = n then some (i, e) else findName n es (i + 1)

/-- the enabled entry an identifier selects -/
def selectIdx (env : List Entry) (n : String) : Option (Nat × Entry) :=
  match findName n env 0 with
  | some (mi, e) => if e.disabled then none else some (mi, e)
  | none => none

/-- `Kept`, decided -/
def keptB (env : List Entry) (t : PTok) (rest : List PTok) : Bool :=
  match t.tok with
  | .concat => false
  | .id n => env.all (fun e => e.m.name != n || e.disabled || (e.m.isFunction && !startsParen rest))
  | _ => true

/-- `OnlyDisabled`, decided -/
def onlyDisabledB (env : List Entry) (l : List PTok) : Bool :=
  l.all (fun t =>
    match t.tok with
    | .id n => env.all (fun e => e.m.name != n || e.disabled)
    | _ => true)

def noFireFrom (g : String) (mi : Nat) : List Entry → Nat → Bool
  | [], _ => true
  | e :: es, j => (e.m.name != g || !e.m.isFunction || e.disabled || j == mi) && noFireFrom g mi es (j + 1)

/-- `NoFire`, decided -/
def noFireB (env : List Entry) (mi : Nat) (R rest : List PTok) : Bool :=
  if startsParen rest then
    match lastTok R with
    | some (.id g) => noFireFrom g mi env 0
    | _ => true
  else true

def mapO {α β : Type} (f : α → Option β) : List α → Option (List β)
  | [] => some []
  | a :: r =>
    match f a with
    | none => none
    | some b =>
      match mapO f r with
      | none => none
      | some bs => some (b :: bs)

def tameRun : Nat → List Entry → List PTok → Option (List PTok)
  | 0, _, _ => none
  | _ + 1, _, [] => some []
  | f + 1, env, t :: rest =>
    let keep : Option (List PTok) :=
      if keptB env t rest then
        match tameRun f env rest with
        | some out => some (t :: out)
        | none => none
      else none
    match t.tok with
    | .id n =>
      match selectIdx env n with
      | none => keep
      | some (mi, e) =>
        match readArgs e.m rest with
        | .error _ => keep
        | .ok (rest', args) =>
          match mapO (tameRun f env) args with
          | none => none
          | some args' =>
            if args'.all (onlyDisabledB env) then
              match substitute e.m.body args' with
              | .error _ => none
              | .ok body' =>
                match tameRun f (disable env mi) body' with
                | none => none
                | some R =>
                  if noFireB env mi R rest' then
                    match tameRun f env rest' with
                    | some out => some (R ++ out)
                    | none => none
                  else none
            else none
    | _ => keep

/-! ## experimental: the class extended by invocations that are completed after the end of an expansion

`tameRun2` additionally accepts a function-like name at the end of an expansion that is followed by `(` in the rest of
the source when (1) the frame is *pure* (no token of the list came out of an expanded argument: all hide sets are the
disabled names), (2) the name is *open* (it was looked at with nothing after it) and (3) none of the macros that
produced it is the name itself.  Second component of the result: `some hs` if the last token of the output is open,
`hs` = the macros (beyond the disabled ones) it came out of.  Used by the driver op `C12.tame2` to measure the class
against the real code before anything is proved about it. -/

def allBlank (l : List PTok) : Bool := l.all (fun t => t.tok.isBlank)

/-- split at the last token that is not white space: (before, that token, white space after) -/
def splitLast : List PTok → Option (List PTok × PTok × List PTok)
  | [] => none
  | t :: r =>
    match splitLast r with
    | some (a, g, b) => some (t :: a, g, b)
    | none => if t.tok.isWhitespace then none else some ([], t, r)

def startsParenM (l : List PTok) : Bool :=
  match trimStart l with
  | ⟨.lparen, _⟩ :: _ => true
  | _ => false

def noNames (env : List Entry) (l : List PTok) : Bool :=
  l.all (fun t => match t.tok with
    | .id n => env.all (fun e => e.m.name != n || e.disabled)
    | _ => true)

def ppEmpty (l : List PTok) : Bool := l.all (fun t => t.tok.isWhitespace)

mutual
def tameRun2 : Nat → List Entry → Bool → List PTok → Option (List PTok × Option (List String))
  | 0, _, _, _ => none
  | _ + 1, _, _, [] => some ([], none)
  | f + 1, env, pure, t :: rest =>
    let keep : Option (List PTok × Option (List String)) :=
      if keptB env t rest then
        match tameRun2 f env pure rest with
        | some (out, ti) =>
          some (t :: out, if ppEmpty rest then (if t.tok.isWhitespace then none else some []) else ti)
        | none => none
      else none
    match t.tok with
    | .id n =>
      match selectIdx env n with
      | none => keep
      | some (mi, e) =>
        match readArgs e.m rest with
        | .error _ => keep
        | .ok (rest', args) =>
          match mapO (fun a => (tameRun2 f env pure a).map (·.1)) args with
          | none => none
          | some args' =>
            if args'.all (onlyDisabledB env) then
              match substitute e.m.body args' with
              | .error _ => none
              | .ok body' =>
                let pure' := pure && (!e.m.isFunction || args.all (noNames env))
                match tameRun2 f (disable env mi) pure' body' with
                | none => none
                | some (R, tiR) => tameAfter f env pure mi (if e.m.isFunction then some mi else none) R
                    (tiR.map (n :: ·)) rest'
            else none
    | _ => keep

def tameAfter : Nat → List Entry → Bool → Nat → Option Nat → List PTok → Option (List String) → List PTok →
    Option (List PTok × Option (List String))
  | 0, _, _, _, _, _, _, _ => none
  | f + 1, env, pure, mi, lastFn, R, tiR, rest =>
    if noFireB env mi R rest then
      match tameRun2 f env pure rest with
      | some (out, ti) => some (R ++ out, if ppEmpty rest then tiR else ti)
      | none => none
    else
      -- the model's early scan: the last token of `R` that is not blank, followed by blanks and `(`
      match splitLast R with
      | some (R0, ⟨.id g, _⟩, blanks) =>
        match selectIdx env g with
        | some (mj, e) =>
          if e.m.isFunction && allBlank blanks && startsParenM rest && lastFn != some mj && pure &&
              (match tiR with | some hs => !hs.contains g | none => false) then
            match readArgs e.m rest with
            | .error _ => none
            | .ok (rest', args) =>
              match mapO (fun a => (tameRun2 f env pure a).map (·.1)) args with
              | none => none
              | some args' =>
                if args'.all (onlyDisabledB env) then
                  match substitute e.m.body args' with
                  | .error _ => none
                  | .ok body' =>
                    let pure' := pure && args.all (noNames env)
                    match tameRun2 f (disable env mj) pure' body' with
                    | none => none
                    | some (R', tiR') =>
                      match tameAfter f env pure mj (some mj) R' (tiR'.map (g :: ·)) rest' with
                      | some (out, ti) => some (R0 ++ out, ti)
                      | none => none
                else none
          else none
        | none => none
      | _ => none
end


/-- what `Macro::parse` guarantees about a replacement list (`WFMacro`, decided), plus "no `##`" -/
def wfB (m : Macro) : Bool :=
  m.body.all (fun t =>
    match t.tok with
    | .hashhash => false
    | .concat => false
    | .id s => s.toList.head? != some '$'
    | .arg i => decide (i < m.numParams) && m.isFunction
    | _ => true)


end RsslVerif.Model.MacroTame

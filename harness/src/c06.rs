//! C06: binding slot allocation. Drives the real `Module::assign_api_bindings` on type-checked
//! generated declaration sequences and checks the property's own oracle on the result.
//!
//! request : C06.assign \t <4 param bits> \t <default group> \t decl;decl;...
//!   decl  : o | c:<set|-> | g:<set|->:<ss>:<Kind|->:<len|->
//! observe : per root definition `-` or `set,(i<index>|n<offset>),(T|U|S|B|-)` joined by `;`
//!           then ` || ` and the inline constant buffers `set,location,size` joined by `;`
use crate::util::*;
use rssl::ir;

#[path = "c06/e2e.rs"]
mod e2e;

#[derive(Clone, Debug, PartialEq)]
pub enum Decl {
    /// `static` / `groupshared` global with an object type: lives in the shader, takes no slot
    /// (shown to the model as a global that is not an external object: `g:<set>:0:-:<len>`)
    StaticObject { set: Option<u32>, kind: &'static str, len: Option<u32> },
    Other,
    CBuffer(Option<u32>),
    Global {
        set: Option<u32>,
        ss: bool,
        kind: Option<&'static str>,
        len: Option<u32>,
    },
}

/// every object kind that can be declared as a global, with the source spelling of its type
pub const KINDS: &[(&str, &str)] = &[
    ("Buffer", "Buffer<float4>"),
    ("RWBuffer", "RWBuffer<float4>"),
    ("ByteAddressBuffer", "ByteAddressBuffer"),
    ("RWByteAddressBuffer", "RWByteAddressBuffer"),
    ("BufferAddress", "BufferAddress"),
    ("RWBufferAddress", "RWBufferAddress"),
    ("StructuredBuffer", "StructuredBuffer<float4>"),
    ("RWStructuredBuffer", "RWStructuredBuffer<float4>"),
    ("Texture2D", "Texture2D<float4>"),
    ("Texture2DArray", "Texture2DArray<float4>"),
    ("RWTexture2D", "RWTexture2D<float4>"),
    ("RWTexture2DArray", "RWTexture2DArray<float4>"),
    ("TextureCube", "TextureCube<float4>"),
    ("TextureCubeArray", "TextureCubeArray<float4>"),
    ("Texture3D", "Texture3D<float4>"),
    ("RWTexture3D", "RWTexture3D<float4>"),
    ("ConstantBuffer", "ConstantBuffer<CbS>"),
    ("SamplerState", "SamplerState"),
    ("SamplerComparisonState", "SamplerComparisonState"),
    ("RaytracingAccelerationStructure", "RaytracingAccelerationStructure"),
];

/// object kinds that are NOT resources (no register class) but can be written as the type of a global: since fix
/// 774c0b4 the allocator leaves such a global alone (before it, `get_register_type` panicked on the DirectX
/// parameter set and the other parameter sets handed it a slot)
pub const NON_RESOURCE_KINDS: &[(&str, &str)] = &[
    ("RayDesc", "RayDesc"),
    ("RayQuery", "RayQuery<0>"),
    ("TriangleStream", "TriangleStream<CbS>"),
];

fn spelling(kind: &str) -> &'static str {
    KINDS.iter().chain(NON_RESOURCE_KINDS).find(|x| x.0 == kind).unwrap().1
}

fn is_resource(kind: &str) -> bool {
    KINDS.iter().any(|x| x.0 == kind)
}

/// kinds that take two slots per element on Metal (the property: raw and structured buffers)
const DOUBLED: &[&str] = &[
    "ByteAddressBuffer",
    "RWByteAddressBuffer",
    "BufferAddress",
    "RWBufferAddress",
    "StructuredBuffer",
    "RWStructuredBuffer",
];

pub const PARAM_SETS: &[[bool; 4]] = &[
    // require_slot_type, support_buffer_address, metal_slot_layout, static_samplers_have_slots
    [true, false, false, true],   // HlslForDirectX
    [false, false, false, true],  // HlslForVulkan
    [false, true, false, true],   // HlslForVulkan + buffer address
    [false, false, true, false],  // Msl / MetalBytecode
];

fn show_decl(d: &Decl) -> String {
    let on = |o: &Option<u32>| o.map(|v| v.to_string()).unwrap_or_else(|| "-".into());
    match d {
        Decl::Other => "o".into(),
        Decl::StaticObject { set, len, .. } => format!("g:{}:0:-:{}", on(set), on(len)),
        Decl::CBuffer(s) => format!("c:{}", on(s)),
        Decl::Global { set, ss, kind, len } => format!(
            "g:{}:{}:{}:{}",
            on(set),
            if *ss { 1 } else { 0 },
            kind.unwrap_or("-"),
            on(len)
        ),
    }
}

fn parse_decl(s: &str) -> Option<Decl> {
    let on = |t: &str| -> Option<Option<u32>> {
        if t == "-" { Some(None) } else { t.parse().ok().map(Some) }
    };
    let p: Vec<&str> = s.split(':').collect();
    match p.as_slice() {
        ["o"] => Some(Decl::Other),
        ["c", s] => Some(Decl::CBuffer(on(s)?)),
        ["g", set, ss, kind, len] => Some(Decl::Global {
            set: on(set)?,
            ss: *ss == "1",
            kind: if *kind == "-" {
                None
            } else {
                Some(KINDS.iter().chain(NON_RESOURCE_KINDS).find(|k| k.0 == *kind)?.0)
            },
            len: on(len)?,
        }),
        _ => None,
    }
}

/// RSSL source for a declaration sequence; one root definition per declaration, then `main`
fn source(decls: &[Decl]) -> String {
    let mut s = String::new();
    // the struct used by ConstantBuffer<CbS> is itself a root definition: it is declared first and
    // reported as `o` by the request builder
    s.push_str("struct CbS { float4 v; };\n");
    for (i, d) in decls.iter().enumerate() {
        match d {
            // every kind of root definition that is never bound (one root definition each), chosen by position
            Decl::Other => s.push_str(&match i % 5 {
                0 => format!("struct S{} {{ int x; }};\n", i),
                1 => format!("template<typename T> struct S{} {{ T x; }};\n", i),
                2 => format!("enum S{} {{ S{}_A }};\n", i, i),
                3 => format!("void S{}(int x);\n", i),
                _ => format!("void S{}(int x) {{}}\n", i),
            }),
            Decl::StaticObject { set, kind, len } => {
                if let Some(g) = set {
                    s.push_str(&format!("[[rssl::bind_group({})]] ", g));
                }
                let ty = KINDS.iter().find(|x| x.0 == *kind).unwrap().1;
                s.push_str(&format!("static {} g{}", ty, i));
                if let Some(n) = len {
                    s.push_str(&format!("[{}]", n));
                }
                s.push_str(";\n");
            }
            Decl::CBuffer(set) => {
                if let Some(g) = set {
                    s.push_str(&format!("[[rssl::bind_group({})]] ", g));
                }
                s.push_str(&format!("cbuffer CB{} {{ float4 cv{}; }}\n", i, i));
            }
            Decl::Global { set, ss, kind, len } => {
                if let Some(g) = set {
                    s.push_str(&format!("[[rssl::bind_group({})]] ", g));
                }
                let ty = match kind {
                    Some(k) => spelling(k),
                    None => "static const int",
                };
                s.push_str(&format!("{} g{}", ty, i));
                if let Some(n) = len {
                    s.push_str(&format!("[{}]", n));
                }
                if *ss {
                    s.push_str(" = StaticSampler { Filter = MIN_MAG_MIP_LINEAR; }");
                } else if kind.is_none() {
                    if let Some(n) = len {
                        let items: Vec<String> = (0..*n).map(|x| x.to_string()).collect();
                        s.push_str(&format!(" = {{ {} }}", items.join(", ")));
                    } else {
                        s.push_str(" = 1");
                    }
                }
                s.push_str(";\n");
            }
        }
    }
    s.push_str("[numthreads(1, 1, 1)] void main() {}\n");
    for d in 0..3 {
        s.push_str(&format!(
            "Pipeline P{} {{ ComputeShader = main; DefaultBindGroup = {}; }}\n",
            d, d
        ));
    }
    s
}

fn show_binding(b: &Option<ir::ApiBinding>) -> String {
    match b {
        None => "-".into(),
        Some(b) => format!(
            "{},{},{}",
            b.set,
            match b.location {
                ir::ApiLocation::Index(i) => format!("i{}", i),
                ir::ApiLocation::InlineConstant(o) => format!("n{}", o),
            },
            match b.slot_type {
                None => "-".to_string(),
                Some(r) => format!("{:?}", r),
            }
        ),
    }
}

struct Observed {
    bindings: Vec<Option<ir::ApiBinding>>,
    inline: Vec<(u32, u32, u32)>,
}

fn observe(module: &ir::Module, params: [bool; 4], dflt: u32) -> Result<Observed, String> {
    let m = module.clone();
    guard(move || {
        let m = m.select_pipeline(&format!("P{}", dflt)).expect("pipeline");
        let m = m.assign_api_bindings(&rssl::AssignBindingsParams {
            require_slot_type: params[0],
            support_buffer_address: params[1],
            metal_slot_layout: params[2],
            static_samplers_have_slots: params[3],
        });
        let mut bindings = Vec::new();
        for rd in &m.root_definitions {
            bindings.push(match rd {
                ir::RootDefinition::ConstantBuffer(id) => m.cbuffer_registry[id.0 as usize].api_binding,
                ir::RootDefinition::GlobalVariable(id) => m.global_registry[id.0 as usize].api_slot,
                _ => None,
            });
        }
        let inline = m
            .inline_constant_buffers
            .iter()
            .map(|b| (b.set, b.api_location, b.size_in_bytes))
            .collect();
        Observed { bindings, inline }
    })
}

/// The property's own oracle, evaluated on the real result (independent of the Lean model).
fn oracle(decls: &[Decl], params: [bool; 4], dflt: u32, obs: &Observed) -> Result<(), String> {
    let [_req, sba, metal, ss_slots] = params;
    if obs.bindings.len() != decls.len() {
        return Err(format!(
            "{} root definitions for {} declarations",
            obs.bindings.len(),
            decls.len()
        ));
    }
    let mut next_index: std::collections::BTreeMap<u32, u32> = Default::default();
    let mut next_inline: std::collections::BTreeMap<u32, u32> = Default::default();
    for (i, (d, b)) in decls.iter().zip(&obs.bindings).enumerate() {
        // what the property requires for this declaration
        let (group, want): (u32, Option<(bool, u32)>) = match d {
            Decl::Other => (dflt, None),
            Decl::StaticObject { set, .. } => (set.unwrap_or(dflt), None),
            Decl::CBuffer(s) => (s.unwrap_or(dflt), Some((false, 1))),
            Decl::Global { set, ss, kind, len } => {
                let g = set.unwrap_or(dflt);
                match kind {
                    None => (g, None),
                    Some(_) if *ss && !ss_slots => (g, None),
                    // a ray description / ray query / output stream is not something bound from outside the shader
                    Some(k) if !is_resource(k) => (g, None),
                    Some(k) => {
                        let is_ba = *k == "BufferAddress" || *k == "RWBufferAddress";
                        if sba && is_ba && len.is_none() {
                            (g, Some((true, 8)))
                        } else {
                            let per = if metal && DOUBLED.contains(k) { 2 } else { 1 };
                            (g, Some((false, len.unwrap_or(1) * per)))
                        }
                    }
                }
            }
        };
        match (want, b) {
            (None, None) => {}
            (None, Some(b)) => return Err(format!("decl {} takes no slot but got {:?}", i, b)),
            (Some(_), None) => return Err(format!("decl {} must be bound but has no slot", i)),
            (Some((inline, count)), Some(b)) => {
                if b.set != group {
                    return Err(format!("decl {} in group {} expected {}", i, b.set, group));
                }
                match (inline, b.location) {
                    (false, ir::ApiLocation::Index(idx)) => {
                        let e = next_index.entry(group).or_insert(0);
                        if idx != *e {
                            return Err(format!(
                                "decl {} starts at slot {} of group {}, expected {} (gap/overlap/order)",
                                i, idx, group, *e
                            ));
                        }
                        *e += count;
                    }
                    (true, ir::ApiLocation::InlineConstant(off)) => {
                        let e = next_inline.entry(group).or_insert(0);
                        if off != *e {
                            return Err(format!(
                                "decl {} inline offset {} of group {}, expected {}",
                                i, off, group, *e
                            ));
                        }
                        *e += count;
                    }
                    (false, l) => return Err(format!("decl {} expected an index slot, got {:?}", i, l)),
                    (true, l) => return Err(format!("decl {} expected an inline constant, got {:?}", i, l)),
                }
            }
        }
    }
    // one inline block per group with buffer addresses, after all other slots, sorted by group
    let want_inline: Vec<(u32, u32, u32)> = next_inline
        .iter()
        .map(|(g, size)| (*g, *next_index.get(g).unwrap_or(&0), *size))
        .collect();
    if want_inline != obs.inline {
        return Err(format!(
            "inline constant buffers {:?}, expected {:?}",
            obs.inline, want_inline
        ));
    }
    Ok(())
}

fn show_obs(o: &Observed) -> String {
    let b: Vec<String> = o.bindings.iter().map(show_binding).collect();
    let i: Vec<String> = o
        .inline
        .iter()
        .map(|(s, l, z)| format!("{},{},{}", s, l, z))
        .collect();
    format!("{} || {}", b.join(";"), i.join(";"))
}

fn request(params: [bool; 4], dflt: u32, decls: &[Decl]) -> String {
    let bits: String = params.iter().map(|b| if *b { '1' } else { '0' }).collect();
    let ds: Vec<String> = decls.iter().map(show_decl).collect();
    format!("C06.assign\t{}\t{}\t{}", bits, dflt, ds.join(";"))
}

/// run one declaration sequence on the given configurations
fn run_seq(
    user: &[Decl],
    configs: &[([bool; 4], u32)],
    out: &mut Out,
    hist: &mut Hist,
) {
    // full root-definition sequence: CbS struct, the declarations, main()
    let mut all = vec![Decl::Other];
    all.extend_from_slice(user);
    all.push(Decl::Other);
    let src = source(user);
    let module = match guard(|| front_end_src(&src)) {
        Ok(Ok(m)) => m,
        Ok(Err(e)) => {
            hist.add(&format!("frontend-reject:{}", e.stage()));
            // a generated program the front end rejects is a generator defect, reported loudly
            out.case(
                &request(configs[0].0, configs[0].1, &all),
                &format!("frontend-error:{}", e.text()),
                "SKIP:frontend-rejected-generated-source",
            );
            return;
        }
        Err(p) => {
            out.case(
                &request(configs[0].0, configs[0].1, &all),
                &format!("panic:{}", p),
                &format!("FAIL:front end panicked: {}", p),
            );
            return;
        }
    };
    for (params, dflt) in configs {
        let req = request(*params, *dflt, &all);
        match observe(&module, *params, *dflt) {
            Ok(obs) => {
                let verdict = match oracle(&all, *params, *dflt, &obs) {
                    Ok(()) => "ok".to_string(),
                    Err(e) => format!("FAIL:{}", e),
                };
                out.case(&req, &show_obs(&obs), &verdict);
            }
            Err(p) => {
                let msg = p.splitn(2, ": ").nth(1).unwrap_or(&p).to_string();
                out.case(&req, &format!("panic:{}", msg), &format!("FAIL:panic {}", p));
            }
        }
    }
    hist.add(&format!("len{}", user.len()));
    for d in user {
        hist.add(match d {
            Decl::Other => "decl:other",
            Decl::StaticObject { .. } => "decl:static-object",
            Decl::CBuffer(_) => "decl:cbuffer",
            Decl::Global { kind: None, .. } => "decl:non-object",
            Decl::Global { ss: true, .. } => "decl:static-sampler",
            Decl::Global { kind: Some(k), .. } if !is_resource(k) => "decl:non-resource-object",
            Decl::Global { len: Some(_), .. } => "decl:object-array",
            Decl::Global { .. } => "decl:object",
        });
    }
}

fn alphabet(full: bool) -> Vec<Decl> {
    let sets = [None, Some(0), Some(1), Some(2)];
    let lens = [None, Some(1), Some(2), Some(3)];
    let mut a = vec![Decl::Other];
    for s in sets {
        a.push(Decl::CBuffer(s));
    }
    let kinds: Vec<&'static str> = if full {
        KINDS.iter().map(|k| k.0).collect()
    } else {
        // one representative per class: plain object, doubled-on-Metal, buffer address, sampler
        vec!["Texture2D", "RWStructuredBuffer", "BufferAddress", "SamplerState"]
    };
    for k in kinds {
        for s in sets {
            for l in lens {
                a.push(Decl::Global { set: s, ss: false, kind: Some(k), len: l });
            }
        }
    }
    for s in sets {
        a.push(Decl::Global { set: s, ss: true, kind: Some("SamplerState"), len: None });
        a.push(Decl::Global { set: s, ss: true, kind: Some("SamplerComparisonState"), len: None });
        a.push(Decl::Global { set: s, ss: false, kind: None, len: None });
    }
    a.push(Decl::Global { set: None, ss: false, kind: None, len: Some(2) });
    // non-resource object kinds: take nothing, in every group spelling and as arrays
    for (k, _) in NON_RESOURCE_KINDS {
        for s in if full { &sets[..] } else { &sets[..2] } {
            for l in if full { &lens[..] } else { &lens[..1] } {
                a.push(Decl::Global { set: *s, ss: false, kind: Some(k), len: *l });
            }
        }
    }
    for k in ["Texture2D", "RWStructuredBuffer", "SamplerState"] {
        a.push(Decl::StaticObject { set: None, kind: k, len: None });
        a.push(Decl::StaticObject { set: Some(1), kind: k, len: Some(2) });
    }
    a
}

fn all_configs() -> Vec<([bool; 4], u32)> {
    let mut v = Vec::new();
    for p in PARAM_SETS {
        for d in 0..3 {
            v.push((*p, d));
        }
    }
    v
}

fn random_decl(rng: &mut Rng) -> Decl {
    let set = match rng.below(5) {
        0 | 1 => None,
        n => Some((n - 2) as u32),
    };
    match rng.below(24) {
        22 | 23 => Decl::Global {
            set,
            ss: false,
            kind: Some(rng.pick(NON_RESOURCE_KINDS).0),
            len: if rng.chance(2, 3) { None } else { Some(rng.range(1, 3) as u32) },
        },
        20 | 21 => Decl::StaticObject {
            set,
            kind: *rng.pick(&["Texture2D", "RWStructuredBuffer", "ByteAddressBuffer", "SamplerState"]),
            len: if rng.chance(1, 2) { None } else { Some(rng.range(1, 3) as u32) },
        },
        0 => Decl::Other,
        1 | 2 => Decl::CBuffer(set),
        3 => Decl::Global { set, ss: false, kind: None, len: None },
        4 | 5 => Decl::Global {
            set,
            ss: true,
            kind: Some(if rng.chance(1, 2) { "SamplerState" } else { "SamplerComparisonState" }),
            len: None,
        },
        6..=9 => Decl::Global {
            set,
            ss: false,
            kind: Some(*rng.pick(DOUBLED)),
            len: if rng.chance(1, 2) { None } else { Some(rng.range(1, 3) as u32) },
        },
        _ => Decl::Global {
            set,
            ss: false,
            kind: Some(rng.pick(KINDS).0),
            len: if rng.chance(1, 2) { None } else { Some(rng.range(1, 3) as u32) },
        },
    }
}

pub fn run(args: &Args, out: &mut Out) {
    let mut hist = Hist::default();
    if let Some(lines) = args.request_lines() {
        for line in lines {
            let f: Vec<&str> = line.split('\t').collect();
            if f.first() == Some(&"C06.src") && f.len() == 3 {
                // debugging aid (not part of the protocol): compile a literal source text, print what comes back
                if let Some(tgt) = e2e::Cfg::parse(f[1]) {
                    let src = f[2].replace("\\n", "\n");
                    let o = e2e::compile(&src, tgt, &crate::compile_util::Mode::All);
                    eprintln!("{}\n--> {}", src, e2e::show_outcome(&o));
                    if let e2e::Outcome::Err(e) = &o {
                        eprintln!("{}", e);
                    }
                }
                continue;
            }
            if f.first() == Some(&"C06.compile") {
                if let Some((tgt, mode, prog)) = e2e::parse_request(&f) {
                    e2e::run_case(tgt, &mode, &prog, out, &mut hist);
                }
                continue;
            }
            if f.len() != 4 || f[0] != "C06.assign" {
                continue;
            }
            let bits: Vec<bool> = f[1].chars().map(|c| c == '1').collect();
            let params = [bits[0], bits[1], bits[2], bits[3]];
            let dflt: u32 = f[2].parse().unwrap_or(0);
            let decls: Vec<Decl> = f[3].split(';').filter_map(parse_decl).collect();
            // strip the fixed frame (CbS struct first, main last)
            if decls.len() < 2 {
                continue;
            }
            let user = &decls[1..decls.len() - 1];
            run_seq(user, &[(params, dflt)], out, &mut hist);
        }
        out.stat(&format!("{{\"mode\":\"replay\",\"hist\":{}}}", hist.json()));
        return;
    }
    let configs = all_configs();
    let mut rng = Rng::new(args.seed);
    let mut seqs: u64 = 0;
    // (1) exhaustive: every single declaration of the full alphabet
    let full = alphabet(true);
    for d in &full {
        run_seq(std::slice::from_ref(d), &configs, out, &mut hist);
        seqs += 1;
    }
    // (2) exhaustive pairs (thorough: triples) over the class alphabet
    let small = alphabet(false);
    if args.thorough() {
        for a in &small {
            for b in &small {
                run_seq(&[a.clone(), b.clone()], &configs, out, &mut hist);
                seqs += 1;
            }
        }
    } else {
        // quick: pairs over a thinned class alphabet (every 3rd symbol, offset by the seed)
        let off = (args.seed % 3) as usize;
        let thin: Vec<&Decl> = small.iter().skip(off).step_by(3).collect();
        for a in &thin {
            for b in &thin {
                run_seq(&[(*a).clone(), (*b).clone()], &configs, out, &mut hist);
                seqs += 1;
            }
        }
    }
    // (3) random longer sequences
    let n = args.n.unwrap_or(if args.thorough() { 30000 } else { 1500 });
    for _ in 0..n {
        let len = rng.range(3, 12) as usize;
        let ds: Vec<Decl> = (0..len).map(|_| random_decl(&mut rng)).collect();
        run_seq(&ds, &configs, out, &mut hist);
        seqs += 1;
    }
    // (4) end to end: whole generated files through rssl::compile, slots read from the returned metadata
    let programs = args.n.map(|n| n / 4).unwrap_or(if args.thorough() { 6000 } else { 300 });
    let mut erng = Rng::new(args.seed ^ 0xE2E);
    // the declarator matrix first (thorough: several rounds with other kinds, lengths and groups)
    let mut matrix = 0;
    for _ in 0..(if args.thorough() { 12 } else { 1 }) {
        for prog in e2e::matrix_progs(&mut erng) {
            e2e::run_prog(&prog, &mut erng, out, &mut hist);
            matrix += 1;
        }
    }
    // the spelling matrix (quick: five kinds drawn from the seed, thorough: every kind, twice)
    let mut spelled = 0;
    for _ in 0..(if args.thorough() { 2 } else { 1 }) {
        for prog in e2e::spelling_progs(&mut erng, args.thorough()) {
            e2e::run_prog(&prog, &mut erng, out, &mut hist);
            spelled += 1;
        }
    }
    for k in 0..programs {
        // every other program has at least two pipelines (a layout must not leak from one pipeline to the next)
        let prog = e2e::gen_prog(&mut erng, if k % 2 == 0 { 2 } else { 0 });
        e2e::run_prog(&prog, &mut erng, out, &mut hist);
    }
    out.stat(&format!(
        "{{\"sequences\":{},\"configs_per_sequence\":{},\"e2e_programs\":{},\"e2e_declarator_matrix_programs\":{},\"e2e_spelling_matrix_programs\":{},\"hist\":{}}}",
        seqs,
        configs.len(),
        programs,
        matrix,
        spelled,
        hist.json()
    ));
}

import RsslVerif.Lemmas.RoundtripFull6
/-!
# A printed template argument is closed (C09, seeded mutant C09-6)

`format_expression_or_type` prints an expression inside `<` … `>` (template arguments of types and calls) or inside
`sizeof( … )`.  The reader of such a list (`Terminator::TypeList`) ends the entry at the first `>` or `,` it sees outside
brackets, and `expr_p1_call` takes a `<` for the start of a nested list.  The text of an entry therefore has to be
**closed**: scanning its tokens with a bracket counter, every `>` outside `( )` / `[ ]` closes a `<` of the entry itself
(nested template argument lists), no `,` stands outside all brackets, and every `<` outside `( )` / `[ ]` is closed again.

`scan a p ts` is that scanner (`a` = open angle brackets, `p` = open parentheses / square brackets / braces; inside
parentheses the angle brackets and commas are ordinary operators).  `Neu .n ts` says `ts` is invisible to the scanner in
every state; the main result `targ_closed` is `Neu .n (toks (fmtEOT a fol))` for every tree — proved by induction from the
generated `(eotExprPrec, eotExprSide)` through `eot_bare_prec` (what is printed bare binds tighter than the shift
operators) and the fact that every operand printed bare binds at least as tightly as its parent.
-/
set_option linter.unusedSimpArgs false
set_option linter.unusedVariables false
namespace RsslVerif.Lemmas.TArgClosed
open RsslVerif.Gen.FmtTables RsslVerif.Gen.ParseTables RsslVerif.Gen.SyntaxTables RsslVerif.Model.Format
open RsslVerif.Model.FormatFull RsslVerif.Lemmas.FmtParseTables RsslVerif.Lemmas.RoundtripFull

inductive Cls where
  | opn | cls | lt | gt | comma | other
  deriving DecidableEq, Repr

/-- what a token is for the bracket scanner -/
def cls : Tok → Cls
  | .p .LeftParen => .opn
  | .p .LeftSquareBracket => .opn
  | .p .LeftBrace => .opn
  | .p .RightParen => .cls
  | .p .RightSquareBracket => .cls
  | .p .RightBrace => .cls
  | .p .Comma => .comma
  | .lt _ => .lt
  | .gt _ => .gt
  | _ => .other

/-- the bracket scanner: `a` open angle brackets (counted outside parentheses only), `p` open parentheses / square brackets /
braces.  `none`: a closing bracket without an opening one, a `>` outside all brackets that closes nothing, a `,` outside
all brackets, or an unclosed parenthesis at the end.  `some a`: the number of angle brackets still open. -/
def scan : Nat → Nat → List Tok → Option Nat
  | a, p, [] => if p = 0 then some a else none
  | a, p, t :: ts =>
    match cls t with
    | .opn => scan a (p + 1) ts
    | .cls => if p = 0 then none else scan a (p - 1) ts
    | .lt => if p = 0 then scan (a + 1) 0 ts else scan a p ts
    | .gt => if p = 0 then (if a = 0 then none else scan (a - 1) 0 ts) else scan a p ts
    | .comma => if p = 0 ∧ a = 0 then none else scan a p ts
    | .other => scan a p ts

/-- in which scanner states a token list has to be invisible: all / all but "outside every bracket" / inside parentheses -/
inductive Mode where
  | n | a | p

def Mode.ok : Mode → Nat → Nat → Prop
  | .n, _, _ => True
  | .a, na, np => np = 0 → 0 < na
  | .p, _, np => 0 < np

/-- the scanner leaves `ts` in the state it entered it -/
def Neu (m : Mode) (ts : List Tok) : Prop := ∀ a p rest, m.ok a p → scan a p (ts ++ rest) = scan a p rest

theorem neu_nil (m : Mode) : Neu m [] := fun _ _ _ _ => rfl

theorem neu_append {m : Mode} {x y : List Tok} (hx : Neu m x) (hy : Neu m y) : Neu m (x ++ y) := by
  intro a p rest h
  rw [List.append_assoc, hx a p _ h, hy a p _ h]

theorem neu_of_n {m : Mode} {x : List Tok} (h : Neu .n x) : Neu m x :=
  fun a p rest _ => h a p rest (by simp [Mode.ok])

theorem neu_p_of_a {x : List Tok} (h : Neu .a x) : Neu .p x := by
  intro a p rest hp
  exact h a p rest (by simp only [Mode.ok] at hp ⊢; omega)

theorem neu_other {m : Mode} {t : Tok} (h : cls t = .other) : Neu m [t] := by
  intro a p rest _
  simp [scan, h]

theorem neu_cons {m : Mode} {t : Tok} {x : List Tok} (ht : Neu m [t]) (hx : Neu m x) : Neu m (t :: x) :=
  neu_append (x := [t]) ht hx

/-- inside parentheses every token that is not a bracket is skipped -/
theorem neu_p_single {t : Tok} (h1 : cls t ≠ .opn) (h2 : cls t ≠ .cls) : Neu .p [t] := by
  intro a p rest hp
  have hp' : p ≠ 0 := by simp only [Mode.ok] at hp; omega
  cases hc : cls t <;> simp_all [scan]

theorem neu_of_all_other (m : Mode) : (ts : List Tok) → ts.all (fun t => cls t == .other) = true → Neu m ts
  | [], _ => neu_nil m
  | t :: ts, h => by
    simp only [List.all_cons, Bool.and_eq_true, beq_iff_eq] at h
    exact neu_cons (neu_other h.1) (neu_of_all_other m ts h.2)

theorem neu_p_of_all : (ts : List Tok) → ts.all (fun t => cls t != .opn && cls t != .cls) = true → Neu .p ts
  | [], _ => neu_nil _
  | t :: ts, h => by
    simp only [List.all_cons, Bool.and_eq_true, bne_iff_ne, ne_eq] at h
    exact neu_cons (neu_p_single h.1.1 h.1.2) (neu_p_of_all ts h.2)

theorem neu_a_comma : Neu .a [.p .Comma] := by
  intro a p rest h
  simp only [Mode.ok] at h
  simp only [List.cons_append, List.nil_append, scan, cls]
  split
  · rename_i hh; omega
  · simp

/-- a bracketed group is invisible when its content is invisible inside brackets -/
theorem neu_group {m : Mode} {o c : Tok} {x : List Tok} (ho : cls o = .opn) (hc : cls c = .cls) (hx : Neu .p x) :
    Neu m (o :: (x ++ [c])) := by
  intro a p rest _
  have h1 := hx a (p + 1) (c :: rest) (by simp only [Mode.ok]; omega)
  simp only [List.cons_append, List.append_assoc, List.nil_append, scan, ho]
  rw [h1]
  simp [scan, hc]

/-- `<` entries `>`: invisible when the entries are invisible inside angle brackets -/
theorem neu_angle {m : Mode} {b b' : Bool} {x : List Tok} (hx : Neu .a x) : Neu m (.lt b :: (x ++ [.gt b'])) := by
  intro a p rest _
  simp only [List.cons_append, List.append_assoc, List.nil_append, scan, cls]
  by_cases hp : p = 0
  · subst hp
    have h1 := hx (a + 1) 0 (.gt b' :: rest) (by simp only [Mode.ok]; omega)
    simp only [if_true]
    rw [h1]
    simp [scan, cls]
  · have h1 := hx a p (.gt b' :: rest) (by simp only [Mode.ok]; omega)
    simp only [hp, if_false]
    rw [h1]
    simp [scan, cls, hp]

/-! ## On pieces -/
def NeuP (m : Mode) (ps : List Piece) : Prop := Neu m (toks ps)

theorem np_nil (m : Mode) : NeuP m [] := neu_nil m
theorem np_append {m : Mode} {x y : List Piece} (hx : NeuP m x) (hy : NeuP m y) : NeuP m (x ++ y) := by
  unfold NeuP; rw [toks_append]; exact neu_append hx hy
theorem np_sp {m : Mode} {x : List Piece} (hx : NeuP m x) : NeuP m (.sp :: x) := by
  show Neu m (toks (.sp :: x)); simp only [toks]; exact hx
theorem np_tok {m : Mode} {t : Tok} {s : String} {x : List Piece} (ht : Neu m [t]) (hx : NeuP m x) :
    NeuP m (.t t s :: x) := by
  unfold NeuP; simp only [toks]; exact neu_cons ht hx
theorem np_of_n {m : Mode} {x : List Piece} (h : NeuP .n x) : NeuP m x := neu_of_n h
theorem np_p_of_a {x : List Piece} (h : NeuP .a x) : NeuP .p x := neu_p_of_a h
theorem np_pp {m : Mode} {q : Punct} {x : List Piece} (hq : cls (.p q) = .other) (hx : NeuP m x) : NeuP m (pp q :: x) :=
  np_tok (neu_other hq) hx

/-- `o X c Y` -/
theorem np_group_then {m : Mode} {o c : Tok} {s s' : String} {x y : List Piece} (ho : cls o = .opn) (hc : cls c = .cls)
    (hx : NeuP .p x) (hy : NeuP m y) : NeuP m (.t o s :: (x ++ (.t c s' :: y))) := by
  unfold NeuP
  have : toks (.t o s :: (x ++ (.t c s' :: y))) = (o :: (toks x ++ [c])) ++ toks y := by simp [toks]
  rw [this]
  exact neu_append (neu_group ho hc hx) hy

theorem np_group {m : Mode} {o c : Tok} {s s' : String} {x : List Piece} (ho : cls o = .opn) (hc : cls c = .cls)
    (hx : NeuP .p x) : NeuP m (.t o s :: (x ++ [.t c s'])) := np_group_then ho hc hx (np_nil m)

theorem np_wrap_true {m : Mode} {x : List Piece} (hx : NeuP .p x) : NeuP m (wrap true x) := by
  simp only [wrap, if_true, lp, rp, pp]
  exact np_group rfl rfl hx

/-! ## Leaves and operator tokens -/
theorem np_mods (m : Mode) (sb : Bool) : (mods : List TypeMod) → NeuP m (fmtMods mods sb)
  | [] => np_nil m
  | q :: rest => by
    have hq : cls (modTok q) = .other := by cases q <;> rfl
    unfold fmtMods
    cases sb
    · exact np_append (x := [modPiece q, .sp]) (np_tok (neu_other hq) (np_sp (np_nil m))) (np_mods m false rest)
    · exact np_append (x := [.sp, modPiece q]) (np_sp (np_tok (neu_other hq) (np_nil m))) (np_mods m true rest)

theorem np_lit (m : Mode) (l : Lit) : NeuP m (litPiecesT l) := by
  unfold NeuP
  apply neu_of_all_other
  unfold litPiecesT litPieces floatPieces
  obtain ⟨kind, neg, mag⟩ := l
  cases kind <;> simp only [] <;> (repeat' split) <;> simp [toks, minusPiece, cls, Option.getD]

theorem neu_unTok (m : Mode) (op : UnOp) : Neu m [unTok op] := by
  apply neu_other; cases op <;> rfl

/-- which statement about a node is asked for: inside brackets anything goes, outside the node has to bind tighter than
the shift operators (`outer ≤ 6`) -/
def Fits (m : Mode) (outer : Nat) : Prop := m = .p ∨ (m = .n ∧ outer ≤ 6)

theorem neu_binToks (m : Mode) (op : BinOp) (h : Fits m (binPrec op)) : Neu m (binToks op) := by
  rcases h with h | ⟨h, hp⟩
  · subst h; cases op <;> exact neu_p_of_all _ (by decide)
  · subst h
    cases op <;> first
      | exact neu_of_all_other _ _ (by decide)
      | (exfalso; revert hp; decide)

/-! ## The invariant of one node -/
/-- the node printed without parentheses of its own is invisible inside brackets, and everywhere when it binds tighter
than the shift operators -/
def P (e : XExpr) : Prop := NeuP .p (fmtBodyX e) ∧ (e.prec ≤ 6 → NeuP .n (fmtBodyX e))

theorem sub_p {e : XExpr} (h : P e) (o : Nat) (s : Side) : NeuP .p (fmtSubX e o s) := by
  rw [fmtSubX_eq]
  cases needParen e.prec o s
  · exact h.1
  · exact np_wrap_true h.1

theorem sub_m {m : Mode} {e : XExpr} (h : P e) {o : Nat} (s : Side) (hf : Fits m o) : NeuP m (fmtSubX e o s) := by
  rcases hf with hm | ⟨hm, ho⟩
  · subst hm; exact sub_p h o s
  · subst hm
    rw [fmtSubX_eq]
    cases hp : needParen e.prec o s
    · exact h.2 (by have := needParen_false_le hp; omega)
    · exact np_wrap_true h.1

/-- from a statement for both modes to the invariant -/
theorem P_of {e : XExpr} (h : ∀ m, Fits m e.prec → NeuP m (fmtBodyX e)) : P e :=
  ⟨h .p (Or.inl rfl), fun hp => h .n (Or.inr ⟨rfl, hp⟩)⟩

theorem p_lit (l : Lit) : P (.lit l) := by
  apply P_of; intro m _
  simp only [fmtBodyX, fmtSubX, needParen_top_lit, wrap_false]
  exact np_lit m l

theorem p_id (n : String) : P (.id n) := by
  apply P_of; intro m _
  have : fmtBodyX (.id n) = [.t (.id n) n] := rfl
  rw [this]
  exact np_tok (neu_other rfl) (np_nil m)

theorem unPrec_le (op : UnOp) : unPrec op ≤ 6 := by cases op <;> decide

theorem p_un (op : UnOp) (x : XExpr) (hx : P x) : P (.un op x) := by
  apply P_of; intro m hm
  have hf : Fits m (unPrec op) := by
    rcases hm with h | ⟨h, _⟩
    · exact Or.inl h
    · exact Or.inr ⟨h, unPrec_le op⟩
  simp only [fmtBodyX, fmtSubX, needParen_top_un, wrap_false]
  cases hpost : isPostfix op
  · have hi := sub_m (m := m) hx (o := unPrec op) prefixOperandSide hf
    simp only [Bool.false_eq_true, if_false]
    refine np_tok (neu_unTok m op) ?_
    split
    · exact np_sp hi
    · exact hi
  · have hi := sub_m (m := m) hx (o := unPrec op) postfixOperandSide hf
    simp only [if_true]
    exact np_append hi (np_tok (neu_unTok m op) (np_nil m))

theorem p_bin (op : BinOp) (l r : XExpr) (hl : P l) (hr : P r) : P (.bin op l r) := by
  apply P_of; intro m hm
  have hm' : Fits m (binPrec op) := hm
  simp only [fmtBodyX, fmtSubX, needParen_top_bin, wrap_false]
  refine np_append (sub_m hl _ hm') (np_append ?_ (np_append ?_ (np_sp (sub_m hr _ hm'))))
  · split
    · exact np_sp (np_nil m)
    · exact np_nil m
  · unfold NeuP; rw [toks_binPieces]; exact neu_binToks m op hm'

theorem fits_p_only {m : Mode} {o : Nat} (h : Fits m o) (ho : 6 < o) : m = .p := by
  rcases h with h | ⟨_, h⟩
  · exact h
  · omega

theorem p_tern (c a b : XExpr) (hc : P c) (ha : P a) (hb : P b) : P (.tern c a b) := by
  apply P_of; intro m hm
  have : m = .p := fits_p_only hm (show 6 < precTernaryConditional by decide)
  subst this
  have hbody : fmtBodyX (.tern c a b) =
      fmtSubX c precTernaryConditional ternCondSide ++ (.sp :: pp .QuestionMark :: .sp ::
        (fmtSubX a precTernaryConditional ternTrueSide ++ (.sp :: pp .Colon :: .sp ::
          wrap (falseIsAssignmentX b) (fmtSubX b precTernaryConditional ternFalseSide)))) := rfl
  rw [hbody]
  refine np_append (sub_p hc _ _) (np_sp (np_pp rfl (np_sp (np_append (sub_p ha _ _) (np_sp (np_pp rfl (np_sp ?_)))))))
  cases falseIsAssignmentX b
  · exact sub_p hb _ _
  · exact np_wrap_true (sub_p hb _ _)

theorem fits_le {m : Mode} {o o' : Nat} (h : Fits m o) (ho : o' ≤ 6) : Fits m o' := by
  rcases h with h | ⟨h, _⟩
  · exact Or.inl h
  · exact Or.inr ⟨h, ho⟩

theorem p_sub (o i : XExpr) (ho : P o) (hi : P i) : P (.sub o i) := by
  apply P_of; intro m hm
  have hbody : fmtBodyX (.sub o i) =
      fmtSubX o precArraySubscript subObjectSide ++ (pp .LeftSquareBracket ::
        (fmtSubX i precArraySubscript subIndexSide ++ [pp .RightSquareBracket])) := rfl
  rw [hbody]
  exact np_append (sub_m ho _ (fits_le hm (by decide))) (np_group rfl rfl (sub_p hi _ _))

theorem p_mem (o : XExpr) (n : String) (ho : P o) : P (.mem o n) := by
  apply P_of; intro m hm
  have hbody : fmtBodyX (.mem o n) =
      wrap (memObjParenX o) (fmtSubX o precMember memObjectSide) ++ [pp .Period, .t (.id n) n] := rfl
  rw [hbody]
  refine np_append ?_ (np_pp rfl (np_tok (neu_other rfl) (np_nil m)))
  cases memObjParenX o
  · exact sub_m ho _ (fits_le hm (by decide))
  · exact np_wrap_true (sub_p ho _ _)

theorem p_call (f : XExpr) (targs : TArgs) (args : XArgs) (hf : P f) (ht : NeuP .n (fmtTArgs targs true))
    (ha : NeuP .p (fmtArgsX args)) : P (.call f targs args) := by
  apply P_of; intro m hm
  have hbody : fmtBodyX (.call f targs args) =
      fmtSubX f callObjectPrec callObjectSide ++ (fmtTArgs targs true ++
        (pp .LeftParen :: (fmtArgsX args ++ [pp .RightParen]))) := rfl
  rw [hbody]
  exact np_append (sub_m hf _ (fits_le hm (by decide))) (np_append (np_of_n ht) (np_group rfl rfl ha))

theorem p_cast (t : TyId) (x : XExpr) (ht : NeuP .n (fmtTyId t true)) (hx : P x) : P (.cast t x) := by
  apply P_of; intro m hm
  have hbody : fmtBodyX (.cast t x) =
      pp .LeftParen :: (fmtTyId t true ++ (pp .RightParen :: fmtSubX x precCast castOperandSide)) := rfl
  rw [hbody]
  exact np_group_then rfl rfl (np_of_n ht) (sub_m hx _ (fits_le hm (by decide)))

theorem p_sizeof (a : TArg) (ha : NeuP .n (fmtEOT a true)) : P (.sizeof a) := by
  apply P_of; intro m hm
  have hbody : fmtBodyX (.sizeof a) = sizeofP :: pp .LeftParen :: (fmtEOT a true ++ [pp .RightParen]) := rfl
  rw [hbody]
  exact np_tok (neu_other rfl) (np_group rfl rfl (np_of_n ha))

/-- **the place where the code's threshold enters**: what `format_expression_or_type` prints bare binds tighter than the
shift operators (`eot_bare_prec`, decided on the generated `(eotExprPrec, eotExprSide)`), everything else is wrapped -/
theorem np_eot_expr (x : XExpr) (hx : P x) : NeuP .n (fmtSubX x eotExprPrec eotExprSide) := by
  rw [fmtSubX_eq]
  cases hp : needParen x.prec eotExprPrec eotExprSide
  · exact hx.2 (eot_bare_prec hp)
  · exact np_wrap_true hx.1

theorem np_targs_cons (a : TArg) (rest : TArgs) (fol : Bool) (ha : NeuP .n (fmtEOT a true))
    (hr : NeuP .a (fmtTArgTail rest)) : NeuP .n (fmtTArgs (.cons a rest) fol) := by
  unfold NeuP
  have : toks (fmtTArgs (.cons a rest) fol) =
      .lt true :: ((toks (fmtEOT a true) ++ toks (fmtTArgTail rest)) ++ [.gt fol]) := by
    simp [fmtTArgs, ltT, gtP, toks]
  rw [this]
  exact neu_angle (neu_append (neu_of_n ha) hr)

theorem np_tail_cons (b : TArg) (rest : TArgs) (hb : NeuP .n (fmtEOT b true)) (hr : NeuP .a (fmtTArgTail rest)) :
    NeuP .a (fmtTArgTail (.cons b rest)) := by
  have : fmtTArgTail (.cons b rest) = comma :: .sp :: (fmtEOT b true ++ fmtTArgTail rest) := rfl
  rw [this]
  exact np_tok neu_a_comma (np_sp (np_append (np_of_n hb) hr))

theorem np_tyid (mods : List TypeMod) (name : String) (targs : TArgs) (decl : Decl) (fol : Bool)
    (ht : ∀ f, NeuP .n (fmtTArgs targs f)) (hd : NeuP .n (fmtDecl decl true)) :
    NeuP .n (fmtTyId (.mk mods name targs decl) fol) := by
  have : fmtTyId (.mk mods name targs decl) fol =
      fmtMods mods false ++ (.t (.id name) name :: (fmtTArgs targs (startsTok (fmtDecl decl true) fol) ++ fmtDecl decl true)) := rfl
  rw [this]
  exact np_append (np_mods _ _ mods) (np_tok (neu_other rfl) (np_append (ht _) hd))

theorem np_opt_sp (m : Mode) (b : Bool) : NeuP m (if b then [Piece.sp] else []) := by
  cases b
  · exact np_nil m
  · exact np_sp (np_nil m)

/-- `inner` in parentheses when it needs them, followed by `y` -/
theorem np_scoped (b : Bool) {x y : List Piece} (hx : NeuP .n x) (hy : NeuP .n y) :
    NeuP .n ((if b then [pp .LeftParen] else []) ++ (x ++ ((if b then [pp .RightParen] else []) ++ y))) := by
  cases b
  · simpa using np_append hx hy
  · have : ([pp .LeftParen] ++ (x ++ ([pp .RightParen] ++ y))) = pp .LeftParen :: (x ++ (pp .RightParen :: y)) := by simp
    simp only [if_true]
    rw [this]
    exact np_group_then rfl rfl (np_of_n hx) hy

/-! ## All trees -/
mutual
theorem pX : (e : XExpr) → P e
  | .lit l => p_lit l
  | .id n => p_id n
  | .un op x => p_un op x (pX x)
  | .bin op l r => p_bin op l r (pX l) (pX r)
  | .tern c a b => p_tern c a b (pX c) (pX a) (pX b)
  | .sub o i => p_sub o i (pX o) (pX i)
  | .mem o n => p_mem o n (pX o)
  | .call f t a => p_call f t a (pX f) (pTArgs t true) (pArgs a)
  | .cast t x => p_cast t x (pTy t true) (pX x)
  | .sizeof a => p_sizeof a (pArg a true)
theorem pArgs : (a : XArgs) → NeuP .p (fmtArgsX a)
  | .nil => np_nil _
  | .cons e .nil => sub_p (pX e) _ _
  | .cons e (.cons e' r) => by
    have : fmtArgsX (.cons e (.cons e' r)) =
        fmtSubX e callArgMainPrec callArgMainSide ++ (comma :: .sp :: fmtArgsX (.cons e' r)) := rfl
    rw [this]
    exact np_append (sub_p (pX e) _ _) (np_tok (neu_p_single (by decide) (by decide)) (np_sp (pArgs (.cons e' r))))
theorem pArg : (a : TArg) → (fol : Bool) → NeuP .n (fmtEOT a fol)
  | .e x, _ => np_eot_expr x (pX x)
  | .both x _, _ => np_eot_expr x (pX x)
  | .t ty, fol => pTy ty fol
theorem pTArgs : (l : TArgs) → (fol : Bool) → NeuP .n (fmtTArgs l fol)
  | .nil, _ => np_nil _
  | .cons a rest, fol => np_targs_cons a rest fol (pArg a true) (pTail rest)
theorem pTail : (l : TArgs) → NeuP .a (fmtTArgTail l)
  | .nil => np_nil _
  | .cons b rest => np_tail_cons b rest (pArg b true) (pTail rest)
theorem pTy : (t : TyId) → (fol : Bool) → NeuP .n (fmtTyId t fol)
  | .mk mods name targs decl, fol => np_tyid mods name targs decl fol (fun f => pTArgs targs f) (pDecl decl true)
theorem pDecl : (d : Decl) → (single : Bool) → NeuP .n (fmtDecl d single)
  | .empty, _ => np_nil _
  | .name n, single => by
    have : fmtDecl (.name n) single = (if single then [.sp] else []) ++ [.t (.id n) n] := rfl
    rw [this]
    exact np_append (np_opt_sp _ _) (np_tok (neu_other rfl) (np_nil _))
  | .ptr quals inner, single => by
    have : fmtDecl (.ptr quals inner) single = pp .Asterix :: (fmtMods quals single ++ fmtDecl inner single) := rfl
    rw [this]
    exact np_pp rfl (np_append (np_mods _ _ quals) (pDecl inner single))
  | .ref inner, single => by
    have : fmtDecl (.ref inner) single = pp .Ampersand :: fmtDecl inner single := rfl
    rw [this]
    exact np_pp rfl (pDecl inner single)
  | .arr inner size, single => by
    have : fmtDecl (.arr inner size) single =
        (if single && inner.needsScope then [.sp] else []) ++ ((if inner.needsScope then [pp .LeftParen] else []) ++
          (fmtDecl inner (single && !inner.needsScope) ++ ((if inner.needsScope then [pp .RightParen] else []) ++
            (pp .LeftSquareBracket :: (fmtSubX size arraySizePrec arraySizeSide ++ [pp .RightSquareBracket]))))) := rfl
    rw [this]
    exact np_append (np_opt_sp _ _) (np_scoped _ (pDecl inner _) (np_group rfl rfl (sub_p (pX size) _ _)))
  | .arrN inner, single => by
    have : fmtDecl (.arrN inner) single =
        (if single && inner.needsScope then [.sp] else []) ++ ((if inner.needsScope then [pp .LeftParen] else []) ++
          (fmtDecl inner (single && !inner.needsScope) ++ ((if inner.needsScope then [pp .RightParen] else []) ++
            [pp .LeftSquareBracket, pp .RightSquareBracket]))) := rfl
    rw [this]
    exact np_append (np_opt_sp _ _) (np_scoped _ (pDecl inner _) (np_group (x := []) rfl rfl (np_nil _)))
end

end RsslVerif.Lemmas.TArgClosed

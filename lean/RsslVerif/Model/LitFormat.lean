import RsslVerif.Spec.Dec2Bin
/-!
# Model of `format_literal` (formatter/src/formatter.rs) on numeric literals

What the code does, arm by arm (the arms, guards and format strings are re-extracted on every run into
`Gen.LitFormatTables` and pinned by `Thm.C10.literal_tables_as_modelled`):

* integers: Rust's `Display` of the `u64` / `i64` payload followed by the suffix (`""`, `u`, `ul`, `l`);
* floats (`f64` for the untyped and the `L` kind, `f32` for the `f` **and** the `h` kind — a half literal is kept
  and printed as a single): infinity by name (`1.#INF` + suffix for HLSL, `INFINITY` for Metal), `FLT_MAX` for the
  largest single on Metal, `-0.0`, whole values in `[-2^63, 2^63]` through `v as i64` with `.0` appended, larger
  whole values as `Display` with `.0` appended, everything else as `Display` followed by the suffix.

`Display` of a float is *not* computed here: the request carries the text Rust printed and the harness checks, with
exact integer arithmetic, that it is a plain decimal whose nearest value is the value printed (the assumption of
`Thm.C10.emit_value_exact`).  Core Lean only (linked into `rsslmodel_c10`).
-/
namespace RsslVerif.Model.LitFormat
open RsslVerif.Spec

abbrev Bytes := List UInt8

inductive Kind where
  | int | u32 | u64 | s64 | float | f16 | f32 | f64
  deriving DecidableEq, Repr

def Kind.ofName : String → Option Kind
  | "Int" => some .int
  | "IntU32" => some .u32
  | "IntU64" => some .u64
  | "IntS64" => some .s64
  | "Float" => some .float
  | "Float16" => some .f16
  | "Float32" => some .f32
  | "Float64" => some .f64
  | _ => none

def str (s : String) : Bytes := s.toUTF8.toList

/-- the suffix `format_literal` appends -/
def Kind.suffix : Kind → Bytes
  | .int => []
  | .u32 => [117]
  | .u64 => [117, 108]
  | .s64 => [108]
  | .float => []
  | .f16 => [104]
  | .f32 => [102]
  | .f64 => [76]

/-- the format a float kind is stored in (`ast::Literal::Float16(f32)`!) -/
def Kind.fmt : Kind → Dec2Bin.Fmt
  | .f16 | .f32 => Dec2Bin.binary32
  | _ => Dec2Bin.binary64

/-- least significant digit first; `fuel > n` suffices -/
def decDigitsRev : Nat → Nat → List Nat
  | 0, _ => []
  | fuel + 1, n => if n < 10 then [n] else (n % 10) :: decDigitsRev fuel (n / 10)

/-- the decimal digits of `n`, most significant first (`[0]` for zero): `Display for u64` -/
def decDigits (n : Nat) : List Nat := (decDigitsRev (n + 1) n).reverse

def digitByte (d : Nat) : UInt8 := UInt8.ofNat (48 + d)

def decText (n : Nat) : Bytes := (decDigits n).map digitByte

/-- sign bit of the storage format (`2^63` / `2^31`) -/
def signBit (f : Dec2Bin.Fmt) : Nat := 2 ^ (f.ebits + f.p - 1)

/-- the value of a finite magnitude is a whole number: `(m, q)` with `q ≥ 0`, or `2^-q ∣ m` -/
def wholeValue? (f : Dec2Bin.Fmt) (mag : Nat) : Option Nat :=
  let mq := Dec2Bin.decode f mag
  if 0 ≤ mq.2 then some (mq.1 * 2 ^ mq.2.toNat)
  else if mq.1 % 2 ^ (-mq.2).toNat = 0 then some (mq.1 / 2 ^ (-mq.2).toNat) else none

/-- the bytes of `.0` -/
def dotZero : Bytes := [46, 48]

/-- the bytes of `1.#INF` -/
def infHlsl : Bytes := [49, 46, 35, 73, 78, 70]

/-- the name of `+∞`: `write_infinity_*` -/
def infText (k : Kind) (msl : Bool) : Except String Bytes :=
  if msl then
    if k = .f64 then .error "panic: invalid msl" else .ok (str "INFINITY")
  else .ok (infHlsl ++ k.suffix)

/-- `format_literal` on a float literal: `bits` is the stored bit pattern (sign included), `disp` Rust's `Display`
of the stored value -/
def fmtFloat (k : Kind) (msl : Bool) (bits : Nat) (disp : Bytes) : Except String Bytes :=
  let f := k.fmt
  let neg := decide (signBit f ≤ bits)
  let mag := bits % signBit f
  if f.infBits < mag then .error "NaN"
  else if mag = f.infBits then
    match infText k msl with
    | .ok t => .ok (if neg then 45 :: t else t)
    | .error e => .error e
  else if k = .f32 ∧ msl = true ∧ neg = false ∧ mag = f.infBits - 1 then .ok (str "FLT_MAX")
  else if mag = 0 ∧ neg = true then .ok (45 :: 48 :: dotZero ++ k.suffix)
  else
    match wholeValue? f mag with
    | some n =>
      if n ≤ 2 ^ 63 then
        -- `*v as i64` saturates: `2^63` prints as `i64::MAX`
        let shown := if neg then n else Nat.min n (2 ^ 63 - 1)
        .ok ((if neg then [45] else []) ++ decText shown ++ dotZero ++ k.suffix)
      else .ok (disp ++ dotZero ++ k.suffix)
    | none => .ok (disp ++ k.suffix)

/-- `format_literal` on an integer literal: `bits` is the 64-bit payload (two's complement for `IntSigned64`) -/
def fmtInt (k : Kind) (bits : Nat) : Bytes :=
  if k = .s64 ∧ 2 ^ 63 ≤ bits then 45 :: decText (2 ^ 64 - bits) ++ k.suffix
  else decText bits ++ k.suffix

def fmtLiteral (k : Kind) (msl : Bool) (bits : Nat) (disp : Bytes) : Except String Bytes :=
  match k with
  | .int | .u32 | .u64 | .s64 => .ok (fmtInt k bits)
  | _ => fmtFloat k msl bits disp

end RsslVerif.Model.LitFormat

import RsslVerif.Spec.OverloadSeq
/-! Lemmas about `runSeq`: the state the type checker has accumulated at a call site is the declared prefix, and the
observation of a site is the resolution on `Spec.visibleAt`. -/
namespace RsslVerif.Lemmas.OverloadSeq
open RsslVerif.Model.Conv RsslVerif.Model.Overload RsslVerif.Spec.Overload

theorem runFrom_append (p : SeqPath) (st : SeqState) (k : Nat) (xs ys : List SeqItem) :
    runFrom p st k (xs ++ ys) = runFrom p st k xs ++ runFrom p (stateAfter p st xs) (k + xs.length) ys := by
  induction xs generalizing st k with
  | nil => simp [runFrom, stateAfter]
  | cons i is ih =>
    simp only [List.cons_append, runFrom, stateAfter, List.length_cons]
    rcases h : seqStep p st i with ⟨st', _ | o⟩
    · simp only [ih]; congr 2; omega
    · simp only [ih, List.cons_append]; congr 3; omega

theorem runFrom_pos (p : SeqPath) (st : SeqState) (k : Nat) (xs : List SeqItem) (n : Nat) (o : SiteObs)
    (h : (n, o) ∈ runFrom p st k xs) : k ≤ n ∧ n < k + xs.length := by
  induction xs generalizing st k with
  | nil => simp [runFrom] at h
  | cons i is ih =>
    simp only [runFrom] at h
    rcases hs : seqStep p st i with ⟨st', _ | o'⟩
    · rw [hs] at h
      have := ih _ _ h
      simp only [List.length_cons]; omega
    · rw [hs] at h
      simp only [List.mem_cons, Prod.mk.injEq] at h
      rcases h with ⟨rfl, _⟩ | h
      · simp only [List.length_cons]; omega
      · have := ih _ _ h
        simp only [List.length_cons]; omega

theorem allDeclared_append (xs ys : List SeqItem) : allDeclared (xs ++ ys) = allDeclared xs ++ allDeclared ys := by
  induction xs with
  | nil => rfl
  | cons i is ih => cases i <;> simp [allDeclared, ih]

/-! ## the gathering loop -/

/-- the loop only ever appends the functions it meets -/
theorem gatherLoop_eq (acc : List TCand) (syms : List Sym) : gatherLoop acc syms = acc ++ syms.filterMap Sym.fn? := by
  induction syms generalizing acc with
  | nil => simp [gatherLoop]
  | cons x xs ih => cases x <;> simp [gatherLoop, ih, List.filterMap_cons, Sym.fn?]

theorem gatherLoop_nil (syms : List Sym) : gatherLoop [] syms = syms.filterMap Sym.fn? := by
  simpa using gatherLoop_eq [] syms

theorem mem_gatherLoop {syms : List Sym} {c : TCand} (h : c ∈ gatherLoop [] syms) : Sym.fn c ∈ syms := by
  rw [gatherLoop_nil, List.mem_filterMap] at h
  obtain ⟨x, hx, hc⟩ := h
  cases x <;> simp [Sym.fn?] at hc
  subst hc; exact hx

/-- the symbols a stretch of the unit pushes onto the vector of one scope, in order -/
def symsOf (scope : Nat) : List SeqItem → List Sym
  | [] => []
  | .decl s c :: is => if s = scope then .fn c :: symsOf scope is else symsOf scope is
  | .other s k :: is => if s = scope then k.syms ++ symsOf scope is else symsOf scope is
  | _ :: is => symsOf scope is

/-- the same for the root vector of an intrinsic's name: every declaration lands there -/
def symsAll : List SeqItem → List Sym
  | [] => []
  | .decl _ c :: is => .fn c :: symsAll is
  | .other _ k :: is => k.syms ++ symsAll is
  | _ :: is => symsAll is

theorem kind_syms_fns (k : OtherKind) : k.syms.filterMap Sym.fn? = [] := by cases k <;> rfl

theorem kind_syms_type (k : OtherKind) : k.syms.any Sym.isType = k.isType := by cases k <;> rfl

theorem symsOf_fns (scope : Nat) (xs : List SeqItem) : (symsOf scope xs).filterMap Sym.fn? = declared scope xs := by
  induction xs with
  | nil => rfl
  | cons i is ih =>
    cases i with
    | decl s c => by_cases h : s = scope <;> simp [symsOf, declared, h, ih, Sym.fn?]
    | other s k => by_cases h : s = scope <;> simp [symsOf, declared, h, ih, kind_syms_fns]
    | define id => simp [symsOf, declared, ih]
    | redecl id nd => simp [symsOf, declared, ih]
    | site m x a => simp [symsOf, declared, ih]
    | helper j m a => simp [symsOf, declared, ih]
    | trigger j z => simp [symsOf, declared, ih]

theorem symsOf_type (scope : Nat) (xs : List SeqItem) : (symsOf scope xs).any Sym.isType = declaresType scope xs := by
  induction xs with
  | nil => rfl
  | cons i is ih =>
    cases i with
    | decl s c => by_cases h : s = scope <;> simp [symsOf, declaresType, h, ih, Sym.isType]
    | other s k => by_cases h : s = scope <;> simp [symsOf, declaresType, h, ih, kind_syms_type]
    | define id => simp [symsOf, declaresType, ih]
    | redecl id nd => simp [symsOf, declaresType, ih]
    | site m x a => simp [symsOf, declaresType, ih]
    | helper j m a => simp [symsOf, declaresType, ih]
    | trigger j z => simp [symsOf, declaresType, ih]

theorem symsAll_fns (xs : List SeqItem) : (symsAll xs).filterMap Sym.fn? = allDeclared xs := by
  induction xs with
  | nil => rfl
  | cons i is ih => cases i <;> simp [symsAll, allDeclared, ih, Sym.fn?, kind_syms_fns]

theorem symsAll_type (xs : List SeqItem) : (symsAll xs).any Sym.isType = declaresTypeAnywhere xs := by
  induction xs with
  | nil => rfl
  | cons i is ih => cases i <;> simp [symsAll, declaresTypeAnywhere, ih, Sym.isType, kind_syms_type]

/-- `find_identifier_in_scope` on a vector = what the specification says the scope knows -/
theorem findInScope_eq (syms : List Sym) :
    findInScope syms = scopeKnows (syms.filterMap Sym.fn?) (syms.any Sym.isType) := by
  simp only [findInScope, scopeKnows, gatherLoop_nil]

theorem lookupChain_one (s : List Sym) : lookupChain [s] = findInScope s := by
  simp only [lookupChain]; cases findInScope s <;> rfl

theorem lookupChain_two (s t : List Sym) :
    lookupChain [s, t] = if findInScope s = .nothing then findInScope t else findInScope s := by
  simp only [lookupChain]; cases findInScope s <;> cases findInScope t <;> simp

theorem map_fn_fns (v : List TCand) : (v.map Sym.fn).filterMap Sym.fn? = v := by
  induction v with
  | nil => rfl
  | cons c cs ih => simp [Sym.fn?, ih]

theorem map_fn_type (v : List TCand) : (v.map Sym.fn).any Sym.isType = false := by
  induction v with
  | nil => rfl
  | cons c cs ih => simp [Sym.isType]

/-- the free-function path: each scope's vector grows by exactly the symbols of that scope, in order -/
theorem stateAfter_free (st : SeqState) (xs : List SeqItem) :
    (stateAfter .free st xs).root = st.root ++ symsOf 0 xs ∧ (stateAfter .free st xs).ns = st.ns ++ symsOf 1 xs := by
  induction xs generalizing st with
  | nil => simp [stateAfter, symsOf]
  | cons i is ih =>
    cases i with
    | decl s c =>
      simp only [stateAfter, seqStep]
      by_cases h0 : s = 0
      · subst h0; simp [ih, symsOf]
      · by_cases h1 : s = 1
        · subst h1; simp [ih, symsOf]
        · simp [h0, h1, ih, symsOf]
    | other s k =>
      simp only [stateAfter, seqStep]
      by_cases h0 : s = 0
      · subst h0; simp [ih, symsOf]
      · by_cases h1 : s = 1
        · subst h1; simp [ih, symsOf]
        · simp [h0, h1, ih, symsOf]
    | define id => simp [stateAfter, seqStep, ih, symsOf]
    | redecl id nd => simp [stateAfter, seqStep, ih, symsOf]
    | site m x a => simp [stateAfter, seqStep, ih, symsOf]
    | helper j m a => simp [stateAfter, seqStep, ih, symsOf]
    | trigger j z =>
      simp only [stateAfter, seqStep, symsOf]
      split
      · simp [ih]
      · split
        · simp [ih]
        · split <;> simp [ih]

/-- the compiler's overloads and the user's share the root vector -/
theorem stateAfter_intrinsic (st : SeqState) (xs : List SeqItem) :
    (stateAfter .intrinsic st xs).root = st.root ++ symsAll xs := by
  induction xs generalizing st with
  | nil => simp [stateAfter, symsAll]
  | cons i is ih =>
    cases i with
    | decl s c => simp [stateAfter, seqStep, ih, symsAll]
    | other s k => simp [stateAfter, seqStep, ih, symsAll]
    | define id => simp [stateAfter, seqStep, ih, symsAll]
    | redecl id nd => simp [stateAfter, seqStep, ih, symsAll]
    | site m x a => simp [stateAfter, seqStep, ih, symsAll]
    | helper j m a => simp [stateAfter, seqStep, ih, symsAll]
    | trigger j z =>
      simp only [stateAfter, seqStep, symsAll]
      split
      · simp [ih]
      · split
        · simp [ih]
        · split <;> simp [ih]

theorem declaredIn_eq_declared (s : Nat) (xs : List SeqItem) : declaredIn s xs = declared s xs := by
  induction xs with
  | nil => rfl
  | cons i is ih => cases i <;> simp [declaredIn, declared, ih]

theorem declared_append (s : Nat) (xs ys : List SeqItem) : declared s (xs ++ ys) = declared s xs ++ declared s ys := by
  induction xs with
  | nil => rfl
  | cons i is ih =>
    cases i with
    | decl s' c => by_cases h : s' = s <;> simp [declared, h, ih]
    | define id => simp [declared, ih]
    | redecl id nd => simp [declared, ih]
    | site m x a => simp [declared, ih]
    | helper j m a => simp [declared, ih]
    | trigger j z => simp [declared, ih]
    | other s' k => simp [declared, ih]

theorem declared_of_not_decl (s : Nat) (it : SeqItem) (h : allDeclared [it] = []) : declared s [it] = [] := by
  cases it <;> simp_all [allDeclared, declared]

/-- the methods were all registered before the first body -/
theorem stateAfter_method (st : SeqState) (xs : List SeqItem) :
    (stateAfter .method st xs).root = st.root ∧ (stateAfter .method st xs).ns = st.ns := by
  induction xs generalizing st with
  | nil => simp [stateAfter]
  | cons i is ih =>
    cases i with
    | decl s c => simp [stateAfter, seqStep, ih]
    | other s k => simp [stateAfter, seqStep, ih]
    | define id => simp [stateAfter, seqStep, ih]
    | redecl id nd => simp [stateAfter, seqStep, ih]
    | site m x a => simp [stateAfter, seqStep, ih]
    | helper j m a => simp [stateAfter, seqStep, ih]
    | trigger j z =>
      simp only [stateAfter, seqStep]
      split
      · simp [ih]
      · split
        · simp [ih]
        · split <;> simp [ih]

set_option linter.unusedSimpArgs false in
/-- **the vector `find_identifier` hands over at a call between `pre` and `post` is the specification's visible set** -/
theorem visible_eq_visibleAt (p : SeqPath) (pre post : List SeqItem) (it : SeqItem) (hit : allDeclared [it] = [])
    (m : Nat) :
    (stateAfter p (SeqState.init p (pre ++ it :: post)) pre).visible p m = visibleAt p pre post m := by
  cases p with
  | free =>
    have h := stateAfter_free (SeqState.init .free (pre ++ it :: post)) pre
    simp only [SeqState.init, List.nil_append] at h
    match m with
    | 0 => simp only [SeqState.visible, visibleAt, SeqState.init, h.1, lookupChain_one, findInScope_eq, symsOf_fns, symsOf_type]
    | 1 => simp only [SeqState.visible, visibleAt, SeqState.init, h.2, lookupChain_one, findInScope_eq, symsOf_fns, symsOf_type]
    | 2 =>
      simp only [SeqState.visible, visibleAt, SeqState.init, h.1, h.2, lookupChain_two, findInScope_eq, symsOf_fns, symsOf_type]
    | _ + 3 => simp only [SeqState.visible, visibleAt, SeqState.init, h.1, lookupChain_one, findInScope_eq, symsOf_fns, symsOf_type]
  | method =>
    have hr := stateAfter_method (SeqState.init .method (pre ++ it :: post)) pre
    have this : ∀ s, declaredIn s (pre ++ it :: post) = declared s (pre ++ post) := by
      intro s
      rw [declaredIn_eq_declared, declared_append, declared_append, show it :: post = [it] ++ post from rfl,
        declared_append, declared_of_not_decl s it hit]; rfl
    simp only [SeqState.init, this] at hr
    match m with
    | 0 => simp only [SeqState.visible, visibleAt, SeqState.init, this, hr.1, hr.2, lookupChain_one, findInScope_eq, map_fn_fns, map_fn_type]
    | 1 => simp only [SeqState.visible, visibleAt, SeqState.init, this, hr.1, hr.2, lookupChain_one, findInScope_eq, map_fn_fns, map_fn_type]
    | 2 => simp only [SeqState.visible, visibleAt, SeqState.init, this, hr.1, hr.2, lookupChain_one, findInScope_eq, map_fn_fns, map_fn_type]
    | 3 => simp only [SeqState.visible, visibleAt, SeqState.init, this, hr.1, hr.2, lookupChain_one, findInScope_eq, map_fn_fns, map_fn_type]
    | _ + 4 => simp only [SeqState.visible, visibleAt, SeqState.init, this, hr.1, hr.2, lookupChain_one, findInScope_eq, map_fn_fns, map_fn_type]
  | intrinsic =>
    have hr := stateAfter_intrinsic (SeqState.init .intrinsic (pre ++ it :: post)) pre
    simp only [SeqState.init, List.nil_append] at hr
    simp only [SeqState.visible, visibleAt, SeqState.init, hr, lookupChain_one, findInScope_eq, symsAll_fns, symsAll_type]

/-- what the site between `pre` and `post` shows -/
theorem site_obs_iff (p : SeqPath) (pre post : List SeqItem) (m : Nat) (x : List TArg) (a : List ETy) (o : SiteObs) :
    (pre.length, o) ∈ runSeq p (pre ++ .site m x a :: post) ↔ o = siteObs (visibleAt p pre post m) x a := by
  unfold runSeq
  rw [runFrom_append]
  simp only [Nat.zero_add, runFrom, seqStep, List.mem_append, List.mem_cons, Prod.mk.injEq, true_and]
  rw [visible_eq_visibleAt p pre post (.site m x a) rfl m]
  constructor
  · rintro (h | h | h)
    · have := runFrom_pos _ _ _ _ _ _ h; omega
    · exact h
    · have := runFrom_pos _ _ _ _ _ _ h; omega
  · intro h; exact Or.inr (Or.inl h)

/-- what a call that may instantiate helper `j` shows: nothing new if the instance has a body, else the resolution of the
    call in the helper's body on what is visible *at this call* -/
theorem trigger_obs (p : SeqPath) (pre post : List SeqItem) (j z : Nat) (o : SiteObs)
    (h : (pre.length, o) ∈ runSeq p (pre ++ .trigger j z :: post)) :
    o = .cached ∨ o = .noname ∨
      ∃ m a, lookupHelper j (stateAfter p (SeqState.init p (pre ++ .trigger j z :: post)) pre).helpers = some (m, a) ∧
        o = siteObs (visibleAt p pre post m) [] a := by
  unfold runSeq at h
  rw [runFrom_append] at h
  simp only [Nat.zero_add, runFrom, List.mem_append] at h
  rcases h with h | h
  · have := runFrom_pos _ _ _ _ _ _ h; omega
  · generalize hst : stateAfter p (SeqState.init p (pre ++ .trigger j z :: post)) pre = st at h ⊢
    have hv : ∀ m, st.visible p m = visibleAt p pre post m := by
      intro m; rw [← hst]; exact visible_eq_visibleAt p pre post (.trigger j z) rfl m
    simp only [seqStep] at h
    cases hl : lookupHelper j st.helpers with
    | none =>
      rw [hl] at h
      simp only [List.mem_cons, Prod.mk.injEq, true_and] at h
      rcases h with h | h
      · exact Or.inr (Or.inl h)
      · have := runFrom_pos _ _ _ _ _ _ h; omega
    | some ma =>
      obtain ⟨m, a⟩ := ma
      rw [hl] at h
      cases hb : st.built.contains (j, z) with
      | true =>
        simp only [hb, if_true, List.mem_cons, Prod.mk.injEq, true_and] at h
        rcases h with h | h
        · exact Or.inl h
        · have := runFrom_pos _ _ _ _ _ _ h; omega
      | false =>
        simp only [hb, Bool.false_eq_true, if_false, List.mem_cons, Prod.mk.injEq, true_and] at h
        rcases h with h | h
        · exact Or.inr (Or.inr ⟨m, a, rfl, by rw [h, hv]⟩)
        · have := runFrom_pos _ _ _ _ _ _ h; omega

/-! ## the instantiation registry is transparent -/

/-- every entry of the registry is the substituted parameter list of the declared template with that id -/
def RegOK (D : List TCand) (r : InstReg) : Prop :=
  ∀ id targs ps, r.find id targs = some ps → ∀ c ∈ D, c.id = id → substParams targs c.params = .ok (some ps)

theorem regOK_nil (D : List TCand) : RegOK D [] := by
  intro id targs ps h; simp [InstReg.find] at h

theorem find_append (r : InstReg) (e : (Nat × List TArg) × List Param) (id : Nat) (targs : List TArg) :
    InstReg.find id targs (r ++ [e]) =
      match InstReg.find id targs r with
      | some ps => some ps
      | none => if e.1.1 = id ∧ e.1.2 = targs then some e.2 else none := by
  induction r with
  | nil => obtain ⟨⟨i, t⟩, ps⟩ := e; simp [InstReg.find]
  | cons x xs ih =>
    obtain ⟨⟨i, t⟩, ps⟩ := x
    simp only [List.cons_append, InstReg.find]
    split
    · rfl
    · exact ih

theorem eq_of_nodup_ids : ∀ (D : List TCand), (D.map (·.id)).Nodup → ∀ a ∈ D, ∀ b ∈ D, a.id = b.id → a = b
  | [], _, a, ha, _, _, _ => by simp at ha
  | d :: ds, hD, a, ha, b, hb, hab => by
    simp only [List.map_cons, List.nodup_cons, List.mem_map, not_exists, not_and] at hD
    simp only [List.mem_cons] at ha hb
    rcases ha with rfl | ha <;> rcases hb with rfl | hb
    · rfl
    · exact absurd hab.symm (hD.1 b hb)
    · exact absurd hab (hD.1 a ha)
    · exact eq_of_nodup_ids ds hD.2 a ha b hb hab

theorem buildSig_fst {D : List TCand} {r : InstReg} {c : TCand} (targs : List TArg) (hr : RegOK D r) (hc : c ∈ D) :
    (buildSig r c targs).1 = substParams targs c.params := by
  unfold buildSig
  cases hf : InstReg.find c.id targs r with
  | some ps => simp only; exact (hr _ _ _ hf c hc rfl).symm
  | none =>
    simp only
    rcases hs : substParams targs c.params with e | (_ | ps) <;> rfl

theorem buildSig_ok {D : List TCand} {r : InstReg} {c : TCand} (targs : List TArg) (hD : (D.map (·.id)).Nodup)
    (hr : RegOK D r) (hc : c ∈ D) : RegOK D (buildSig r c targs).2 := by
  unfold buildSig
  cases hf : InstReg.find c.id targs r with
  | some ps => exact hr
  | none =>
    simp only
    rcases hs : substParams targs c.params with e | (_ | ps)
    · exact hr
    · exact hr
    · simp only
      intro id t ps' hfind c' hc' hid
      rw [find_append] at hfind
      cases hf' : InstReg.find id t r with
      | some q => rw [hf'] at hfind; simp only [Option.some.injEq] at hfind; subst hfind; exact hr _ _ _ hf' c' hc' hid
      | none =>
        rw [hf'] at hfind
        simp only at hfind
        split at hfind
        · rename_i hkey
          simp only [Option.some.injEq] at hfind
          subst hfind
          have : c' = c := eq_of_nodup_ids D hD c' hc' c hc (by rw [hid, hkey.1])
          rw [this, ← hkey.2]; exact hs
        · simp at hfind

theorem instR_eq {D : List TCand} {r : InstReg} {c : TCand} (x : List TArg) (a : List ETy)
    (hD : (D.map (·.id)).Nodup) (hr : RegOK D r) (hc : c ∈ D) :
    (c.instR r x a).1 = c.inst x a ∧ RegOK D (c.instR r x a).2 := by
  unfold TCand.instR TCand.inst
  split
  · exact ⟨rfl, hr⟩
  · cases c.targs x a with
    | none => exact ⟨rfl, hr⟩
    | some targs => exact ⟨buildSig_fst targs hr hc, buildSig_ok targs hD hr hc⟩

theorem viableCastsR_eq {D : List TCand} (hD : (D.map (·.id)).Nodup) (x : List TArg) (a : List ETy) :
    ∀ (cands : List TCand) (r : InstReg), RegOK D r → (∀ c ∈ cands, c ∈ D) →
      (viableCastsR x a r cands).1 = viableCastsG a (cands.map (TCand.toG x)) ∧ RegOK D (viableCastsR x a r cands).2
  | [], r, hr, _ => ⟨rfl, hr⟩
  | c :: cs, r, hr, hsub => by
    have hc : c ∈ D := hsub c (List.mem_cons_self ..)
    have hcs : ∀ c' ∈ cs, c' ∈ D := fun c' h => hsub c' (List.mem_cons_of_mem _ h)
    simp only [viableCastsR, List.map_cons, viableCastsG, TCand.toG]
    split
    · obtain ⟨h1, h2⟩ := instR_eq x a hD hr hc
      rcases hi : c.instR r x a with ⟨res, r'⟩
      rw [hi] at h1 h2
      simp only at h1 h2
      rw [← h1]
      rcases res with e | (_ | ps)
      · exact ⟨rfl, h2⟩
      · exact viableCastsR_eq hD x a cs r' h2 hcs
      · simp only
        rcases hz : zipFind ps a with e | y
        · exact ⟨rfl, h2⟩
        · obtain ⟨ih1, ih2⟩ := viableCastsR_eq hD x a cs r' h2 hcs
          simp only
          rcases hv : viableCastsR x a r' cs with ⟨rest, r''⟩
          rw [hv] at ih1 ih2
          simp only at ih1 ih2
          rw [← ih1]
          rcases rest with e | rest
          · exact ⟨rfl, ih2⟩
          · exact ⟨rfl, ih2⟩
    · exact viableCastsR_eq hD x a cs r hr hcs

theorem callTR_eq {D : List TCand} (hD : (D.map (·.id)).Nodup) (x : List TArg) (a : List ETy) (cands : List TCand)
    (r : InstReg) (hr : RegOK D r) (hsub : ∀ c ∈ cands, c ∈ D) :
    (callTR r cands x a).1 = callT cands x a ∧ RegOK D (callTR r cands x a).2 := by
  obtain ⟨h1, h2⟩ := viableCastsR_eq hD x a cands r hr hsub
  unfold callTR callT resolveTLazy resolveGLazy
  rcases hv : viableCastsR x a r cands with ⟨casts, r'⟩
  rw [hv] at h1 h2
  simp only at h1 h2 ⊢
  exact ⟨by rw [h1], h2⟩

theorem siteObsR_eq {D : List TCand} (hD : (D.map (·.id)).Nodup) (x : List TArg) (a : List ETy)
    (v : Found) (r : InstReg) (hr : RegOK D r) (hsub : ∀ cands, v = .functions cands → ∀ c ∈ cands, c ∈ D) :
    (siteObsR r v x a).1 = siteObs v x a ∧ RegOK D (siteObsR r v x a).2 := by
  cases v with
  | nothing => exact ⟨rfl, hr⟩
  | type => exact ⟨rfl, hr⟩
  | functions cands =>
    obtain ⟨h1, h2⟩ := callTR_eq hD x a cands r hr (hsub cands rfl)
    simp only [siteObsR, siteObs]
    exact ⟨by rw [h1], h2⟩

/-- the symbol vectors hold declared candidates only -/
def VecOK (D : List TCand) (st : SeqState) : Prop := (∀ c, Sym.fn c ∈ st.root → c ∈ D) ∧ (∀ c, Sym.fn c ∈ st.ns → c ∈ D)

theorem findInScope_sub {D : List TCand} {syms : List Sym} (h : ∀ c, Sym.fn c ∈ syms → c ∈ D) (cands : List TCand)
    (hv : findInScope syms = .functions cands) : ∀ c ∈ cands, c ∈ D := by
  unfold findInScope at hv
  simp only at hv
  split at hv
  · simp only [Found.functions.injEq] at hv; subst hv
    exact fun c hc => h c (mem_gatherLoop hc)
  · split at hv <;> simp at hv

theorem visible_sub {D : List TCand} {st : SeqState} (h : VecOK D st) (p : SeqPath) (m : Nat) (cands : List TCand)
    (hv : st.visible p m = .functions cands) : ∀ c ∈ cands, c ∈ D := by
  have h2 : lookupChain [st.ns, st.root] = .functions cands → ∀ c ∈ cands, c ∈ D := by
    intro hh
    rw [lookupChain_two] at hh
    split at hh
    · exact findInScope_sub h.1 cands hh
    · exact findInScope_sub h.2 cands hh
  unfold SeqState.visible at hv
  cases p with
  | free =>
    match m with
    | 0 => exact findInScope_sub h.1 cands (by rw [← lookupChain_one]; exact hv)
    | 1 => exact findInScope_sub h.2 cands (by rw [← lookupChain_one]; exact hv)
    | 2 => exact h2 hv
    | _ + 3 => exact findInScope_sub h.1 cands (by rw [← lookupChain_one]; exact hv)
  | method =>
    match m with
    | 0 => exact findInScope_sub h.1 cands (by rw [← lookupChain_one]; exact hv)
    | 1 => exact findInScope_sub h.1 cands (by rw [← lookupChain_one]; exact hv)
    | 2 => exact findInScope_sub h.2 cands (by rw [← lookupChain_one]; exact hv)
    | 3 => exact findInScope_sub h.2 cands (by rw [← lookupChain_one]; exact hv)
    | _ + 4 => exact findInScope_sub h.1 cands (by rw [← lookupChain_one]; exact hv)
  | intrinsic => exact findInScope_sub h.1 cands (by rw [← lookupChain_one]; exact hv)

theorem seqStepR_eq {D : List TCand} (hD : (D.map (·.id)).Nodup) (p : SeqPath) (st : SeqState) (r : InstReg)
    (i : SeqItem) (hst : VecOK D st) (hr : RegOK D r) (hi : ∀ c ∈ allDeclared [i], c ∈ D) :
    (seqStepR p st r i).1 = (seqStep p st i).1 ∧ (seqStepR p st r i).2.2 = (seqStep p st i).2 ∧
      VecOK D (seqStep p st i).1 ∧ RegOK D (seqStepR p st r i).2.1 := by
  cases i with
  | decl s c =>
    have hc : c ∈ D := hi c (by simp [allDeclared])
    have push : ∀ v : List Sym, (∀ c', Sym.fn c' ∈ v → c' ∈ D) → ∀ c', Sym.fn c' ∈ v ++ [Sym.fn c] → c' ∈ D := by
      intro v hv c' h
      simp only [List.mem_append, List.mem_singleton, Sym.fn.injEq] at h
      rcases h with h | rfl
      · exact hv c' h
      · exact hc
    refine ⟨rfl, rfl, ?_, hr⟩
    simp only [seqStep]
    cases p with
    | method => exact hst
    | intrinsic => exact ⟨push _ hst.1, hst.2⟩
    | free =>
      simp only
      split
      · exact ⟨push _ hst.1, hst.2⟩
      · split
        · exact ⟨hst.1, push _ hst.2⟩
        · exact hst
  | other s k =>
    have push : ∀ v : List Sym, (∀ c', Sym.fn c' ∈ v → c' ∈ D) → ∀ c', Sym.fn c' ∈ v ++ k.syms → c' ∈ D := by
      intro v hv c' h
      simp only [List.mem_append] at h
      rcases h with h | h
      · exact hv c' h
      · cases k <;> simp [OtherKind.syms] at h
    refine ⟨rfl, rfl, ?_, hr⟩
    simp only [seqStep]
    cases p with
    | method => exact hst
    | intrinsic => exact ⟨push _ hst.1, hst.2⟩
    | free =>
      simp only
      split
      · exact ⟨push _ hst.1, hst.2⟩
      · split
        · exact ⟨hst.1, push _ hst.2⟩
        · exact hst
  | define id => exact ⟨rfl, rfl, hst, hr⟩
  | redecl id nd => exact ⟨rfl, rfl, hst, hr⟩
  | helper j m a => exact ⟨rfl, rfl, hst, hr⟩
  | site m x a =>
    obtain ⟨h1, h2⟩ := siteObsR_eq hD x a (st.visible p m) r hr (fun cands hv => visible_sub hst p m cands hv)
    simp only [seqStepR, seqStep]
    exact ⟨by first | rfl | trivial, by rw [h1], hst, h2⟩
  | trigger j z =>
    simp only [seqStepR, seqStep]
    cases lookupHelper j st.helpers with
    | none => exact ⟨by first | rfl | trivial, by first | rfl | trivial, hst, hr⟩
    | some ma =>
      obtain ⟨m, a⟩ := ma
      simp only
      split
      · exact ⟨by first | rfl | trivial, by first | rfl | trivial, hst, hr⟩
      · obtain ⟨h1, h2⟩ := siteObsR_eq hD [] a (st.visible p m) r hr (fun cands hv => visible_sub hst p m cands hv)
        simp only
        refine ⟨by rw [h1], by rw [h1], ?_, h2⟩
        split
        · exact hst
        · exact hst

theorem allDeclared_cons_sub {D : List TCand} {i : SeqItem} {is : List SeqItem}
    (h : ∀ c ∈ allDeclared (i :: is), c ∈ D) : (∀ c ∈ allDeclared [i], c ∈ D) ∧ (∀ c ∈ allDeclared is, c ∈ D) := by
  have : allDeclared (i :: is) = allDeclared [i] ++ allDeclared is := allDeclared_append [i] is
  rw [this] at h
  exact ⟨fun c hc => h c (List.mem_append_left _ hc), fun c hc => h c (List.mem_append_right _ hc)⟩

theorem runFromR_eq {D : List TCand} (hD : (D.map (·.id)).Nodup) (p : SeqPath) :
    ∀ (items : List SeqItem) (st : SeqState) (r : InstReg) (k : Nat), VecOK D st → RegOK D r →
      (∀ c ∈ allDeclared items, c ∈ D) → runFromR p st r k items = runFrom p st k items
  | [], _, _, _, _, _, _ => rfl
  | i :: is, st, r, k, hst, hr, hsub => by
    obtain ⟨hi, his⟩ := allDeclared_cons_sub hsub
    obtain ⟨h1, h2, h3, h4⟩ := seqStepR_eq hD p st r i hst hr hi
    simp only [runFromR, runFrom]
    rcases hR : seqStepR p st r i with ⟨st', r', o⟩
    rcases hP : seqStep p st i with ⟨st'', o'⟩
    rw [hR] at h1 h2 h4
    rw [hP] at h1 h2 h3
    simp only at h1 h2 h3 h4
    subst h1 h2
    cases o with
    | none => simp only; exact runFromR_eq hD p is _ _ _ h3 h4 his
    | some ob => simp only; rw [runFromR_eq hD p is _ _ _ h3 h4 his]

theorem declaredIn_sub (s : Nat) (items : List SeqItem) : ∀ c ∈ declaredIn s items, c ∈ allDeclared items := by
  induction items with
  | nil => simp [declaredIn]
  | cons i is ih =>
    cases i with
    | decl s' c' =>
      intro c hc
      simp only [declaredIn] at hc
      simp only [allDeclared, List.mem_cons]
      split at hc
      · simp only [List.mem_cons] at hc
        rcases hc with rfl | hc
        · exact Or.inl rfl
        · exact Or.inr (ih c hc)
      · exact Or.inr (ih c hc)
    | define id => simpa [declaredIn, allDeclared] using ih
    | redecl id nd => simpa [declaredIn, allDeclared] using ih
    | site m x a => simpa [declaredIn, allDeclared] using ih
    | helper j m a => simpa [declaredIn, allDeclared] using ih
    | trigger j z => simpa [declaredIn, allDeclared] using ih
    | other s k => simpa [declaredIn, allDeclared] using ih

theorem runSeqR_eq (p : SeqPath) (items : List SeqItem) (hD : ((allDeclared items).map (·.id)).Nodup) :
    runSeqR p items = runSeq p items := by
  unfold runSeqR runSeq
  apply runFromR_eq hD p items _ _ _ _ (regOK_nil _) (fun c h => h)
  cases p with
  | method =>
    refine ⟨fun c h => declaredIn_sub 0 items c ?_, fun c h => declaredIn_sub 1 items c ?_⟩
    · simpa [SeqState.init] using h
    · simpa [SeqState.init] using h
  | free => exact ⟨by simp [SeqState.init], by simp [SeqState.init]⟩
  | intrinsic => exact ⟨by simp [SeqState.init], by simp [SeqState.init]⟩

end RsslVerif.Lemmas.OverloadSeq

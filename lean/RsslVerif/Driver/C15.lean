import RsslVerif.Model.Names
import RsslVerif.Model.NamesEmit
import RsslVerif.Lemmas.NamesEmitWitness
import RsslVerif.Gen.Reserved
import RsslVerif.Driver.Util
/-!
Line-protocol front end of the C15 model.

`C15.names <h|m> <program>`: the program descriptor is a space-separated token list

    item := ns NAME item* end | st NAME member* end | en NAME value* end | gl NAME
          | fn NAME PTYPES param* { stmt* }
    stmt := lv NAME | { stmt* } | use REF

from which the harness prints RSSL source.  This front end rebuilds the registries the type checker
produces for that source (namespace ids in order of first opening, structs / enums / globals / functions in
declaration order, enum values right after their enum, local variables = parameters then body locals,
function by function, usage analysis = every global / function named by a `use` in a function body) and runs the
model of `NameMap::build` with the reserved list of the target.
-/
namespace RsslVerif.Driver.C15
open RsslVerif.Model.Names RsslVerif.Driver

structure PState where
  nss : Array (Option Nat × String) := #[]
  structs : Array (Option Nat × String) := #[]
  /-- enums and their values in push order: (scope, name, isValue) -/
  enums : Array (Option Nat × String × Bool) := #[]
  used : Array Sym := #[]
  globals : Array (Option Nat × String) := #[]
  funcs : Array (Option Nat × String) := #[]
  locals : Array String := #[]

def findNs (st : PState) (parent : Option Nat) (name : String) : Option Nat :=
  (List.range st.nss.size).find? fun i => st.nss[i]! == (parent, name)

/-- skip tokens up to and including the matching `end` (struct members carry no names for `build`) -/
def skipToEnd : List String → List String
  | [] => []
  | "end" :: r => r
  | _ :: r => skipToEnd r

/-- the tokens before the matching `end` -/
def takeToEnd : List String → List String
  | [] => []
  | "end" :: _ => []
  | x :: r => x :: takeToEnd r

/-- `use G3` / `use F1` inside a function body: the symbol enters the usage analysis -/
def useSym (r : String) : Option Sym :=
  -- `G3@i`: the suffix names the expression position the use is printed at (subscript index, argument, ternary arm …);
  -- the usage analysis records the symbol wherever the use sits (Thm.C15.used_symbols_include_index_positions)
  match r.toList.takeWhile (· ≠ '@') with
  | 'G' :: ds => (String.ofList ds).toNat?.map (⟨.global, ·⟩)
  | 'F' :: ds => (String.ofList ds).toNat?.map (⟨.func, ·⟩)
  | _ => none

partial def parseStmts (st : PState) : List String → Option (PState × List String)
  | "}" :: r => some (st, r)
  | "lv" :: n :: r => parseStmts { st with locals := st.locals.push n } r
  | "use" :: u :: r =>
    parseStmts (match useSym u with | some y => { st with used := st.used.push y } | none => st) r
  | "lvi" :: n :: u :: r =>
    -- `int n = <use u>;`: a local and a use
    let st := { st with locals := st.locals.push n }
    parseStmts (match useSym u with | some y => { st with used := st.used.push y } | none => st) r
  | "{" :: r =>
    match parseStmts st r with
    | some (st', r') => parseStmts st' r'
    | none => none
  | _ => none

partial def parseItems (st : PState) (cur : Option Nat) (top : Bool) : List String → Option (PState × List String)
  | [] => if top then some (st, []) else none
  | "end" :: r => if top then none else some (st, r)
  | "ns" :: n :: r =>
    let (st1, id) := match findNs st cur n with
      | some i => (st, i)
      | none => ({ st with nss := st.nss.push (cur, n) }, st.nss.size)
    match parseItems st1 (some id) false r with
    | some (st2, r2) => parseItems st2 cur top r2
    | none => none
  | "st" :: n :: r => parseItems { st with structs := st.structs.push (cur, n) } cur top (skipToEnd r)
  | "en" :: n :: r =>
    let vals := (takeToEnd r).map fun v => (cur, v, true)
    parseItems { st with enums := (st.enums.push (cur, n, false)) ++ vals.toArray } cur top (skipToEnd r)
  | "gl" :: n :: r => parseItems { st with globals := st.globals.push (cur, n) } cur top r
  | "fn" :: n :: pt :: r =>
    let np := if pt == "-" then 0 else pt.length
    let params := r.take np
    match r.drop np with
    | "{" :: body =>
      let st1 := { st with funcs := st.funcs.push (cur, n), locals := st.locals ++ params.toArray }
      match parseStmts st1 body with
      | some (st2, r2) => parseItems st2 cur top r2
      | none => none
    | _ => none
  | _ => none

def toInput (st : PState) : Input :=
  let mk (k : Kind) (xs : Array (Option Nat × String)) : List Entry :=
    (List.range xs.size).map fun i => ⟨⟨k, i⟩, xs[i]!.1, xs[i]!.2⟩
  -- enums and values keep their interleaved push order; ids count each kind separately
  let enumEntries : List Entry :=
    (st.enums.toList.foldl (fun (acc : List Entry × Nat × Nat) x =>
      let (es, ne, nv) := acc
      if x.2.2 then (es ++ [⟨⟨.enumValue, nv⟩, x.1, x.2.1⟩], ne, nv + 1)
      else (es ++ [⟨⟨.enum, ne⟩, x.1, x.2.1⟩], ne + 1, nv)) ([], 0, 0)).1
  { nss := st.nss.toList
    entries := mk .struct st.structs ++ enumEntries ++ mk .global st.globals ++ mk .func st.funcs
    used := st.used.toList
    locals := st.locals.toList }

def parseProgram (s : String) : Option Input :=
  let toks := (s.splitOn " ").filter (· ≠ "")
  match parseItems {} none true toks with
  | some (st, []) => some (toInput st)
  | _ => none

def showNames (names : List Named) : String :=
  let one (n : Named) : String :=
    match qualified names n.sym with
    | .ok q => n.sym.kind.letter ++ toString n.sym.id ++ "=" ++ "::".intercalate q
    | .error e => n.sym.kind.letter ++ toString n.sym.id ++ "!" ++ e
  let order : List Kind := [.ns, .struct, .enum, .enumValue, .global, .func, .localVar]
  let sorted := order.flatMap fun k =>
    let ks := names.filter (fun n => n.sym.kind == k)
    (List.range ks.length).filterMap fun i => ks.find? (fun n => n.sym.id == i)
  " ".intercalate (sorted.map one)

def reservedFor (t : String) : Option (List String) :=
  if t == "h" then some RsslVerif.Gen.Reserved.hlsl
  else if t == "m" then some RsslVerif.Gen.Reserved.msl
  else none

/-! ## `C15.res <dx|vk|vkba|msl> <program>`: resources, cbuffers, methods, entry points and a pipeline

    item := ns N item* end | st S member* [| method*] end | en E value* end | gl <s|c|g> NAME | rs KIND OPTS NAME
          | cb NAME OPTS member* end | fn NAME PTYPES param* { stmt* } | ef <c|v|p> NAME param* { stmt* } | pl NAME F<k>[,F<j>] <d<k>|->
-/
namespace Res
open RsslVerif.Model.NamesEmit

structure RState where
  nss : Array (Option Nat × String) := #[]
  defs : Array Def := #[]
  nStructs : Nat := 0
  nEnums : Nat := 0
  /-- (enum ordinal) of every value, numbered through all enums -/
  valueEnum : Array Nat := #[]
  nGlobals : Nat := 0
  nFuncs : Nat := 0
  nCbufs : Nat := 0
  localNames : Array String := #[]
  pipeline : Option (List Nat × Option Nat) := none

def findNs (st : RState) (parent : Option Nat) (name : String) : Option Nat :=
  (List.range st.nss.size).find? fun i => st.nss[i]! == (parent, name)

def natAfter (c : Char) (s : String) : Option Nat :=
  match s.toList with
  | c' :: ds => if c' == c then (String.ofList ds).toNat? else none
  | [] => none

def pairAfter (c : Char) (s : String) : Option (Nat × Nat) :=
  match s.toList with
  | c' :: ds =>
    if c' == c then
      match (String.ofList ds).splitOn "." with
      | [a, b] => match a.toNat?, b.toNat? with
        | some x, some y => some (x, y)
        | _, _ => none
      | _ => none
    else none
  | [] => none

/-- the `i`-th value of enum `e` in the numbering through all enums -/
def valueOrd (st : RState) (e i : Nat) : Option Nat :=
  let idx := (List.range st.valueEnum.size).filter fun v => st.valueEnum[v]! == e
  idx[i]?

def parseRef (st : RState) (r : String) : Ref :=
  if r == "W0" then .wave false else if r == "W1" then .wave true else
  match natAfter 'G' r, natAfter 'F' r, natAfter 'L' r, natAfter 'S' r, natAfter 'E' r with
  | some k, _, _, _, _ => .glob k
  | _, some k, _, _, _ => .func k
  | _, _, some k, _, _ => .loc k
  | _, _, _, some k, _ => .structTy k
  | _, _, _, _, some k => .enumTy k
  | _, _, _, _, _ =>
    match pairAfter 'V' r, pairAfter 'D' r with
    | some (e, i), _ => match valueOrd st e i with
      | some v => .enumVal v
      | none => .nothing
    | _, some (c, i) => .cbMember c i
    | _, _ => .nothing

/-- options: a<n> array, b bindless, g<k> bind group, s<k> element struct -/
partial def parseOpts (cs : List Char) (o : ResOpts) : Option ResOpts :=
  match cs with
  | [] => some o
  | c :: r =>
    let ds := r.takeWhile Char.isDigit
    let rest := r.dropWhile Char.isDigit
    let n := (String.ofList ds).toNat?
    match c, n with
    | 'a', some _ => parseOpts rest { o with array := true }
    | 'b', none => parseOpts rest o
    | 'g', some k => parseOpts rest { o with group := some k }
    | 's', some k => parseOpts rest { o with elem := some k }
    | _, _ => none

def opts? (s : String) : Option ResOpts := if s == "-" then some {} else parseOpts s.toList {}

/-- statements up to the closing `}` of the function; nested blocks stay in the flat token list -/
partial def parseBody (st : RState) (depth : Nat) (acc : Array BTok) : List String → Option (RState × Array BTok × List String)
  | "}" :: r => if depth == 0 then some (st, acc, r) else parseBody st (depth - 1) (acc.push .cl) r
  | "{" :: r => parseBody st (depth + 1) (acc.push .op) r
  | "lv" :: n :: r => parseBody { st with localNames := st.localNames.push n } depth (acc.push (.lv st.localNames.size)) r
  | "use" :: u :: r => parseBody st depth (acc.push (.use (parseRef st u))) r
  | _ => none

def splitAtBar (xs : List String) : List String × List String :=
  (xs.takeWhile (· ≠ "|"), (xs.dropWhile (· ≠ "|")).drop 1)

partial def parseItems (st : RState) (cur : Option Nat) (top : Bool) : List String → Option (RState × List String)
  | [] => if top then some (st, []) else none
  | "end" :: r => if top then none else some (st, r)
  | "ns" :: n :: r =>
    let (st1, id) := match findNs st cur n with
      | some i => (st, i)
      | none => ({ st with nss := st.nss.push (cur, n) }, st.nss.size)
    match parseItems st1 (some id) false r with
    | some (st2, r2) => parseItems st2 cur top r2
    | none => none
  | "st" :: n :: r =>
    let (ms, fs) := splitAtBar (takeToEnd r)
    let methods := (List.range fs.length).map fun i => (st.nFuncs + i, fs.getD i "")
    let d : Def := ⟨cur, .struct st.nStructs n ms methods⟩
    parseItems { st with nStructs := st.nStructs + 1, nFuncs := st.nFuncs + fs.length, defs := st.defs.push d }
      cur top (skipToEnd r)
  | "en" :: n :: r =>
    let vs := takeToEnd r
    let v0 := st.valueEnum.size
    let d : Def := ⟨cur, .enum st.nEnums n ((List.range vs.length).map fun i => (v0 + i, vs.getD i ""))⟩
    parseItems { st with nEnums := st.nEnums + 1, valueEnum := st.valueEnum ++ (vs.map fun _ => st.nEnums).toArray,
                         defs := st.defs.push d } cur top (skipToEnd r)
  | "gl" :: k :: n :: r =>
    let d : Def := ⟨cur, .glob st.nGlobals n (k.toList.headD 's')⟩
    parseItems { st with nGlobals := st.nGlobals + 1, defs := st.defs.push d } cur top r
  | "rs" :: kind :: o :: n :: r =>
    match opts? o with
    | some ro =>
      let d : Def := ⟨cur, .res st.nGlobals n kind ro⟩
      parseItems { st with nGlobals := st.nGlobals + 1, defs := st.defs.push d } cur top r
    | none => none
  | "cb" :: n :: o :: r =>
    match opts? o with
    | some ro =>
      let d : Def := ⟨cur, .cbuf st.nCbufs n ro.group (takeToEnd r)⟩
      parseItems { st with nCbufs := st.nCbufs + 1, defs := st.defs.push d } cur top (skipToEnd r)
    | none => none
  | "fn" :: n :: pt :: r =>
    let np := if pt == "-" then 0 else pt.length
    let params := r.take np
    match r.drop np with
    | "{" :: body =>
      let ord := st.nFuncs
      let l0 := st.localNames.size
      let st1 := { st with nFuncs := st.nFuncs + 1, localNames := st.localNames ++ params.toArray }
      match parseBody st1 0 #[] body with
      | some (st2, toks, r2) =>
        let d : Def := ⟨cur, .func ord n ((List.range np).map (· + l0)) toks.toList none⟩
        parseItems { st2 with defs := st2.defs.push d } cur top r2
      | none => none
    | _ => none
  | "ef" :: k :: n :: r =>
    let np := if k == "v" then 2 else 1
    let params := r.take np
    match r.drop np with
    | "{" :: body =>
      let ord := st.nFuncs
      let l0 := st.localNames.size
      let st1 := { st with nFuncs := st.nFuncs + 1, localNames := st.localNames ++ params.toArray }
      match parseBody st1 0 #[] body with
      | some (st2, toks, r2) =>
        let d : Def := ⟨cur, .func ord n ((List.range np).map (· + l0)) toks.toList (some (k.toList.headD 'c'))⟩
        parseItems { st2 with defs := st2.defs.push d } cur top r2
      | none => none
    | _ => none
  | "pl" :: _ :: fs :: d :: r =>
    match sequenceOpt ((fs.splitOn ",").map (natAfter 'F')) with
    | some es =>
      let dg := if d == "-" then none else natAfter 'd' d
      parseItems { st with pipeline := some (es, dg) } cur top r
    | none => none
  | _ => none

def toProgram (st : RState) : Program :=
  { nss := st.nss.toList, defs := st.defs.toList, localNames := st.localNames.toList, pipeline := st.pipeline }

def parseProgram (s : String) : Option Program :=
  let toks := (s.splitOn " ").filter (· ≠ "")
  match parseItems {} none true toks with
  | some (st, []) => some (toProgram st)
  | _ => none

def target? : String → Option Target
  | "dx" => some .dx
  | "vk" => some .vk
  | "vkba" => some .vkba
  | "msl" => some .msl
  | _ => none

def answer (t : Target) (p : Program) : String :=
  if !supported p then "unsupported: vertex / pixel pipelines are outside the model" else
  let reserved := if t.isMsl then RsslVerif.Gen.Reserved.msl else RsslVerif.Gen.Reserved.hlsl
  match build reserved (namesInput t p) with
  | .error e => e
  | .ok names =>
    " ".intercalate ([showNames names, "|refl"] ++
      (reflection t names p).map (fun r => toString r.1 ++ ":" ++ r.2) ++
      ["|entry"] ++ entryNames t names p ++ ["|out", " ".intercalate ((emit t names p).map render)])

/-- the programs of `Lemmas/NamesEmitWitness.lean` by name (the check compares their answer with the answer for the
corpus request that is the same program written as a descriptor) -/
def witness? : String → Option Program
  | "pMember" => some RsslVerif.Lemmas.NamesEmitWitness.pMember
  | "pCbuffer" => some RsslVerif.Lemmas.NamesEmitWitness.pCbuffer
  | "pCbufferNs" => some RsslVerif.Lemmas.NamesEmitWitness.pCbufferNs
  | "pGenerated" => some RsslVerif.Lemmas.NamesEmitWitness.pGenerated
  | "pLocalType" => some RsslVerif.Lemmas.NamesEmitWitness.pLocalType
  | "pWrapper" => some RsslVerif.Lemmas.NamesEmitWitness.pWrapper
  | "pThreaded" => some RsslVerif.Lemmas.NamesEmitWitness.pThreaded
  | "pInline" => some RsslVerif.Lemmas.NamesEmitWitness.pInline
  | "pRelative" => some RsslVerif.Lemmas.NamesEmitWitness.pRelative
  | "pMethods" => some RsslVerif.Lemmas.NamesEmitWitness.pMethods
  | "pMemberMethod" => some RsslVerif.Lemmas.NamesEmitWitness.pMemberMethod
  | "pGood" => some RsslVerif.Lemmas.NamesEmitWitness.pGood
  | "pWave" => some RsslVerif.Lemmas.NamesEmitWitness.pWave
  | _ => none

end Res

def handle (op : String) (args : List String) : String :=
  match op, args with
  | "C15.names", [t, prog] =>
    match reservedFor t, parseProgram prog with
    | some res, some inp =>
      match build res inp with
      | .ok names => showNames names
      | .error e => e
    | _, _ => "bad-request"
  | "C15.res", [t, prog] =>
    match Res.target? t, Res.parseProgram prog with
    | some tg, some p => Res.answer tg p
    | _, _ => "bad-request"
  | "C15.witness", [name, t, prog] =>
    -- is the named Lean term the program this descriptor denotes?
    match Res.witness? name, Res.target? t, Res.parseProgram prog with
    | some w, some tg, some p => if w == p then Res.answer tg w else "witness-differs-from-descriptor " ++ Res.answer tg w
    | _, _, _ => "bad-request"
  | _, _ => "unsupported-op"

end RsslVerif.Driver.C15

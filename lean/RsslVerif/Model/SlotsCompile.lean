import RsslVerif.Model.Slots
import RsslVerif.Gen.SlotCompile
/-!
# Model of the driver around the slot allocator: `compile()` / `build_pipeline()` (src/compile.rs),
# `Module::select_pipeline`, the guard of `Module::assign_api_bindings` (ir/src/ir_module.rs) and the
# construction of the reflection metadata by both exporters (hlsl/src/ast_generate.rs `analyse_bindings`,
# `register_binding`, `generate_inline_constant_buffers`; msl/src/generator/pipeline.rs `analyse_bindings`,
# `register_binding`, the per-group `sort_by`, `finish`).

The statements mirrored here are fingerprinted by `Gen.SlotCompile.compileShape`.  Panics of the Rust code
are explicit `Err.panic` results.
-/
namespace RsslVerif.Model.SlotsCompile
open RsslVerif.Gen.SlotTables RsslVerif.Gen.SlotCompile RsslVerif.Model.Slots

/-- `ir::PipelineDefinition` as far as binding goes -/
structure Pipeline where
  name : String
  defaultGroup : Nat
  deriving DecidableEq, Repr, Inhabited

/-- What the driver and the allocator read and write of an `ir::Module`.
    `names` are the names the exporters report for the root definitions (same length as `decls`). -/
structure Module where
  names : List String
  decls : List Decl
  pipelines : List Pipeline
  /-- `selected_pipeline` -/
  selected : Option Nat
  /-- `flags.assigned_api_slots` -/
  assigned : Bool
  /-- all `api_slot` / `api_binding` fields and `inline_constant_buffers` (written by `assign_api_bindings`) -/
  slots : Option Result
  deriving Repr

/-- the module `typer::type_check` returns: nothing selected, nothing assigned -/
def Module.fresh (names : List String) (decls : List Decl) (pipelines : List Pipeline) : Module :=
  { names, decls, pipelines, selected := none, assigned := false, slots := none }

inductive Mode where
  | all
  | named (name : String)
  | noPipeline
  deriving DecidableEq, Repr

structure Args where
  target : Target
  supportBufferAddress : Bool
  mode : Mode
  deriving Repr

inductive Err where
  /-- `CompileError::InvalidArgs` -/
  | invalidArgs
  /-- "Shader does not contain a single pipeline" -/
  | noPipeline
  /-- "Shader does not contain the pipeline: {name}" -/
  | unknownPipeline (name : String)
  /-- Metal: `GenerateError::UnsupportedBindGroupIndex(set)` -/
  | bindGroup (set : Nat)
  | panic (msg : String)
  deriving DecidableEq, Repr

/-! ## `Module::select_pipeline` -/

/-- the loop of `select_pipeline`: `i` = index of the head of the remaining list, `sel` = `selected` so far;
    `.error` = `assert_eq!(selected, None)` fails -/
def findSelected (name : String) : List Pipeline → Nat → Option Nat → Except String (Option Nat)
  | [], _, sel => .ok sel
  | p :: ps, i, sel =>
    if p.name = name then
      match sel with
      | some _ => .error "assertion `left == right` failed"
      | none => findSelected name ps (i + 1) (some i)
    else findSelected name ps (i + 1) sel

def Module.selectPipeline (m : Module) (name : String) : Except String (Option Module) :=
  match findSelected name m.pipelines 0 none with
  | .error e => .error e
  | .ok none => .ok none
  | .ok (some i) => .ok (some { m with selected := some i })

/-! ## `Module::assign_api_bindings`: guard, default group, the allocator -/

/-- `default_set`: the selected pipeline's `default_bind_group_index`, 0 when no pipeline is selected;
    `none` = the index expression panics -/
def Module.defaultSet (m : Module) : Option Nat :=
  match m.selected with
  | some i => (m.pipelines[i]?).map (·.defaultGroup)
  | none => some 0

def Module.assignApiBindings (m : Module) (p : Params) : Except String Module :=
  if m.assigned then .error "assertion failed: !self.flags.assigned_api_slots" else
  match m.defaultSet with
  | none => .error "index out of bounds"
  | some d =>
    match assign p d m.decls with
    | .error e => .error e
    | .ok r => .ok { m with assigned := true, slots := some r }

/-! ## Reflection metadata -/

structure MetaBinding where
  name : String
  loc : Loc
  /-- `descriptor_count` (never `None` for a bound declaration: unsized arrays are not bound) -/
  count : Nat
  deriving DecidableEq, Repr, Inhabited

structure MetaGroup where
  bindings : List MetaBinding
  /-- (api_location, size_in_bytes) -/
  inlineBlock : Option (Nat × Nat)
  deriving DecidableEq, Repr, Inhabited

def MetaGroup.empty : MetaGroup := { bindings := [], inlineBlock := none }

def modifyAt (f : MetaGroup → MetaGroup) : Nat → List MetaGroup → List MetaGroup
  | _, [] => []
  | 0, g :: gs => f g :: gs
  | n + 1, g :: gs => g :: modifyAt f n gs

/-- `bind_groups.resize(group_index + 1, empty)` when `group_index >= len` -/
def pad (gs : List MetaGroup) (set : Nat) : List MetaGroup :=
  if set < gs.length then gs else gs ++ List.replicate (set + 1 - gs.length) MetaGroup.empty

/-- `register_binding` of either exporter: grow the group vector up to `set`, append to that group -/
def registerBinding (gs : List MetaGroup) (set : Nat) (b : MetaBinding) : List MetaGroup :=
  modifyAt (fun g => { g with bindings := g.bindings ++ [b] }) set (pad gs set)

/-- Metal: `api_slot.set as usize >= ARGUMENT_BUFFER_NAMES.len()` -/
def overLimit (limit : Option Nat) (set : Nat) : Bool :=
  match limit with
  | some l => decide (l ≤ set)
  | none => false

/-- `descriptor_count`: array length, else 1 (cbuffers: 1) -/
def descriptorCount : Decl → Nat
  | .global _ _ _ (some n) => n
  | _ => 1

/-- the `analyse_bindings` loop over the root definitions; `limit` = the Metal group limit if any -/
def analyse (limit : Option Nat) : List MetaGroup → List String → List Decl → List (Option Binding) →
    Except Err (List MetaGroup)
  | gs, n :: ns, d :: ds, ob :: bs =>
    match ob with
    | none => analyse limit gs ns ds bs
    | some b =>
      if overLimit limit b.set then .error (.bindGroup b.set)
      else analyse limit (registerBinding gs b.set { name := n, loc := b.loc, count := descriptorCount d }) ns ds bs
  | gs, _, _, _ => .ok gs

/-- HLSL `generate_inline_constant_buffers`: the block is attached to `bind_groups[buffer.set]` -/
def attachInline : List MetaGroup → List InlineBuf → Except Err (List MetaGroup)
  | gs, [] => .ok gs
  | gs, b :: bs =>
    match gs[b.set]? with
    | none => .error (.panic "index out of bounds")
    | some g =>
      if g.inlineBlock.isSome then .error (.panic "assertion `left == right` failed")
      else attachInline (modifyAt (fun g => { g with inlineBlock := some (b.apiLocation, b.sizeInBytes) }) b.set gs) bs

/-- the comparator key of the Metal `sort_by`; `none` = `panic!()` -/
def indexOf (b : MetaBinding) : Option Nat :=
  match b.loc with
  | .index i => some i
  | .inline _ => none

/-- stable insertion by index (`sort_by` is a stable sort: the earlier element stays before equal keys) -/
def insertByIndex (b : MetaBinding) (k : Nat) : List (MetaBinding × Nat) → List (MetaBinding × Nat)
  | [] => [(b, k)]
  | (x, j) :: xs => if k ≤ j then (b, k) :: (x, j) :: xs else (x, j) :: insertByIndex b k xs

def sortByIndex : List (MetaBinding × Nat) → List (MetaBinding × Nat)
  | [] => []
  | (b, k) :: xs => insertByIndex b k (sortByIndex xs)

def keyed : List MetaBinding → Option (List (MetaBinding × Nat))
  | [] => some []
  | b :: bs =>
    match indexOf b, keyed bs with
    | some k, some r => some ((b, k) :: r)
    | _, _ => none

/-- Metal: every argument buffer is sorted by index; an inline-constant location panics
    (in the comparator or in the member loop that follows) -/
def sortGroups : List MetaGroup → Except Err (List MetaGroup)
  | [] => .ok []
  | g :: gs =>
    match keyed g.bindings with
    | none => .error (.panic "explicit panic")
    | some ks =>
      match sortGroups gs with
      | .error e => .error e
      | .ok r => .ok ({ bindings := (sortByIndex ks).map (·.1), inlineBlock := none } :: r)

def isMetal : Target → Bool
  | .Msl | .MetalBytecode => true
  | _ => false

/-- the `PipelineDescription` an exporter builds from a bound module -/
def describe (t : Target) (names : List String) (decls : List Decl) (r : Result) : Except Err (List MetaGroup) :=
  if isMetal t then
    match analyse (some argumentBufferCount) [] names decls r.bindings with
    | .error e => .error e
    | .ok gs =>
      -- `assert!(module.inline_constant_buffers.is_empty())` in the Metal `generate_module`
      if r.inlineBufs.isEmpty then sortGroups gs else .error (.panic "assertion failed: module.inline_constant_buffers.is_empty()")
  else
    match analyse none [] names decls r.bindings with
    | .error e => .error e
    | .ok gs => attachInline gs r.inlineBufs

/-! ## `build_pipeline` and `compile` -/

structure Built where
  /-- the bound module's slots -/
  slots : Result
  /-- `CompiledPipeline.metadata` -/
  groups : List MetaGroup
  deriving DecidableEq, Repr

/-- `build_pipeline(args, &ir, .., binding_params, pipeline, ..)`: works on a clone of the (unbound) `ir` -/
def buildPipeline (t : Target) (ir : Module) (params : Params) (pipeline : Option Pipeline) : Except Err Built :=
  let selected : Except Err Module :=
    match pipeline with
    | some pl =>
      match ir.selectPipeline pl.name with
      | .error e => .error (.panic e)
      | .ok none => .error (.panic "called `Option::unwrap()` on a `None` value")
      | .ok (some m) => .ok m
    | none => .ok ir
  match selected with
  | .error e => .error e
  | .ok m =>
    match m.assignApiBindings params with
    | .error e => .error (.panic e)
    | .ok bound =>
      match bound.slots with
      | none => .error (.panic "unreachable: assign_api_bindings writes the slots")
      | some r =>
        match describe t bound.names bound.decls r with
        | .error e => .error e
        | .ok gs => .ok { slots := r, groups := gs }

/-- `if let Some(name) = args.pipeline_name && pipeline.name.node != name { continue; }` -/
def skipped (filter : Option String) (p : Pipeline) : Bool :=
  match filter with
  | some n => decide (p.name ≠ n)
  | none => false

/-- the `for pipeline in &ir.pipelines` loop of `compile()`; `ir` is the same unbound module in every iteration -/
def buildLoop (t : Target) (ir : Module) (params : Params) (filter : Option String) : List Pipeline → Except Err (List Built)
  | [] => .ok []
  | p :: ps =>
    if skipped filter p then buildLoop t ir params filter ps
    else
      match buildPipeline t ir params (some p) with
      | .error e => .error e
      | .ok b =>
        match buildLoop t ir params filter ps with
        | .error e => .error e
        | .ok bs => .ok (b :: bs)

def compile (a : Args) (ir : Module) : Except Err (List Built) :=
  if a.supportBufferAddress && a.target != .HlslForVulkan then .error .invalidArgs else
  let params := paramsFor a.target a.supportBufferAddress
  match a.mode with
  | .noPipeline =>
    match buildPipeline a.target ir params none with
    | .error e => .error e
    | .ok b => .ok [b]
  | .all =>
    match buildLoop a.target ir params none ir.pipelines with
    | .error e => .error e
    | .ok bs => if bs.isEmpty then .error .noPipeline else .ok bs
  | .named n =>
    match buildLoop a.target ir params (some n) ir.pipelines with
    | .error e => .error e
    | .ok bs =>
      if bs.length > 1 then .error (.panic ("Multiple pipelines with the given name: " ++ n))
      else if bs.isEmpty then .error (.unknownPipeline n) else .ok bs

end RsslVerif.Model.SlotsCompile

import RsslVerif.Model.Parse
import RsslVerif.Model.ParseFull
import RsslVerif.Model.ParseStmt
import RsslVerif.Model.ParseDef
import RsslVerif.Driver.Util
/-! Line-protocol front end of the C09 model: `C09.rt <ctx> <tree>` ↦ `<printed text> ==> <re-read tree | ERR:parse>`. -/
namespace RsslVerif.Driver.C09
open RsslVerif.Gen.FmtTables RsslVerif.Gen.ParseTables RsslVerif.Gen.SyntaxTables RsslVerif.Model.Format RsslVerif.Model.Parse
open RsslVerif.Model.FormatFull RsslVerif.Model.ParseFull RsslVerif.Model.FormatStmt RsslVerif.Model.ParseStmt RsslVerif.Model.FormatDef RsslVerif.Model.ParseDef

inductive SExp where
  | atom (s : String)
  | list (l : List SExp)
  deriving Inhabited

/-- tokens of the request syntax: `(`, `)`, atoms -/
def sexpTokens (s : String) : List String :=
  let rec go (cs : List Char) (cur : List Char) (acc : List String) : List String :=
    let flush := if cur.isEmpty then acc else String.ofList cur.reverse :: acc
    match cs with
    | [] => flush.reverse
    | c :: r =>
      if c == '(' then go r [] ("(" :: flush)
      else if c == ')' then go r [] (")" :: flush)
      else if c == ' ' then go r [] flush
      else go r (c :: cur) acc
  go s.toList [] []

/-- stack-based reader; `none` on unbalanced input -/
def readSExp (toks : List String) : Option SExp :=
  let rec go (ts : List String) (stack : List (List SExp)) : Option SExp :=
    match ts with
    | [] => match stack with
      | [[x]] => some x
      | _ => none
    | t :: r =>
      if t == "(" then go r ([] :: stack)
      else if t == ")" then
        match stack with
        | top :: parent :: rest => go r ((SExp.list top.reverse :: parent) :: rest)
        | _ => none
      else
        match stack with
        | top :: rest => go r ((SExp.atom t :: top) :: rest)
        | [] => none
  go toks [[]]

def scopedName : List SExp → Option String
  | .atom "::" :: rest =>
    (sequenceOpt (rest.map fun | .atom a => some a | _ => none)).bind fun parts =>
      if parts.isEmpty then none else some ("::" ++ "::".intercalate parts)
  | parts =>
    (sequenceOpt (parts.map fun | .atom a => some a | _ => none)).bind fun parts =>
      if parts.isEmpty then none else some ("::".intercalate parts)

def hexNat? (s : String) : Option Nat :=
  if s.startsWith "0x" then
    (s.drop 2).toString.toList.foldl (fun acc c => match acc, hexDigit? c with
      | some a, some d => some (a * 16 + d)
      | _, _ => none) (some 0)
  else none

def hexFixed (width n : Nat) : String :=
  String.ofList ((List.range width).reverse.map fun i => hexNibble ((n / 16 ^ i) % 16))

/-- `(lit k v)` of the request syntax -/
def toLit (k v : String) : Option Lit :=
  let int (kind : LitKind) : Option Lit := (if v.isEmpty then none else v.toNat?).map fun n => ⟨kind, false, n⟩
  let flt (kind : LitKind) (width : Nat) : Option Lit :=
    (hexNat? v).map fun b => ⟨kind, b / 2 ^ (width - 1) % 2 == 1, b % 2 ^ (width - 1)⟩
  match k with
  | "b" => int .Bool
  | "i" => int .IntUntyped
  | "u" => int .IntUnsigned32
  | "ul" => int .IntUnsigned64
  | "l" =>
    if v.startsWith "-" then ((v.drop 1).toString.toNat?).map fun n => ⟨.IntSigned64, true, n⟩ else int .IntSigned64
  | "f" => flt .FloatUntyped 64
  | "h" => flt .Float16 32
  | "f32" => flt .Float32 32
  | "f64" => flt .Float64 64
  | "s" => some ⟨.String, false, 0⟩
  | _ => none

def showLit (l : Lit) : String :=
  let flt (k : String) (width : Nat) := k ++ " 0x" ++ hexFixed (width / 4) (l.mag + (if l.neg then 2 ^ (width - 1) else 0))
  match l.kind with
  | .Bool => "b " ++ toString l.mag
  | .IntUntyped => "i " ++ toString l.mag
  | .IntUnsigned32 => "u " ++ toString l.mag
  | .IntUnsigned64 => "ul " ++ toString l.mag
  | .IntSigned64 => "l " ++ (if l.neg then "-" else "") ++ toString l.mag
  | .FloatUntyped => flt "f" 64
  | .Float16 => flt "h" 32
  | .Float32 => flt "f32" 32
  | .Float64 => flt "f64" 64
  | .String => "s ?"

mutual
/-- `none` = malformed; `some none` = a node kind outside the model -/
partial def toExpr : SExp → Option (Option Expr)
  | .list (.atom "lit" :: [.atom k, .atom v]) => (toLit k v).map fun l => some (.lit l)
  | .list (.atom "id" :: parts) => (scopedName parts).map fun n => some (.id n)
  | .list [.atom "un", .atom op, x] =>
    match UnOp.ofName? op, toExpr x with
    | some op, some (some x) => some (some (.un op x))
    | some _, some none => some none
    | _, _ => none
  | .list [.atom "bin", .atom op, l, r] =>
    match BinOp.ofName? op, toExpr l, toExpr r with
    | some op, some (some l), some (some r) => some (some (.bin op l r))
    | some _, some _, some _ => some none
    | _, _, _ => none
  | .list [.atom "tern", c, a, b] =>
    match toExpr c, toExpr a, toExpr b with
    | some (some c), some (some a), some (some b) => some (some (.tern c a b))
    | some _, some _, some _ => some none
    | _, _, _ => none
  | .list [.atom "sub", o, i] =>
    match toExpr o, toExpr i with
    | some (some o), some (some i) => some (some (.sub o i))
    | some _, some _ => some none
    | _, _ => none
  | .list (.atom "mem" :: o :: parts) =>
    match toExpr o, scopedName parts with
    | some (some o), some n => some (some (.mem o n))
    | some none, some _ => some none
    | _, _ => none
  | .list [.atom "call", f, .list targs, .list args] =>
    match toExpr f, toArgs args with
    | some (some f), some (some a) => if targs.isEmpty then some (some (.call f a)) else some none
    | some _, some _ => some none
    | _, _ => none
  | .list (.atom "cast" :: _) => some none
  | .list (.atom "sizeof" :: _) => some none
  | .list (.atom "binit" :: _) => some none
  | _ => none
partial def toArgs : List SExp → Option (Option Args)
  | [] => some (some .nil)
  | x :: r =>
    match toExpr x, toArgs r with
    | some (some e), some (some a) => some (some (.cons e a))
    | some _, some _ => some none
    | _, _ => none
end

def showName (n : String) : String := " ".intercalate ((if n.startsWith "::" then ["::"] else []) ++
  ((if n.startsWith "::" then (n.drop 2).toString else n).splitOn "::"))

mutual
def showExpr : Expr → String
  | .lit l => "(lit " ++ showLit l ++ ")"
  | .id n => "(id " ++ showName n ++ ")"
  | .un op x => "(un " ++ op.name ++ " " ++ showExpr x ++ ")"
  | .bin op l r => "(bin " ++ op.name ++ " " ++ showExpr l ++ " " ++ showExpr r ++ ")"
  | .tern c a b => "(tern " ++ showExpr c ++ " " ++ showExpr a ++ " " ++ showExpr b ++ ")"
  | .sub o i => "(sub " ++ showExpr o ++ " " ++ showExpr i ++ ")"
  | .mem o n => "(mem " ++ showExpr o ++ " " ++ showName n ++ ")"
  | .call f args => "(call " ++ showExpr f ++ " () (" ++ " ".intercalate (showArgs args) ++ "))"
def showArgs : Args → List String
  | .nil => []
  | .cons e r => showExpr e :: showArgs r
end

/-- could `expr_p1_call`'s template-argument attempt fire somewhere? (`<` … `>` directly followed by `(`) -/
def templateShape : List Tok → Bool
  | [] => false
  | .lt _ :: rest =>
    let rec closes : List Tok → Bool
      | .gt _ :: .p .LeftParen :: _ => true
      | _ :: r => closes r
      | [] => false
    closes rest || templateShape rest
  | _ :: rest => templateShape rest

/-- adjacent pieces the lexer reads differently from the printed tokens: an untyped integer literal directly
followed by `.` starts a float literal (`3.m` is rejected by the lexer) -/
def gluedIntPeriod : List Piece → Bool
  | .t (.lit l) _ :: .t (.p .Period) _ :: .t (.id m) s :: rest =>
    -- `literal_float` gives the characters back when the "suffix" starts with `x` (a swizzle on an integer)
    (l.kind == .IntUntyped && !m.startsWith "x") || gluedIntPeriod (.t (.id m) s :: rest)
  | _ :: rest => gluedIntPeriod rest
  | [] => false

/-! ## Full model: casts, sizeof, template arguments, types -/

partial def SExp.show : SExp → String
  | .atom a => a
  | .list l => "(" ++ " ".intercalate (l.map SExp.show) ++ ")"

def nameAtoms (n : String) : List SExp :=
  ((if n.startsWith "::" then ["::"] else []) ++
    ((if n.startsWith "::" then (n.drop 2).toString else n).splitOn "::")).map SExp.atom

/-- request spelling of a modifier wrapper -/
def modOfWrapper (s : String) : Option TypeMod := TypeMod.all.find? (fun m => modSpell m == s)

def Decl.insertBase (mk : Decl → Decl) : Decl → Decl
  | .empty => mk .empty
  | .name n => mk (.name n)
  | .ptr q i => .ptr q (Decl.insertBase mk i)
  | .ref i => .ref (Decl.insertBase mk i)
  | .arr i s => .arr (Decl.insertBase mk i) s
  | .arrN i => .arrN (Decl.insertBase mk i)

mutual
/-- `none` = malformed; `some none` = a node kind outside the model -/
partial def toX : SExp → Option (Option XExpr)
  | .list (.atom "lit" :: [.atom k, .atom v]) => (toLit k v).map fun l => some (.lit l)
  | .list (.atom "id" :: parts) => (scopedName parts).map fun n => some (.id n)
  | .list [.atom "un", .atom op, x] =>
    match UnOp.ofName? op, toX x with
    | some op, some (some x) => some (some (.un op x))
    | some _, some none => some none
    | _, _ => none
  | .list [.atom "bin", .atom op, l, r] =>
    match BinOp.ofName? op, toX l, toX r with
    | some op, some (some l), some (some r) => some (some (.bin op l r))
    | some _, some _, some _ => some none
    | _, _, _ => none
  | .list [.atom "tern", c, a, b] =>
    match toX c, toX a, toX b with
    | some (some c), some (some a), some (some b) => some (some (.tern c a b))
    | some _, some _, some _ => some none
    | _, _, _ => none
  | .list [.atom "sub", o, i] =>
    match toX o, toX i with
    | some (some o), some (some i) => some (some (.sub o i))
    | some _, some _ => some none
    | _, _ => none
  | .list (.atom "mem" :: o :: parts) =>
    match toX o, scopedName parts with
    | some (some o), some n => some (some (.mem o n))
    | some none, some _ => some none
    | _, _ => none
  | .list [.atom "call", f, .list targs, .list args] =>
    match toX f, toTArgs targs, toXArgs args with
    | some (some f), some (some t), some (some a) => some (some (.call f t a))
    | some _, some _, some _ => some none
    | _, _, _ => none
  | .list [.atom "cast", t, x] =>
    match toTy t, toX x with
    | some (some t), some (some x) => some (some (.cast t x))
    | some _, some _ => some none
    | _, _ => none
  | .list [.atom "sizeof", a] =>
    match toEOT a with
    | some (some a) => some (some (.sizeof a))
    | some none => some none
    | none => none
  | .list (.atom "binit" :: _) => some none
  | _ => none
partial def toXArgs : List SExp → Option (Option XArgs)
  | [] => some (some .nil)
  | x :: r =>
    match toX x, toXArgs r with
    | some (some e), some (some a) => some (some (.cons e a))
    | some _, some _ => some none
    | _, _ => none
partial def toEOT : SExp → Option (Option TArg)
  | .list [.atom "E", x] => (toX x).map fun o => o.map TArg.e
  | .list [.atom "T", t] => (toTy t).map fun o => o.map TArg.t
  | .list [.atom "B", x, t] =>
    match toX x, toTy t with
    | some (some x), some (some t) => some (some (.both x t))
    | some _, some _ => some none
    | _, _ => none
  | _ => none
partial def toTArgs : List SExp → Option (Option TArgs)
  | [] => some (some .nil)
  | x :: r =>
    match toEOT x, toTArgs r with
    | some (some e), some (some a) => some (some (.cons e a))
    | some _, some _ => some none
    | _, _ => none
/-- `(ty n..)`, `(tyt (n name..) eot..)`, wrapped by `(<modifier> T)`, `(ptr T)`, `(ref T)`, `(arr T [e])` -/
partial def toTy : SExp → Option (Option TyId)
  | .list (.atom "ty" :: parts) => (scopedName parts).map fun n => some (.mk [] n .nil .empty)
  | .list (.atom "tyt" :: .list (.atom "n" :: parts) :: targs) =>
    match scopedName parts, toTArgs targs with
    | some n, some (some a) => some (some (.mk [] n a .empty))
    | some _, some none => some none
    | _, _ => none
  | .list [.atom "ptr", t] =>
    (toTy t).map fun o => o.map fun | .mk m n a d => .mk m n a (Decl.insertBase (fun b => .ptr [] b) d)
  | .list [.atom "ref", t] =>
    (toTy t).map fun o => o.map fun | .mk m n a d => .mk m n a (Decl.insertBase (fun b => .ref b) d)
  | .list [.atom "arr", t] =>
    (toTy t).map fun o => o.map fun | .mk m n a d => .mk m n a (Decl.insertBase (fun b => .arrN b) d)
  | .list [.atom "arr", t, e] =>
    match toTy t, toX e with
    | some (some (.mk m n a d)), some (some e) => some (some (.mk m n a (Decl.insertBase (fun b => .arr b e) d)))
    | some _, some _ => some none
    | _, _ => none
  | .list [.atom w, t] =>
    match modOfWrapper w with
    | some md => (toTy t).map fun o => o.map fun | .mk m n a d => .mk (md :: m) n a d
    | none => if w == "ptr+" || w == "ref+" || w == "arr+" then some none else none
  | .list (.atom "arr+" :: _) => some none
  | .list (.atom "named" :: _) => some none
  | _ => none
end

/-- the chain of declarators from the outside in, as `ser_declarator_outer` walks it -/
def Decl.wrapOuter (base : SExp) (sx : XExpr → SExp) : Decl → SExp
  | .empty => base
  | .name n => .list (.atom "named" :: (nameAtoms n ++ [base]))
  | .ptr q i => Decl.wrapOuter (.list [.atom (if q.isEmpty then "ptr" else "ptr+"), base]) sx i
  | .ref i => Decl.wrapOuter (.list [.atom "ref", base]) sx i
  | .arr i s => Decl.wrapOuter (.list [.atom "arr", base, sx s]) sx i
  | .arrN i => Decl.wrapOuter (.list [.atom "arr", base]) sx i

mutual
partial def sexpX : XExpr → SExp
  | .lit l => .list (.atom "lit" :: ((showLit l).splitOn " ").map SExp.atom)
  | .id n => .list (.atom "id" :: nameAtoms n)
  | .un op x => .list [.atom "un", .atom op.name, sexpX x]
  | .bin op l r => .list [.atom "bin", .atom op.name, sexpX l, sexpX r]
  | .tern c a b => .list [.atom "tern", sexpX c, sexpX a, sexpX b]
  | .sub o i => .list [.atom "sub", sexpX o, sexpX i]
  | .mem o n => .list (.atom "mem" :: sexpX o :: nameAtoms n)
  | .call f t a => .list [.atom "call", sexpX f, .list (sexpTArgs t), .list (sexpXArgs a)]
  | .cast t x => .list [.atom "cast", sexpTy t, sexpX x]
  | .sizeof a => .list [.atom "sizeof", sexpEOT a]
partial def sexpXArgs : XArgs → List SExp
  | .nil => []
  | .cons e r => sexpX e :: sexpXArgs r
/-- canonical as the harness's `ser_eot`: a lone name is `B` whichever way it is tagged -/
partial def sexpEOT : TArg → SExp
  | .e (.id n) => .list [.atom "B", sexpX (.id n), .list (.atom "ty" :: nameAtoms n)]
  | .e x => .list [.atom "E", sexpX x]
  | .t (.mk [] n .nil .empty) => .list [.atom "B", sexpX (.id n), .list (.atom "ty" :: nameAtoms n)]
  | .t t => .list [.atom "T", sexpTy t]
  | .both x t => .list [.atom "B", sexpX x, sexpTy t]
partial def sexpTArgs : TArgs → List SExp
  | .nil => []
  | .cons e r => sexpEOT e :: sexpTArgs r
partial def sexpTy : TyId → SExp
  | .mk mods n targs d =>
    let base : SExp := match targs with
      | .nil => .list (.atom "ty" :: nameAtoms n)
      | _ => .list (.atom "tyt" :: .list (.atom "n" :: nameAtoms n) :: sexpTArgs targs)
    let withMods := mods.foldr (fun m acc => SExp.list [.atom (modSpell m), acc]) base
    Decl.wrapOuter withMods sexpX d
end

/-- the harness's `align`: against an original that says `E` / `T`, only that half of a re-read `B` is compared -/
partial def alignS : SExp → SExp → SExp
  | .list o, .list n =>
    match o, n with
    | [.atom "E", o1], [.atom "B", n1, _] => .list [.atom "E", alignS o1 n1]
    | [.atom "T", o1], [.atom "B", _, n2] => .list [.atom "T", alignS o1 n2]
    | _, _ => if o.length == n.length then .list ((o.zip n).map fun (a, b) => alignS a b) else .list n
  | _, n => n

-- names the tree uses in type position (the harness's `type_names_expr`)
mutual
partial def typeNamesX : XExpr → List String
  | .lit _ => []
  | .id _ => []
  | .un _ x => typeNamesX x
  | .bin _ l r => typeNamesX l ++ typeNamesX r
  | .tern c a b => typeNamesX c ++ typeNamesX a ++ typeNamesX b
  | .sub o i => typeNamesX o ++ typeNamesX i
  | .mem o _ => typeNamesX o
  | .call f t a => typeNamesX f ++ typeNamesTArgs t ++ typeNamesArgs a
  | .cast t x => typeNamesTy t ++ typeNamesX x
  | .sizeof a => typeNamesEOT a
partial def typeNamesArgs : XArgs → List String
  | .nil => []
  | .cons e r => typeNamesX e ++ typeNamesArgs r
partial def typeNamesEOT : TArg → List String
  | .e x => typeNamesX x
  | .t t => typeNamesTy t
  | .both _ _ => []
partial def typeNamesTArgs : TArgs → List String
  | .nil => []
  | .cons e r => typeNamesEOT e ++ typeNamesTArgs r
partial def typeNamesTy : TyId → List String
  | .mk _ n targs d => n :: (typeNamesTArgs targs ++ typeNamesADecl d)
/-- the array sizes of an abstract declarator are expressions (`(float[(S)x])y`) -/
partial def typeNamesADecl : Decl → List String
  | .empty => []
  | .name _ => []
  | .ptr _ d => typeNamesADecl d
  | .ref d => typeNamesADecl d
  | .arr d e => typeNamesADecl d ++ typeNamesX e
  | .arrN d => typeNamesADecl d
end

/-- an identifier that the lexer reads as a keyword or that `parse_type_modifiers_before` takes as a modifier cannot be
printed as a name -/
def pieceTexts : List Piece → List String
  | [] => []
  | .t _ s :: r => s :: pieceTexts r
  | .sp :: r => pieceTexts r

-- embedding of the older tree type, to run both models on the trees they share
mutual
def embed : Expr → XExpr
  | .lit l => .lit l
  | .id n => .id n
  | .un op x => .un op (embed x)
  | .bin op l r => .bin op (embed l) (embed r)
  | .tern c a b => .tern (embed c) (embed a) (embed b)
  | .sub o i => .sub (embed o) (embed i)
  | .mem o n => .mem (embed o) n
  | .call f a => .call (embed f) .nil (embedArgs a)
def embedArgs : Args → XArgs
  | .nil => .nil
  | .cons e r => .cons (embed e) (embedArgs r)
end

/-- two `&` printed without a space between them (reference to reference) lex as `&&` -/
def gluedAmp : List Piece → Bool
  | .t (.p .Ampersand) _ :: .t (.p .Ampersand) s :: rest => true || gluedAmp (.t (.p .Ampersand) s :: rest)
  | _ :: rest => gluedAmp rest
  | [] => false

/-- `*` or `&` of a declarator directly followed by `[`: `parse_declarator_internal` reads an attribute there -/
def attrShape : List Tok → Bool
  | .p .Asterix :: .p .LeftSquareBracket :: _ => true
  | .p .Ampersand :: .p .LeftSquareBracket :: _ => true
  | _ :: rest => attrShape rest
  | [] => false

/-- answer of the full model to `C09.rt <ctx> <tree>` -/
def handleRtFull (ctx : String) (e : XExpr) : String :=
  if !e.supported then "unsupported literal" else
  let pieces? : Option (List Piece × Terminator) :=
    if ctx == "ret" || ctx == "stmt" then some (fmtExprX e, .Standard)
    else if ctx == "init" then some (fmtSubX e initPrec initSide, initTerminator)
    else if ctx == "arg" then some (fmtSubX e callArgPrec callArgSide, callArgTerminator)
    else if ctx == "idx" then some (fmtSubX e precArraySubscript subIndexSide, subscriptTerminator)
    else none
  match pieces? with
  | none => "bad-request"
  | some (pieces, term) =>
    let ts := toks pieces
    if gluedAmp pieces then "unsupported reference to reference" else
    if attrShape ts then "unsupported attribute position in a declarator" else
    if gluedIntPeriod pieces || ts.any (fun t => match t with | .lit l => litTooLarge l | _ => false)
    then render pieces ++ " ==> ERR:lex" else
    let W := typeNamesX e
    let shown (e' : XExpr) : String := (alignS (sexpX e) (sexpX e')).show
    let back :=
      if ctx == "arg" then
        -- the wrapper `return g(e);` is read as a whole: the hole is the single argument of `g`
        match xparseAll W .Standard (toks (fmtExprX (.call (.id "g") .nil (.cons e .nil)))) with
        | some (.call (.id "g") .nil (.cons e' .nil), []) => shown e'
        | some (other, []) => "ERR:shape arg " ++ (sexpX other).show
        | _ => "ERR:parse"
      else if ctx == "idx" then
        match xparseAll W .Standard (toks (fmtExprX (.sub (.id "g") e))) with
        | some (.sub (.id "g") e', []) => shown e'
        | some (other, []) => "ERR:shape idx " ++ (sexpX other).show
        | _ => "ERR:parse"
      else
        match xparseAll W term ts with
        | some (e', []) => shown e'
        | _ => "ERR:parse"
    render pieces ++ " ==> " ++ back

/-! ## Statements -/

/-- three-valued reader result: malformed / outside the model / value -/
abbrev Rd (α : Type) := Option (Option α)

def rdMap {α β : Type} (f : α → β) : Rd α → Rd β := fun o => o.map (fun x => x.map f)

def toTyNoDecl (s : SExp) : Rd (List TypeMod × String × TArgs) :=
  match toTy s with
  | some (some (.mk m n a .empty)) => some (some (m, n, a))
  | some (some _) => none
  | some none => some none
  | none => none

partial def toDecl : SExp → Rd Decl
  | .list [.atom "d-empty"] => some (some .empty)
  | .list (.atom "d-name" :: parts) => (scopedName parts).map fun n => some (.name n)
  | .list [.atom "d-ptr", .list quals, d] =>
    match sequenceOpt (quals.map fun | .atom q => modOfWrapper q | _ => none), toDecl d with
    | some qs, some (some d) => some (some (.ptr qs d))
    | some _, some none => some none
    | _, _ => none
  | .list [.atom "d-ref", d] => rdMap Decl.ref (toDecl d)
  | .list [.atom "d-arr", d, e] =>
    match toDecl d, toX e with
    | some (some d), some (some e) => some (some (.arr d e))
    | some _, some _ => some none
    | _, _ => none
  | .list [.atom "d-arrn", d] => rdMap Decl.arrN (toDecl d)
  | .list [.atom "d-attr"] => some none
  | _ => none

mutual
partial def toInit : SExp → Rd Init
  | .list (.atom "agg" :: items) => rdMap Init.agg (toInits items)
  | .list [.atom "static-sampler"] => some none
  | s => rdMap Init.expr (toX s)
partial def toInits : List SExp → Rd Inits
  | [] => some (some .nil)
  | x :: r =>
    match toInit x, toInits r with
    | some (some i), some (some l) => some (some (.cons i l))
    | some _, some _ => some none
    | _, _ => none
end

def toInitDecl : SExp → Rd InitDecl
  | .list [.atom "idecl", d, .list [.atom "noinit"]] => rdMap (fun d => ⟨d, none⟩) (toDecl d)
  | .list [.atom "idecl", d, .list [.atom "init", i]] =>
    match toDecl d, toInit i with
    | some (some d), some (some i) => some (some ⟨d, some i⟩)
    | some _, some _ => some none
    | _, _ => none
  | .list (.atom "idecl" :: _ :: _ :: [.list [.atom "annot"]]) => some none
  | _ => none

def toList {α : Type} (f : SExp → Rd α) : List SExp → Rd (List α)
  | [] => some (some [])
  | x :: r =>
    match f x, toList f r with
    | some (some a), some (some l) => some (some (a :: l))
    | some _, some _ => some none
    | _, _ => none

def toVarDef : SExp → Rd VarDef
  | .list (.atom "vd" :: ty :: ds) =>
    match toTyNoDecl ty, toList toInitDecl ds with
    | some (some (m, n, a)), some (some l) => if l.isEmpty then none else some (some ⟨m, n, a, l⟩)
    | some _, some _ => some none
    | _, _ => none
  | _ => none

def toAttr : SExp → Rd Attr
  | .list [.atom "attr", .atom k, .list (.atom "n" :: parts), .list args] =>
    match scopedName parts, toXArgs args with
    | some n, some (some a) => some (some ⟨n, a, k == "2"⟩)
    | some _, some none => some none
    | _, _ => none
  | _ => none

def toOptE : SExp → Rd (Option XExpr)
  | .list [.atom "none"] => some (some none)
  | .list [.atom "some", e] => rdMap some (toX e)
  | _ => none

mutual
partial def toStmt : SExp → Rd Stmt
  | .list [.atom "st", .list attrs, k] =>
    match toList toAttr attrs, toKind k with
    | some (some a), some (some k) => some (some (.mk a k))
    | some _, some _ => some none
    | _, _ => none
  | _ => none
partial def toKind : SExp → Rd Kind
  | .list [.atom "empty"] => some (some .empty)
  | .list [.atom "expr", e] => rdMap Kind.expr (toX e)
  | .list [.atom "var", v] => rdMap Kind.var (toVarDef v)
  | .list (.atom "block" :: ss) => rdMap Kind.block (toStmts ss)
  | .list [.atom "if", c, t] =>
    match toX c, toStmt t with
    | some (some c), some (some t) => some (some (.ifS c t))
    | some _, some _ => some none
    | _, _ => none
  | .list [.atom "ifelse", c, t, e] =>
    match toX c, toStmt t, toStmt e with
    | some (some c), some (some t), some (some e) => some (some (.ifElse c t e))
    | some _, some _, some _ => some none
    | _, _, _ => none
  | .list [.atom "for", i, c, n, b] =>
    let init : Rd ForInit := match i with
      | .list [.atom "none"] => some (some .empty)
      | .list [.atom "e", e] => rdMap ForInit.expr (toX e)
      | .list [.atom "d", v] => rdMap ForInit.decl (toVarDef v)
      | _ => none
    match init, toOptE c, toOptE n, toStmt b with
    | some (some i), some (some c), some (some n), some (some b) => some (some (.forS i c n b))
    | some _, some _, some _, some _ => some none
    | _, _, _, _ => none
  | .list [.atom "while", c, b] =>
    match toX c, toStmt b with
    | some (some c), some (some b) => some (some (.whileS c b))
    | some _, some _ => some none
    | _, _ => none
  | .list [.atom "do", b, c] =>
    match toStmt b, toX c with
    | some (some b), some (some c) => some (some (.doWhile b c))
    | some _, some _ => some none
    | _, _ => none
  | .list [.atom "switch", c, b] =>
    match toX c, toStmt b with
    | some (some c), some (some b) => some (some (.switchS c b))
    | some _, some _ => some none
    | _, _ => none
  | .list [.atom "break"] => some (some .breakS)
  | .list [.atom "continue"] => some (some .continueS)
  | .list [.atom "discard"] => some (some .discardS)
  | .list [.atom "ret"] => some (some (.ret none))
  | .list [.atom "ret", e] => rdMap (fun e => Kind.ret (some e)) (toX e)
  | .list [.atom "case", v, n] =>
    match toX v, toStmt n with
    | some (some v), some (some n) => some (some (.caseS v n))
    | some _, some _ => some none
    | _, _ => none
  | .list [.atom "default", n] => rdMap Kind.defaultS (toStmt n)
  | .list (.atom "ambiguous" :: _) => some none
  | _ => none
partial def toStmts : List SExp → Rd Stmts
  | [] => some (some .nil)
  | x :: r =>
    match toStmt x, toStmts r with
    | some (some s), some (some l) => some (some (.cons s l))
    | some _, some _ => some none
    | _, _ => none
end

def sexpDecl : Decl → SExp
  | .empty => .list [.atom "d-empty"]
  | .name n => .list (.atom "d-name" :: nameAtoms n)
  | .ptr q d => .list [.atom "d-ptr", .list (q.map fun m => .atom (modSpell m)), sexpDecl d]
  | .ref d => .list [.atom "d-ref", sexpDecl d]
  | .arr d e => .list [.atom "d-arr", sexpDecl d, sexpX e]
  | .arrN d => .list [.atom "d-arrn", sexpDecl d]

mutual
partial def sexpInit : Init → SExp
  | .expr e => sexpX e
  | .agg l => .list (.atom "agg" :: sexpInits l)
partial def sexpInits : Inits → List SExp
  | .nil => []
  | .cons i r => sexpInit i :: sexpInits r
end

def sexpVarDef (v : VarDef) : SExp :=
  .list (.atom "vd" :: sexpTy (.mk v.mods v.name v.targs .empty) ::
    v.defs.map fun d => .list [.atom "idecl", sexpDecl d.decl,
      match d.init with
      | none => .list [.atom "noinit"]
      | some i => .list [.atom "init", sexpInit i]])

def sexpAttr (a : Attr) : SExp :=
  .list [.atom "attr", .atom (if a.double then "2" else "1"), .list (.atom "n" :: nameAtoms a.name), .list (sexpXArgs a.args)]

def sexpOptE : Option XExpr → SExp
  | none => .list [.atom "none"]
  | some e => .list [.atom "some", sexpX e]

mutual
partial def sexpStmt : Stmt → SExp
  | .mk attrs k => .list [.atom "st", .list (attrs.map sexpAttr), sexpKind k]
partial def sexpKind : Kind → SExp
  | .empty => .list [.atom "empty"]
  | .expr e => .list [.atom "expr", sexpX e]
  | .var v => .list [.atom "var", sexpVarDef v]
  | .block b => .list (.atom "block" :: sexpStmts b)
  | .ifS c t => .list [.atom "if", sexpX c, sexpStmt t]
  | .ifElse c t e => .list [.atom "ifelse", sexpX c, sexpStmt t, sexpStmt e]
  | .forS i c n b =>
    .list [.atom "for",
      (match i with
       | .empty => .list [.atom "none"]
       | .expr e => .list [.atom "e", sexpX e]
       | .decl v => .list [.atom "d", sexpVarDef v]),
      sexpOptE c, sexpOptE n, sexpStmt b]
  | .whileS c b => .list [.atom "while", sexpX c, sexpStmt b]
  | .doWhile b c => .list [.atom "do", sexpStmt b, sexpX c]
  | .switchS c b => .list [.atom "switch", sexpX c, sexpStmt b]
  | .breakS => .list [.atom "break"]
  | .continueS => .list [.atom "continue"]
  | .discardS => .list [.atom "discard"]
  | .ret none => .list [.atom "ret"]
  | .ret (some e) => .list [.atom "ret", sexpX e]
  | .caseS v n => .list [.atom "case", sexpX v, sexpStmt n]
  | .defaultS n => .list [.atom "default", sexpStmt n]
partial def sexpStmts : Stmts → List SExp
  | .nil => []
  | .cons s r => sexpStmt s :: sexpStmts r
end

-- type names of a statement (the harness's `type_names_stmt`)
def typeNamesDecl : Decl → List String
  | .empty => []
  | .name _ => []
  | .ptr _ d => typeNamesDecl d
  | .ref d => typeNamesDecl d
  | .arr d e => typeNamesDecl d ++ typeNamesX e
  | .arrN d => typeNamesDecl d

mutual
partial def typeNamesInit : Init → List String
  | .expr e => typeNamesX e
  | .agg l => typeNamesInits l
partial def typeNamesInits : Inits → List String
  | .nil => []
  | .cons i r => typeNamesInit i ++ typeNamesInits r
end

def typeNamesVarDef (v : VarDef) : List String :=
  v.name :: typeNamesTArgs v.targs ++ (v.defs.map fun d =>
    typeNamesDecl d.decl ++ (match d.init with | none => [] | some i => typeNamesInit i)).flatten

def typeNamesOpt : Option XExpr → List String
  | none => []
  | some e => typeNamesX e

mutual
partial def typeNamesStmt : Stmt → List String
  | .mk attrs k => (attrs.map fun a => typeNamesArgs a.args).flatten ++ typeNamesKind k
partial def typeNamesKind : Kind → List String
  | .expr e => typeNamesX e
  | .var v => typeNamesVarDef v
  | .block b => typeNamesStmts b
  | .ifS c t => typeNamesX c ++ typeNamesStmt t
  | .ifElse c t e => typeNamesX c ++ typeNamesStmt t ++ typeNamesStmt e
  | .forS i c n b =>
    (match i with | .empty => [] | .expr e => typeNamesX e | .decl v => typeNamesVarDef v) ++
      typeNamesOpt c ++ typeNamesOpt n ++ typeNamesStmt b
  | .whileS c b => typeNamesX c ++ typeNamesStmt b
  | .doWhile b c => typeNamesStmt b ++ typeNamesX c
  | .switchS c b => typeNamesX c ++ typeNamesStmt b
  | .ret (some e) => typeNamesX e
  | .caseS v n => typeNamesX v ++ typeNamesStmt n
  | .defaultS n => typeNamesStmt n
  | _ => []
partial def typeNamesStmts : Stmts → List String
  | .nil => []
  | .cons s r => typeNamesStmt s ++ typeNamesStmts r
end

/-- every run of spaces collapsed, none at the ends -/
def collapseSp (ps : List Piece) : List Piece :=
  let rec go : List Piece → Bool → List Piece
    | [], _ => []
    | .sp :: r, true => go r true
    | .sp :: r, false => .sp :: go r true
    | p :: r, _ => p :: go r false
  let trimmed := go ps true
  (trimmed.reverse.dropWhile fun | .sp => true | _ => false).reverse

def handleSt (s : Stmt) : String :=
  let pieces := fmtStmt s
  let ts := toks pieces
  if pieces.any (fun p => match p with | .t (.lit _) "?" => true | _ => false) then "unsupported literal" else
  if gluedAmp pieces then "unsupported reference to reference" else
  if attrShape ts then "unsupported attribute position in a declarator" else
  let text := render (collapseSp pieces)
  if gluedIntPeriod pieces || ts.any (fun t => match t with | .lit l => litTooLarge l | _ => false)
  then text ++ " ==> ERR:lex" else
  let W := typeNamesStmt s
  -- the body of `void f() { … }`: the statement is followed by the closing brace
  match parseStmt W (40 * ts.length + 80) (ts ++ [.p .RightBrace]) with
  | .ok s' [.p .RightBrace] => text ++ " ==> " ++ (alignS (sexpStmt s) (sexpStmt s')).show
  | .ok _ _ => text ++ " ==> ERR:shape"
  | .fail => text ++ " ==> ERR:parse"
  | .panic => text ++ " ==> PANIC"

/-! ## Function and struct definitions -/

def toSem : SExp → Rd (Option String)
  | .list [.atom "nosem"] => some (some none)
  | .list [.atom "sem", .atom n] => some (some (some n))
  | .list [.atom "annot"] => some none
  | _ => none

def toParam : SExp → Rd Param
  | .list [.atom "param", ty, d, sem, dflt] =>
    let dv : Rd (Option XExpr) := match dflt with
      | .list [.atom "nodef"] => some (some none)
      | .list [.atom "def", e] => rdMap some (toX e)
      | _ => none
    match toTyNoDecl ty, toDecl d, toSem sem, dv with
    | some (some (m, n, a)), some (some d), some (some s), some (some e) => some (some ⟨m, n, a, d, s, e⟩)
    | some _, some _, some _, some _ => some none
    | _, _, _, _ => none
  | _ => none

def toFn : SExp → Rd FnDef
  | .list [.atom "fn", .list attrs, ty, .atom name, .list params, sem, body, .list flags] =>
    let b : Rd (Option Stmts) := match body with
      | .list [.atom "nobody"] => some (some none)
      | .list (.atom "body" :: ss) => rdMap some (toStmts ss)
      | _ => none
    match toList toAttr attrs, toTyNoDecl ty, toList toParam params, toSem sem, b with
    | some (some a), some (some (m, n, ta)), some (some ps), some (some s), some (some b) =>
      if flags.isEmpty then some (some ⟨a, m, n, ta, name, ps, s, b⟩) else some none
    | some _, some _, some _, some _, some _ => some none
    | _, _, _, _, _ => none
  | _ => none

def toMember : SExp → Rd Member
  | .list [.atom "member", .list attrs, vd] =>
    match toList toAttr attrs, toVarDef vd with
    | some (some a), some (some v) => some (some (.var a v))
    | some _, some _ => some none
    | _, _ => none
  | .list [.atom "method", f] => rdMap Member.method (toFn f)
  | _ => none

def toStructDef : SExp → Rd StructDef
  | .list [.atom "struct", .atom name, .list members, .list flags] =>
    -- flags: nothing, or the single entry `(bases <type> …)`; anything else (template parameters) is outside the model
    let bases? : Rd (List BaseTy) :=
      match flags with
      | [] => some (some [])
      | [.list (.atom "bases" :: tys)] => toList toTyNoDecl tys
      | _ => some none
    match toList toMember members, bases? with
    | some (some ms), some (some bs) => some (some ⟨name, bs, ms⟩)
    | none, _ => none
    | _, none => none
    | _, _ => some none
  | _ => none

def sexpSem : Option String → SExp
  | none => .list [.atom "nosem"]
  | some n => .list [.atom "sem", .atom n]

def sexpParam (p : Param) : SExp :=
  .list [.atom "param", sexpTy (.mk p.mods p.name p.targs .empty), sexpDecl p.decl, sexpSem p.sem,
    match p.dflt with
    | none => .list [.atom "nodef"]
    | some e => .list [.atom "def", sexpX e]]

def sexpFn (f : FnDef) : SExp :=
  .list [.atom "fn", .list (f.attrs.map sexpAttr), sexpTy (.mk f.rmods f.rname f.rtargs .empty), .atom f.name,
    .list (f.params.map sexpParam), sexpSem f.sem,
    (match f.body with
     | none => .list [.atom "nobody"]
     | some b => .list (.atom "body" :: sexpStmts b)),
    .list []]

def sexpMember : Member → SExp
  | .var attrs v => .list [.atom "member", .list (attrs.map sexpAttr), sexpVarDef v]
  | .method f => .list [.atom "method", sexpFn f]

def sexpStructDef (s : StructDef) : SExp :=
  .list [.atom "struct", .atom s.name, .list (s.members.map sexpMember),
    .list (if s.bases.isEmpty then [] else
      [.list (.atom "bases" :: s.bases.map fun b => sexpTy (.mk b.1 b.2.1 b.2.2 .empty))])]

def typeNamesFn (f : FnDef) : List String :=
  f.rname :: typeNamesTArgs f.rtargs ++ (f.params.map fun p =>
    p.name :: typeNamesTArgs p.targs ++ typeNamesDecl p.decl ++ typeNamesOpt p.dflt).flatten ++
  (match f.body with | none => [] | some b => typeNamesStmts b)

def typeNamesMember : Member → List String
  | .var _ v => v.name :: typeNamesTArgs v.targs
  | .method f => typeNamesFn f

def defGuard (pieces : List Piece) : Option String :=
  let ts := toks pieces
  if pieces.any (fun p => match p with | .t (.lit _) "?" => true | _ => false) then some "unsupported literal" else
  if gluedAmp pieces then some "unsupported reference to reference" else
  if attrShape ts then some "unsupported attribute position in a declarator" else none

def handleDef (sx : SExp) : String :=
  match sx with
  | .list (.atom "fn" :: _) =>
    match toFn sx with
    | none => "bad-request"
    | some none => "unsupported node kind"
    | some (some f) =>
      let pieces := fmtFn f
      match defGuard pieces with
      | some msg => msg
      | none =>
        let ts := toks pieces
        let text := render (collapseSp pieces)
        if gluedIntPeriod pieces || ts.any (fun t => match t with | .lit l => litTooLarge l | _ => false)
        then text ++ " ==> ERR:lex" else
        match parseFn (typeNamesFn f) (40 * ts.length + 80) (ts ++ [.p .Eof]) with
        | .ok f' [.p .Eof] => text ++ " ==> " ++ (alignS (sexpFn f) (sexpFn f')).show
        | .ok _ _ => text ++ " ==> ERR:shape"
        | .fail => text ++ " ==> ERR:parse"
        | .panic => text ++ " ==> PANIC"
  | .list (.atom "struct" :: _) =>
    match toStructDef sx with
    | none => "bad-request"
    | some none => "unsupported node kind"
    | some (some s) =>
      let pieces := fmtStruct s
      match defGuard pieces with
      | some msg => msg
      | none =>
        let ts := toks pieces
        let text := render (collapseSp pieces)
        if gluedIntPeriod pieces || ts.any (fun t => match t with | .lit l => litTooLarge l | _ => false)
        then text ++ " ==> ERR:lex" else
        match parseStruct ((s.bases.map fun b => b.2.1 :: typeNamesTArgs b.2.2).flatten ++ (s.members.map typeNamesMember).flatten)
            (40 * ts.length + 80) (ts ++ [.p .Eof]) with
        | .ok s' [.p .Eof] => text ++ " ==> " ++ (alignS (sexpStructDef s) (sexpStructDef s')).show
        | .ok _ _ => text ++ " ==> ERR:shape"
        | .fail => text ++ " ==> ERR:parse"
        | .panic => text ++ " ==> PANIC"
  | _ => "bad-request"

/-- answer of the first model (`Model/Format.lean` + `Model/Parse.lean`), `none` where it does not apply -/
def handleRtCore (ctx : String) (e : Expr) : Option String :=
  if !e.supported then some "unsupported literal" else
  let pieces? : Option (List Piece × Terminator) :=
    if ctx == "ret" || ctx == "stmt" then some (fmtExpr e, .Standard)
    else if ctx == "init" then some (fmtInit e, .Sequence)
    else if ctx == "arg" then some (fmtSub e callArgPrec callArgSide, callArgTerminator)
    else if ctx == "idx" then some (fmtSub e precArraySubscript subIndexSide, subscriptTerminator)
    else none
  match pieces? with
  | none => some "bad-request"
  | some (pieces, term) =>
    let ts := toks pieces
    if templateShape ts then none else
    if gluedIntPeriod pieces || ts.any (fun t => match t with | .lit l => litTooLarge l | _ => false)
    then some (render pieces ++ " ==> ERR:lex") else
    let back := match parseAll term ts with
      | some (e', []) => showExpr e'
      | _ => "ERR:parse"
    some (render pieces ++ " ==> " ++ back)

def handle (op : String) (args : List String) : String :=
  match op, args with
  | "C09.rt", [ctx, tree] =>
    match readSExp (sexpTokens tree) with
    | none => "bad-request"
    | some sx =>
      match toX sx with
      | none => "bad-request"
      | some none => "unsupported node kind"
      | some (some e) =>
        let full := handleRtFull ctx e
        -- trees of the first model: both models must give the same answer
        match toExpr sx with
        | some (some e0) =>
          match handleRtCore ctx e0 with
          | some core => if core == full then full else "MODELS-DIFFER core=[" ++ core ++ "] full=[" ++ full ++ "]"
          | none => full
        | _ => full
  | "C09.st", [tree] =>
    match readSExp (sexpTokens tree) with
    | none => "bad-request"
    | some sx =>
      match toStmt sx with
      | none => "bad-request"
      | some none => "unsupported node kind"
      | some (some st) => handleSt st
  | "C09.def", [tree] =>
    match readSExp (sexpTokens tree) with
    | none => "bad-request"
    | some sx => handleDef sx
  | _, _ => "unsupported-op"

end RsslVerif.Driver.C09

/-!
# `Model.Ieee` — IEEE-754 binary32 comparisons and the float <-> integer conversions, on bit patterns (core Lean only)

The theorems of C01 / C02 quantify over every interpretation `Prim` of the float primitives.  The *concrete*
interpretation used by the correspondence runs (Driver/C01 `concretePrim` = harness/src/c01/sx.rs) must not satisfy laws
that real float hardware does not satisfy — otherwise an exporter that rewrites by such a law is invisible to the value
comparison.  Two such laws held for the first (hash-like, total-order) interpretation:

* `¬(a < b) ⇔ a >= b` (and the three siblings), `a == a`, `a <= a`: false when an operand is NaN;
* `(int)(float)i == i`: false beyond 2^24.

So comparisons and conversions are the real ones here, written on bit patterns (the harness computes the same with
Rust's native `f32` comparisons and `as` casts: two independent implementations compared on every run):

* `fcmp`: ordered comparisons are false when an operand is NaN, `==` false, `!=` true; `+0 == -0`;
* `f2i` / `f2u`: round toward zero; NaN ↦ 0; out of range saturates (`ftoi` / `ftou` of the Direct3D functional
  specification; Rust's `as`); `f2u` of a negative value is 0;
* `i2f` / `u2f`: round to nearest, ties to even.

Arithmetic (`+ - * / %`), increment / decrement of floats and the built-in functions stay uninterpreted hash-like functions in the
driver: they satisfy no algebraic law at all, which is what a witness search wants.
-/
namespace RsslVerif.Model.Ieee

def absBits (x : BitVec 32) : Nat := x.toNat % 0x80000000
def signBit (x : BitVec 32) : Bool := x.toNat ≥ 0x80000000
def isNaN (x : BitVec 32) : Bool := absBits x > 0x7F800000

/-- position on the real line scaled so that order of keys = order of the (non-NaN) values; both zeros ↦ 0 -/
def key (x : BitVec 32) : Int := if signBit x then - (absBits x : Int) else (absBits x : Int)

def lt (x y : BitVec 32) : Bool := !isNaN x && !isNaN y && decide (key x < key y)
def le (x y : BitVec 32) : Bool := !isNaN x && !isNaN y && decide (key x ≤ key y)
def eq (x y : BitVec 32) : Bool := !isNaN x && !isNaN y && decide (key x = key y)

/-- magnitude of a finite value with (biased) exponent ≥ 127, truncated toward zero -/
def truncMag (x : BitVec 32) : Nat :=
  let a := absBits x
  let e := a / 0x800000
  let m := a % 0x800000 + 0x800000
  if e < 127 then 0 else
  let k := e - 127
  if k ≥ 23 then m * 2 ^ (k - 23) else m / 2 ^ (23 - k)

/-- float → int: toward zero, NaN ↦ 0, saturating -/
def f2i (x : BitVec 32) : BitVec 32 :=
  if isNaN x then 0 else
  let e := absBits x / 0x800000
  if e ≥ 127 + 31 then (if signBit x then 0x80000000#32 else 0x7FFFFFFF#32) else
  let mag := truncMag x
  if signBit x then BitVec.ofInt 32 (- (mag : Int)) else BitVec.ofNat 32 mag

/-- float → uint: toward zero, NaN ↦ 0, negative ↦ 0, saturating -/
def f2u (x : BitVec 32) : BitVec 32 :=
  if isNaN x then 0 else
  if signBit x then 0 else
  let e := absBits x / 0x800000
  if e ≥ 127 + 32 then 0xFFFFFFFF#32 else BitVec.ofNat 32 (truncMag x)

/-- a natural number below 2^32 ↦ nearest binary32 (ties to even), as a non-negative bit pattern -/
def natToF32 (n : Nat) : Nat :=
  if n = 0 then 0 else
  let p := Nat.log2 n
  if p ≤ 23 then (p + 127) * 0x800000 + (n * 2 ^ (23 - p) - 0x800000) else
  let s := p - 23
  let m := n / 2 ^ s
  let r := n % 2 ^ s
  let half := 2 ^ (s - 1)
  let up : Nat := if r > half || (r == half && m % 2 == 1) then 1 else 0
  -- a carry out of the mantissa moves into the exponent field, which is exactly the next power of two
  (p + 127) * 0x800000 + (m - 0x800000) + up

def u2f (x : BitVec 32) : BitVec 32 := BitVec.ofNat 32 (natToF32 x.toNat)

def i2f (x : BitVec 32) : BitVec 32 :=
  if x.toNat ≥ 0x80000000 then BitVec.ofNat 32 (0x80000000 + natToF32 (0x100000000 - x.toNat))
  else BitVec.ofNat 32 (natToF32 x.toNat)

end RsslVerif.Model.Ieee
